(** * Facts about [ranking] (Model/Rank.v) and the checker [C04_ok] (Check/C04.v),
      for an arbitrary carrier satisfying [OrdLaws]. *)
From Coq Require Import ZArith Bool List String Permutation Sorted Relations OrderedTypeEx Lia.
From RDM Require Import Base.Num Base.Util Model.Data Model.Rank Proofs.SortFacts Check.C04.
Import ListNotations.

(** ** String order facts *)
Lemma sltb_lt a b : String.ltb a b = true <-> String_as_OT.lt a b.
Proof.
  unfold String.ltb. rewrite <- String_as_OT.cmp_lt. unfold String_as_OT.cmp.
  destruct (String.compare a b); split; congruence.
Qed.

Lemma sltb_trans a b c : String.ltb a b = true -> String.ltb b c = true -> String.ltb a c = true.
Proof. rewrite !sltb_lt. apply String_as_OT.lt_trans. Qed.

Lemma sltb_irrefl a : String.ltb a a = false.
Proof.
  unfold String.ltb. assert (String.compare a a = Eq) as ->; [|reflexivity].
  apply (proj2 (String_as_OT.cmp_eq a a)). reflexivity.
Qed.

Lemma sltb_tricho a b : String.ltb a b = true \/ a = b \/ String.ltb b a = true.
Proof.
  unfold String.ltb. rewrite (String.compare_antisym b a).
  destruct (String.compare a b) eqn:E; cbn; auto.
  right; left. now apply String.compare_eq_iff.
Qed.

Lemma sltb_asym a b : String.ltb a b = true -> String.ltb b a = false.
Proof.
  intros H. destruct (String.ltb b a) eqn:E; [|reflexivity].
  pose proof (sltb_trans _ _ _ H E) as T. now rewrite sltb_irrefl in T.
Qed.

(* transitivity of "not greater" *)
Lemma snlt_trans a b c : String.ltb b a = false -> String.ltb c b = false -> String.ltb c a = false.
Proof.
  intros H1 H2. destruct (String.ltb c a) eqn:E; [|reflexivity].
  destruct (sltb_tricho a b) as [T|[T|T]].
  - pose proof (sltb_trans _ _ _ E T). congruence.
  - subst. congruence.
  - congruence.
Qed.

(** ** Generic list facts *)
Lemma filter_map_comm {A B} (f : A -> B) (p : B -> bool) l :
  filter p (map f l) = map f (filter (fun x => p (f x)) l).
Proof.
  induction l as [|x r IH]; cbn [map filter]; [reflexivity|].
  destruct (p (f x)); cbn [map]; now rewrite IH.
Qed.

Lemma forallb_map_comm {A B} (f : A -> B) (p : B -> bool) l :
  forallb p (map f l) = forallb (fun x => p (f x)) l.
Proof. induction l as [|x r IH]; cbn [map forallb]; [reflexivity|]. now rewrite IH. Qed.

Lemma filter_none {A} (p : A -> bool) l : (forall x, In x l -> p x = false) -> filter p l = [].
Proof.
  induction l as [|x r IH]; intros H; cbn [filter]; [reflexivity|].
  rewrite (H x) by now left. apply IH. intros y Hy. apply H. now right.
Qed.

Lemma NoDup_map_inj {A B} (f : A -> B) l a b :
  NoDup (map f l) -> In a l -> In b l -> f a = f b -> a = b.
Proof.
  induction l as [|x r IH]; cbn [map]; intros ND Ia Ib E; [contradiction|].
  inversion ND as [|? ? Hnin ND']; subst.
  destruct Ia as [->|Ia], Ib as [->|Ib]; auto.
  - exfalso. apply Hnin. rewrite E. now apply in_map.
  - exfalso. apply Hnin. rewrite <- E. now apply in_map.
Qed.

Lemma StronglySorted_weaken {A} (R R' : A -> A -> Prop) l :
  (forall a b, In a l -> In b l -> R a b -> R' a b) -> StronglySorted R l -> StronglySorted R' l.
Proof.
  intros H S. induction S as [|x r Sr IH Hall]; constructor.
  - apply IH. intros a b Ia Ib. apply H; now right.
  - rewrite Forall_forall in *. intros y Hy. apply H; [now left|now right|now apply Hall].
Qed.

Lemma list_eqb_refl l : list_eqb String.eqb l l = true.
Proof. induction l as [|x r IH]; cbn [list_eqb]; [reflexivity|]. now rewrite String.eqb_refl. Qed.

Lemma list_eqb_eq l1 l2 : list_eqb String.eqb l1 l2 = true -> l1 = l2.
Proof.
  revert l2. induction l1 as [|x r IH]; intros [|y s] H; cbn [list_eqb] in H; try discriminate; [reflexivity|].
  apply andb_true_iff in H as [H1 H2]. apply String.eqb_eq in H1. subst. f_equal. now apply IH.
Qed.

Lemma filter_length_le {A} (p q : A -> bool) l :
  (forall s, In s l -> p s = true -> q s = true) -> List.length (filter p l) <= List.length (filter q l).
Proof.
  induction l as [|x r IH]; intros H; cbn [filter]; [apply le_n|].
  assert (IH' : List.length (filter p r) <= List.length (filter q r)).
  { apply IH. intros s Hs. apply H. now right. }
  destruct (p x) eqn:Ep.
  - rewrite (H x (or_introl eq_refl) Ep). cbn [List.length]. lia.
  - destruct (q x); cbn [List.length]; lia.
Qed.

Lemma filter_length_lt {A} (p q : A -> bool) l m :
  (forall s, In s l -> p s = true -> q s = true) -> In m l -> q m = true -> p m = false ->
  List.length (filter p l) < List.length (filter q l).
Proof.
  induction l as [|x r IH]; intros H Hm Hq Hp; [contradiction|]. cbn [filter].
  assert (Hr : forall s, In s r -> p s = true -> q s = true) by (intros s Hs; apply H; now right).
  destruct Hm as [->|Hm].
  - rewrite Hq, Hp. cbn [List.length]. pose proof (filter_length_le p q r Hr). lia.
  - specialize (IH Hr Hm Hq Hp). destruct (p x) eqn:Ep.
    + rewrite (H x (or_introl eq_refl) Ep). cbn [List.length]. lia.
    + destruct (q x); cbn [List.length]; lia.
Qed.

(** ** Insertion sort is sorted when the order laws hold on the elements present *)
Section SortOn.
  Context {A : Type} (lt : A -> A -> bool) (P : A -> Prop).
  Notation le := (SortFacts.le lt).
  Hypothesis Htrans : forall a b c, P a -> P b -> P c -> le a b -> le b c -> le a c.
  Hypothesis Hlt : forall a b, P a -> P b -> lt a b = true -> le a b.

  Lemma insert_sorted_on x l :
    P x -> Forall P l -> StronglySorted le l -> StronglySorted le (insert lt x l).
  Proof.
    intros Px Pl Hs. induction Hs as [|y r Hr IH Hall]; cbn [insert].
    - repeat constructor.
    - inversion Pl as [|? ? Py Pr]; subst.
      destruct (lt y x) eqn:E.
      + constructor; [now apply IH|].
        rewrite Forall_forall. intros z Hz.
        apply (Permutation_in _ (insert_perm lt x r)) in Hz. destruct Hz as [<-|Hz].
        * now apply Hlt.
        * rewrite Forall_forall in Hall. now apply Hall.
      + constructor; [now constructor|].
        constructor; [exact E|].
        rewrite Forall_forall in *. intros z Hz.
        apply (Htrans x y z); auto; now apply Hall.
  Qed.

  Lemma isort_sorted_on l : Forall P l -> StronglySorted le (isort lt l).
  Proof.
    induction l as [|x r IH]; intros Pl; cbn [isort]; [constructor|].
    inversion Pl as [|? ? Px Pr]; subst.
    apply insert_sorted_on; auto.
    rewrite Forall_forall in Pr. rewrite Forall_forall. intros y Hy. apply Pr. exact (proj1 (isort_in lt y r) Hy).
  Qed.
End SortOn.

Section RankFacts.
  Context {N : Num} {L : OrdLaws N}.

  Definition ids (l : list scored) : list string := map (fun x => a_id (fst x)) l.
  Definition okl (l : list scored) : Prop := Forall (fun x => okv (snd x)) l.

  Definition sid (x : scored) : string := a_id (fst x).
  Definition oks (x : scored) : Prop := okv (snd x).
  Notation rle := (SortFacts.le rank_lt).

  (** *** The order [rank_lt] on ok values *)
  Lemma rle_iff a b : oks a -> oks b ->
    (rle a b <-> nleb (snd b) (snd a) = true
                /\ (neqb (snd b) (snd a) = true -> String.ltb (sid b) (sid a) = false)).
  Proof.
    unfold SortFacts.le, rank_lt, oks, sid. intros Ha Hb.
    rewrite (eqb_leb (snd b) (snd a)) by assumption.
    rewrite (ltb_leb (snd a) (snd b)) by assumption.
    destruct (nleb (snd b) (snd a)) eqn:E1; cbn [andb negb].
    - destruct (nleb (snd a) (snd b)) eqn:E2; split; intros H; auto; try (now destruct H).
      + destruct H as [_ H]. now apply H.
    - split; intros H; [discriminate|]. now destruct H.
  Qed.

  Lemma rle_trans a b c : oks a -> oks b -> oks c -> rle a b -> rle b c -> rle a c.
  Proof.
    intros Ha Hb Hc. rewrite !rle_iff by assumption. unfold oks in *.
    intros [V1 S1] [V2 S2].
    assert (V3 : nleb (snd c) (snd a) = true) by (apply (leb_trans _ (snd b)); assumption).
    split; [exact V3|]. intros E. rewrite eqb_leb in E by assumption.
    apply andb_true_iff in E as [_ E].
    apply (snlt_trans _ (sid b)).
    - apply S1. rewrite eqb_leb by assumption. rewrite V1. cbn [andb].
      apply (leb_trans _ (snd c)); assumption.
    - apply S2. rewrite eqb_leb by assumption. rewrite V2. cbn [andb].
      apply (leb_trans _ (snd a)); assumption.
  Qed.

  Lemma rank_lt_rle a b : oks a -> oks b -> rank_lt a b = true -> rle a b.
  Proof.
    unfold SortFacts.le, rank_lt, oks. intros Ha Hb.
    rewrite (eqb_sym (snd b) (snd a)) by assumption.
    destruct (trichotomy (snd a) (snd b) Ha Hb) as [(A&B&C)|[(A&B&C)|(A&B&C)]]; rewrite B.
    - congruence.
    - apply sltb_asym.
    - intros _. exact A.
  Qed.

  Lemma rle_total a b : oks a -> oks b -> sid a <> sid b -> rle a b -> rank_lt a b = true.
  Proof.
    unfold SortFacts.le, rank_lt, oks, sid. intros Ha Hb Hne.
    rewrite (eqb_sym (snd b) (snd a)) by assumption.
    destruct (trichotomy (snd a) (snd b) Ha Hb) as [(A&B&C)|[(A&B&C)|(A&B&C)]]; rewrite B.
    - congruence.
    - intros H. destruct (sltb_tricho (a_id (fst a)) (a_id (fst b))) as [T|[T|T]]; congruence.
    - intros _. exact C.
  Qed.

  Lemma rle_antisym a b : oks a -> oks b -> rle a b -> rle b a -> sid a = sid b.
  Proof.
    intros Ha Hb H1 H2. destruct (string_dec (sid a) (sid b)) as [E|E]; [exact E|].
    pose proof (rle_total a b Ha Hb E H1) as T. unfold SortFacts.le in H2. congruence.
  Qed.

  Lemma rle_vle a b : oks a -> oks b -> rle a b -> nleb (snd b) (snd a) = true.
  Proof. intros Ha Hb H. now apply (rle_iff a b Ha Hb) in H. Qed.

  (** *** The sorted list of rounded scores *)
  Lemma rounded_oks l : okl l -> Forall oks (rounded l).
  Proof.
    unfold okl, rounded. intros H. rewrite Forall_forall in *. intros x Hx.
    apply in_map_iff in Hx as (y & <- & Hy). unfold oks. cbn [snd]. apply round8_okv. now apply H.
  Qed.

  Lemma rounded_ids l : map sid (rounded l) = ids l.
  Proof. unfold rounded, ids. rewrite map_map. reflexivity. Qed.

  Definition srt (l : list scored) : list scored := isort rank_lt (rounded l).

  Lemma srt_oks l : okl l -> Forall oks (srt l).
  Proof.
    intros H. apply rounded_oks in H. unfold srt. rewrite Forall_forall in *.
    intros x Hx. apply H. exact (proj1 (isort_in rank_lt x _) Hx).
  Qed.

  Lemma srt_ids_perm l : Permutation (map sid (srt l)) (ids l).
  Proof. rewrite <- (rounded_ids l). apply Permutation_map. apply isort_perm. Qed.

  Lemma srt_nodup l : NoDup (ids l) -> NoDup (map sid (srt l)).
  Proof. intros H. eapply Permutation_NoDup; [symmetry; apply srt_ids_perm|exact H]. Qed.

  Lemma srt_sorted l : okl l -> StronglySorted rle (srt l).
  Proof.
    intros H. apply (isort_sorted_on rank_lt oks).
    - apply rle_trans.
    - apply rank_lt_rle.
    - now apply rounded_oks.
  Qed.

  (** *** Entries *)
  Definition mk (S : list scored) (x : scored) : entry :=
    {| e_alt := fst x; e_eval := EValue (snd x);
       e_links := pos_links (a_id (fst x)) (snd x) S None |}.

  Lemma ranking_eq l : ranking l = map (mk (srt l)) (srt l).
  Proof. reflexivity. Qed.

  Lemma eid_mk S x : eid (mk S x) = sid x.
  Proof. reflexivity. Qed.
  Lemma val_mk S x : val (mk S x) = snd x.
  Proof. reflexivity. Qed.

  Theorem ranking_ids_perm : forall l, Permutation (map eid (ranking l)) (ids l).
  Proof.
    intros l. rewrite ranking_eq, map_map.
    rewrite (map_ext _ sid) by (intros; apply eid_mk). apply srt_ids_perm.
  Qed.

  Lemma before_mk S x y : oks x -> oks y -> before (mk S x) (mk S y) = rank_lt x y.
  Proof.
    unfold before, rank_lt, oks. rewrite !val_mk, !eid_mk. intros Hx Hy.
    destruct (trichotomy (snd x) (snd y) Hx Hy) as [(A&B&C)|[(A&B&C)|(A&B&C)]]; rewrite B, C; cbn [andb orb].
    - reflexivity.
    - reflexivity.
    - reflexivity.
  Qed.

  Lemma sorted_by_cons2 (lt : entry -> entry -> bool) x y r :
    sorted_by lt (x :: y :: r) = lt x y && sorted_by lt (y :: r).
  Proof. reflexivity. Qed.

  Lemma sorted_mk S t : Forall oks t -> NoDup (map sid t) -> StronglySorted rle t ->
    sorted_by before (map (mk S) t) = true.
  Proof.
    induction t as [|x r IH]; intros Hok ND Hs; [reflexivity|].
    inversion Hok as [|? ? Hx Hr]; subst. inversion ND as [|? ? Hnin ND']; subst.
    inversion Hs as [|? ? Hs' Hall]; subst.
    specialize (IH Hr ND' Hs').
    destruct r as [|y r']; [reflexivity|].
    cbn [map]. cbn [map] in IH. rewrite sorted_by_cons2, IH, andb_true_r.
    inversion Hr as [|? ? Hy _]; subst.
    rewrite before_mk by assumption.
    apply rle_total; auto.
    - intros E. apply Hnin. cbn [map]. left. now symmetry.
    - rewrite Forall_forall in Hall. apply Hall. now left.
  Qed.

  Theorem ranking_sorted : forall l, okl l -> NoDup (ids l) -> sorted_by before (ranking l) = true.
  Proof.
    intros l Hok ND. rewrite ranking_eq. apply sorted_mk.
    - now apply srt_oks.
    - now apply srt_nodup.
    - now apply srt_sorted.
  Qed.

  (** *** The links: [pos_links] against the order-independent characterisation *)
  Definition islink_s (S : list scored) (aid : string) (av : num) (r : scored) : bool :=
    (neqb (snd r) av && negb (String.eqb (sid r) aid))
    || (nltb (snd r) av
        && forallb (fun s => negb (nltb (snd s) av) || nleb (snd s) (snd r)) S).

  Lemma is_link_mk S0 S x r :
    is_link (map (mk S0) S) (mk S0 x) (mk S0 r) = islink_s S (sid x) (snd x) r.
  Proof.
    unfold is_link, islink_s. rewrite forallb_map_comm. reflexivity.
  Qed.

  Lemma links_spec_mk S0 S x :
    links_spec (map (mk S0) S) (mk S0 x) = map sid (filter (islink_s S (sid x) (snd x)) S).
  Proof.
    unfold links_spec. rewrite filter_map_comm, map_map.
    rewrite (filter_ext _ (islink_s S (sid x) (snd x))) by (intros; apply is_link_mk).
    apply map_ext. intros; apply eid_mk.
  Qed.

  Lemma islink_s_pair S aid av r rv :
    islink_s S aid av (r, rv) =
      (neqb rv av && negb (String.eqb (a_id r) aid))
      || (nltb rv av && forallb (fun s => negb (nltb (snd s) av) || nleb (snd s) rv) S).
  Proof. reflexivity. Qed.

  Definition vle (a b : scored) : Prop := nleb (snd b) (snd a) = true.

  Definition inv (av : num) (pre : list scored) (next : option num) (t : list scored) : Prop :=
    match next with
    | None => forall p, In p pre -> nltb (snd p) av = false
    | Some nx =>
        okv nx /\ nltb nx av = true
        /\ (exists p, In p pre /\ neqb (snd p) nx = true)
        /\ (forall p, In p pre -> nltb (snd p) av = true -> neqb (snd p) nx = true)
        /\ (forall s, In s t -> nleb (snd s) nx = true)
    end.

  Lemma pos_links_inv aid av S : okv av -> Forall oks S ->
    forall t pre next, S = pre ++ t -> StronglySorted vle t -> inv av pre next t ->
    pos_links aid av t next = map sid (filter (islink_s S aid av) t).
  Proof.
    intros Hav HS. induction t as [|[r rv] t' IH]; intros pre next ES Hsort Hinv; [reflexivity|].
    assert (ES' : S = (pre ++ [(r, rv)]) ++ t') by (rewrite <- app_assoc; exact ES).
    assert (OKS : forall s, In s S -> okv (snd s)) by (rewrite Forall_forall in HS; exact HS).
    assert (Hrv : okv rv).
    { apply (OKS (r, rv)). rewrite ES. apply in_or_app. right. now left. }
    assert (OKpre : forall p, In p pre -> okv (snd p)).
    { intros p Hp. apply OKS. rewrite ES. apply in_or_app. now left. }
    assert (OKt : forall s, In s t' -> okv (snd s)).
    { intros s Hs. apply OKS. rewrite ES. apply in_or_app. right. now right. }
    destruct (StronglySorted_inv Hsort) as [Hsort' Hall].
    assert (Ht' : forall s, In s t' -> nleb (snd s) rv = true).
    { rewrite Forall_forall in Hall. exact Hall. }
    (* the "nothing strictly between" condition for the current element *)
    assert (HG : (forall p, In p pre -> nltb (snd p) av = true -> nleb (snd p) rv = true) ->
                 forallb (fun s => negb (nltb (snd s) av) || nleb (snd s) rv) S = true).
    { intros Hp. apply forallb_forall. intros s Hs. rewrite ES in Hs.
      apply in_app_or in Hs. destruct Hs as [Hs|[<-|Hs]].
      - destruct (nltb (snd s) av) eqn:E; [|reflexivity]. cbn [negb orb]. now apply Hp.
      - cbn [snd]. rewrite leb_refl by assumption. apply orb_true_r.
      - rewrite (Ht' s Hs). apply orb_true_r. }
    cbn [pos_links].
    destruct (neqb rv av && negb (String.eqb (a_id r) aid)) eqn:EA.
    - (* same value, another alternative *)
      assert (Hl : islink_s S aid av (r, rv) = true) by (rewrite (islink_s_pair S aid av r rv), EA; reflexivity).
      cbn [filter]. rewrite Hl.
      cbn [map]. unfold sid at 1. cbn [fst]. f_equal.
      apply (IH (pre ++ [(r, rv)]) next ES' Hsort').
      apply andb_true_iff in EA as [EA _].
      destruct next as [nx|]; cbn [inv] in *.
      + destruct Hinv as (Hnx & Hlt & (p & Hp & Hpe) & Hlow & Hle). repeat split; auto.
        * exists p. split; [apply in_or_app; now left|exact Hpe].
        * intros q Hq Hql. apply in_app_or in Hq. destruct Hq as [Hq|[<-|[]]]; [now apply Hlow|].
          cbn [snd] in Hql. rewrite (eqb_ltb_l rv av av) in Hql by assumption.
          rewrite ltb_irrefl in Hql by assumption. discriminate.
        * intros s Hs. apply Hle. now right.
      + intros q Hq. apply in_app_or in Hq. destruct Hq as [Hq|[<-|[]]]; [now apply Hinv|].
        cbn [snd]. rewrite (eqb_ltb_l rv av av) by assumption. now apply ltb_irrefl.
    - destruct (nltb rv av) eqn:EB.
      + (* lower value *)
        destruct next as [nx|]; cbn [inv] in Hinv.
        * destruct Hinv as (Hnx & Hlt & (p & Hp & Hpe) & Hlow & Hle).
          destruct (nltb rv nx) eqn:EC.
          -- (* strictly below the next lower value: stop; nothing further is a link *)
             symmetry.
             assert (Hnone : forall s, In s ((r, rv) :: t') -> islink_s S aid av s = false).
             { intros s Hs.
               assert (Hsok : okv (snd s)).
               { apply OKS. rewrite ES. apply in_or_app. now right. }
               assert (Hsle : nleb (snd s) rv = true).
               { destruct Hs as [<-|Hs]; [cbn [snd]; now apply leb_refl|now apply Ht']. }
               assert (Hsnx : nltb (snd s) nx = true).
               { apply (leb_ltb_trans _ rv); assumption. }
               assert (Hsav : nltb (snd s) av = true).
               { apply (ltb_trans _ nx); assumption. }
               unfold islink_s. rewrite (ltb_eqb_false _ _ Hsok Hav Hsav). cbn [andb orb].
               rewrite Hsav. cbn [andb].
               apply not_true_is_false. intros HF. rewrite forallb_forall in HF.
               assert (Hpin : In p S) by (rewrite ES; apply in_or_app; now left).
               specialize (HF p Hpin).
               assert (Hpok : okv (snd p)) by now apply OKpre.
               assert (Hpav : nltb (snd p) av = true).
               { rewrite (eqb_ltb_l (snd p) nx av) by assumption. exact Hlt. }
               rewrite Hpav in HF. cbn [negb orb] in HF.
               (* snd p <= snd s < nx == snd p *)
               assert (C : nltb (snd p) nx = true).
               { apply (leb_ltb_trans _ (snd s)); assumption. }
               rewrite (eqb_ltb_l (snd p) nx nx) in C by assumption.
               rewrite ltb_irrefl in C by assumption. discriminate. }
             exact (f_equal (map sid) (filter_none (islink_s S aid av) _ Hnone)).
          -- (* equal to the next lower value *)
             assert (Ernx : neqb rv nx = true).
             { rewrite eqb_leb by assumption.
               pose proof (Hle (r, rv) (or_introl eq_refl)) as Hrn. cbn [snd] in Hrn.
               rewrite Hrn. cbn [andb].
               rewrite ltb_leb in EC by assumption. now apply negb_false_iff in EC. }
             assert (Hl : islink_s S aid av (r, rv) = true).
             { rewrite (islink_s_pair S aid av r rv), EA, EB, HG; [reflexivity|].
               intros q Hq Hql. specialize (Hlow q Hq Hql).
               assert (okv (snd q)) by now apply OKpre.
               rewrite eqb_sym in Ernx by assumption.
               assert (E : neqb (snd q) rv = true) by (apply (eqb_trans _ nx); assumption).
               rewrite eqb_leb in E by assumption. now apply andb_true_iff in E as [E _]. }
             cbn [filter]. rewrite Hl.
             cbn [map]. unfold sid at 1. cbn [fst]. f_equal.
             apply (IH (pre ++ [(r, rv)]) (Some nx) ES' Hsort').
             cbn [inv]. repeat split; auto.
             ++ exists p. split; [apply in_or_app; now left|exact Hpe].
             ++ intros q Hq Hql. apply in_app_or in Hq. destruct Hq as [Hq|[<-|[]]]; [now apply Hlow|].
                exact Ernx.
             ++ intros s Hs. apply Hle. now right.
        * (* first lower value *)
          cbv zeta. rewrite ltb_irrefl by assumption.
          assert (Hl : islink_s S aid av (r, rv) = true).
          { rewrite (islink_s_pair S aid av r rv), EA, EB, HG; [reflexivity|].
            intros q Hq Hql. rewrite (Hinv q Hq) in Hql. discriminate. }
          cbn [filter]. rewrite Hl.
          cbn [map]. unfold sid at 1. cbn [fst]. f_equal.
          apply (IH (pre ++ [(r, rv)]) (Some rv) ES' Hsort').
          cbn [inv]. repeat split; auto.
          -- exists (r, rv). split; [apply in_or_app; right; now left|]. cbn [snd]. now apply eqb_refl.
          -- intros q Hq Hql. apply in_app_or in Hq. destruct Hq as [Hq|[<-|[]]].
             ++ rewrite (Hinv q Hq) in Hql. discriminate.
             ++ cbn [snd]. now apply eqb_refl.
      + (* not lower: skipped, and not a link *)
        assert (Hl : islink_s S aid av (r, rv) = false) by (rewrite (islink_s_pair S aid av r rv), EA, EB; reflexivity).
        cbn [filter]. rewrite Hl.
        apply (IH (pre ++ [(r, rv)]) next ES' Hsort').
        destruct next as [nx|]; cbn [inv] in *.
        * destruct Hinv as (Hnx & Hlt & (p & Hp & Hpe) & Hlow & Hle). repeat split; auto.
          -- exists p. split; [apply in_or_app; now left|exact Hpe].
          -- intros q Hq Hql. apply in_app_or in Hq. destruct Hq as [Hq|[<-|[]]]; [now apply Hlow|].
             cbn [snd] in Hql. congruence.
          -- intros s Hs. apply Hle. now right.
        * intros q Hq. apply in_app_or in Hq. destruct Hq as [Hq|[<-|[]]]; [now apply Hinv|].
          exact EB.
  Qed.

  Lemma pos_links_spec l x : okl l -> In x (srt l) ->
    pos_links (sid x) (snd x) (srt l) None = map sid (filter (islink_s (srt l) (sid x) (snd x)) (srt l)).
  Proof.
    intros Hok Hx.
    pose proof (srt_oks l Hok) as HS.
    assert (OKS : forall s, In s (srt l) -> okv (snd s)) by (rewrite Forall_forall in HS; exact HS).
    apply (pos_links_inv (sid x) (snd x) (srt l) (OKS x Hx) HS (srt l) [] None).
    - reflexivity.
    - apply (StronglySorted_weaken rle); [|now apply srt_sorted].
      intros a b Ia Ib. apply rle_vle; now apply OKS.
    - intros p [].
  Qed.

  Theorem ranking_links_exact : forall l e, okl l -> NoDup (ids l) -> In e (ranking l) ->
    e_links e = links_spec (ranking l) e.
  Proof.
    intros l e Hok _ He. rewrite ranking_eq in *.
    apply in_map_iff in He as (x & <- & Hx).
    rewrite links_spec_mk. cbn [mk e_links]. now apply pos_links_spec.
  Qed.

  Theorem ranking_C04_ok : forall l, okl l -> NoDup (ids l) -> C04_ok (ranking l) = true.
  Proof.
    intros l Hok ND. unfold C04_ok. rewrite ranking_sorted by assumption.
    rewrite andb_true_r. apply andb_true_iff; split.
    - apply forallb_forall. intros e He. rewrite ranking_eq in He.
      apply in_map_iff in He as (x & <- & _). reflexivity.
    - apply forallb_forall. intros e He.
      rewrite (ranking_links_exact l e Hok ND He). apply list_eqb_refl.
  Qed.

  Theorem ranking_perm_invariant : forall l l', okl l -> NoDup (ids l) -> Permutation l l' ->
    ranking l = ranking l'.
  Proof.
    intros l l' Hok ND P.
    assert (Hok' : okl l') by (unfold okl; eapply Permutation_Forall; eassumption).
    assert (E : srt l = srt l').
    { apply (sorted_perm_unique rank_lt).
      - intros a b Ia Ib H1 H2.
        pose proof (srt_oks l Hok) as HS. rewrite Forall_forall in HS.
        apply (NoDup_map_inj sid (srt l)); auto.
        + now apply srt_nodup.
        + apply rle_antisym; auto.
      - now apply srt_sorted.
      - now apply srt_sorted.
      - unfold srt. rewrite !isort_perm. unfold rounded. now apply Permutation_map. }
    rewrite !ranking_eq. now rewrite E.
  Qed.

  Theorem C04_ok_sound : forall obs, C04_ok obs = true ->
    (forall e, In e obs -> exists v, e_eval e = EValue v)
    /\ sorted_by before obs = true
    /\ (forall e, In e obs -> e_links e = links_spec obs e).
  Proof.
    intros obs H. unfold C04_ok in H.
    apply andb_true_iff in H as [H H3]. apply andb_true_iff in H as [H1 H2].
    rewrite forallb_forall in H1, H3. repeat split.
    - intros e He. specialize (H1 e He). unfold ev_value in H1.
      destruct (e_eval e) as [v| | | |]; try discriminate. now exists v.
    - exact H2.
    - intros e He. apply list_eqb_eq. now apply H3.
  Qed.
  (** *** Reachability along links = not higher in value *)
  Definition link_step (obs : list entry) (a b : entry) : Prop :=
    In a obs /\ In b obs /\ In (eid b) (e_links a).

  Lemma max_exists (l : list entry) : (forall s, In s l -> okv (val s)) -> l <> [] ->
    exists m, In m l /\ forall s, In s l -> nleb (val s) (val m) = true.
  Proof.
    induction l as [|x r IH]; intros Hok Hne; [congruence|].
    destruct r as [|y r'].
    - exists x. split; [now left|]. intros s [<-|[]]. apply leb_refl. apply Hok. now left.
    - destruct IH as (m & Hm & Hmax); [intros s Hs; apply Hok; now right|discriminate|].
      assert (Hx : okv (val x)) by (apply Hok; now left).
      assert (Hmo : okv (val m)) by (apply Hok; now right).
      destruct (leb_total (val x) (val m) Hx Hmo) as [T|T].
      + exists m. split; [now right|]. intros s [<-|Hs]; [exact T|now apply Hmax].
      + exists x. split; [now left|]. intros s [<-|Hs]; [now apply leb_refl|].
        apply (leb_trans _ (val m)); auto. apply Hok. now right.
  Qed.

  Section Reach.
    Variable l : list scored.
    Hypothesis Hok : okl l.
    Hypothesis ND : NoDup (ids l).
    Let obs := ranking l.

    Lemma obs_okv e : In e obs -> okv (val e).
    Proof.
      unfold obs. rewrite ranking_eq. intros He. apply in_map_iff in He as (x & <- & Hx).
      rewrite val_mk. pose proof (srt_oks l Hok) as HS. rewrite Forall_forall in HS. now apply HS.
    Qed.

    Lemma obs_eid_inj a b : In a obs -> In b obs -> eid a = eid b -> a = b.
    Proof.
      apply (NoDup_map_inj eid obs).
      eapply Permutation_NoDup; [symmetry; apply ranking_ids_perm|exact ND].
    Qed.

    Lemma obs_link_iff a b : In a obs -> In b obs ->
      (In (eid b) (e_links a) <-> is_link obs a b = true).
    Proof.
      intros Ha Hb. unfold obs in *. rewrite (ranking_links_exact l a Hok ND Ha). unfold links_spec.
      split.
      - intros H. apply in_map_iff in H as (r & Er & Hr). apply filter_In in Hr as [Hr Hl].
        assert (r = b) by (apply obs_eid_inj; assumption). now subst.
      - intros H. apply in_map. apply filter_In. now split.
    Qed.

    Lemma is_link_leb a b : In a obs -> In b obs -> is_link obs a b = true ->
      nleb (val b) (val a) = true.
    Proof.
      intros Ha Hb H. pose proof (obs_okv a Ha) as Oa. pose proof (obs_okv b Hb) as Ob.
      unfold is_link in H. apply orb_true_iff in H as [H|H]; apply andb_true_iff in H as [H _].
      - rewrite eqb_leb in H by assumption. now apply andb_true_iff in H as [H _].
      - now apply ltb_leb_incl.
    Qed.

    Lemma reach_leb e x : clos_refl_trans entry (link_step obs) e x -> In e obs ->
      In x obs /\ nleb (val x) (val e) = true.
    Proof.
      induction 1 as [a b (Ha & Hb & Hl)|a|a b c _ IH1 _ IH2]; intros He.
      - split; [exact Hb|]. apply is_link_leb; auto. now apply obs_link_iff.
      - split; [exact He|]. apply leb_refl. now apply obs_okv.
      - destruct (IH1 He) as [Hb L1]. destruct (IH2 Hb) as [Hc L2]. split; [exact Hc|].
        apply (leb_trans _ (val b)); auto using obs_okv.
    Qed.

    Lemma leb_reach n : forall e, In e obs ->
      List.length (filter (fun s => nltb (val s) (val e)) obs) <= n ->
      forall x, In x obs -> nleb (val x) (val e) = true ->
      clos_refl_trans entry (link_step obs) e x.
    Proof.
      induction n as [|n IH]; intros e He Hn x Hx Hle;
        pose proof (obs_okv e He) as Oe; pose proof (obs_okv x Hx) as Ox.
      - (* nothing is lower than e *)
        destruct (nltb (val x) (val e)) eqn:E.
        + exfalso. assert (Hin : In x (filter (fun s => nltb (val s) (val e)) obs))
            by (apply filter_In; now split).
          destruct (filter (fun s => nltb (val s) (val e)) obs); [contradiction|cbn [List.length] in Hn; lia].
        + destruct (String.eqb (eid x) (eid e)) eqn:Ei.
          * apply String.eqb_eq in Ei. assert (x = e) by now apply obs_eid_inj. subst. apply rt_refl.
          * apply rt_step. repeat split; auto. apply obs_link_iff; auto.
            unfold is_link. rewrite Ei. rewrite eqb_leb by assumption. rewrite Hle.
            rewrite ltb_leb in E by assumption. apply negb_false_iff in E. rewrite E. reflexivity.
      - destruct (nltb (val x) (val e)) eqn:E.
        + set (low := filter (fun s => nltb (val s) (val e)) obs) in *.
          assert (Hxl : In x low) by (apply filter_In; now split).
          destruct (max_exists low) as (m & Hm & Hmax).
          { intros s Hs. apply filter_In in Hs as [Hs _]. now apply obs_okv. }
          { intros C. rewrite C in Hxl. contradiction. }
          apply filter_In in Hm as [Hm Hml]. pose proof (obs_okv m Hm) as Om.
          apply (rt_trans _ _ _ m).
          * apply rt_step. repeat split; auto. apply obs_link_iff; auto.
            unfold is_link. rewrite Hml. cbn [andb]. apply orb_true_iff. right.
            apply forallb_forall. intros s Hs. destruct (nltb (val s) (val e)) eqn:Es; [|reflexivity].
            cbn [negb orb]. apply Hmax. apply filter_In. now split.
          * apply IH; auto.
            -- assert (List.length (filter (fun s => nltb (val s) (val m)) obs) < List.length low); [|lia].
               apply (filter_length_lt _ _ obs m); auto.
               ++ intros s Hs Hsl. apply (ltb_trans _ (val m)); auto using obs_okv.
               ++ now apply ltb_irrefl.
        + destruct (String.eqb (eid x) (eid e)) eqn:Ei.
          * apply String.eqb_eq in Ei. assert (x = e) by now apply obs_eid_inj. subst. apply rt_refl.
          * apply rt_step. repeat split; auto. apply obs_link_iff; auto.
            unfold is_link. rewrite Ei. rewrite eqb_leb by assumption. rewrite Hle.
            rewrite ltb_leb in E by assumption. apply negb_false_iff in E. rewrite E. reflexivity.
    Qed.
  End Reach.

  Theorem links_reach : forall l e x, okl l -> NoDup (ids l) -> In e (ranking l) -> In x (ranking l) ->
    (clos_refl_trans entry
       (fun a b => In a (ranking l) /\ In b (ranking l) /\ In (eid b) (e_links a)) e x
     <-> nleb (val x) (val e) = true).
  Proof.
    intros l e x Hok ND He Hx. split.
    - intros H. now apply (reach_leb l Hok ND e x H).
    - intros H. apply (leb_reach l Hok ND _ e He (le_n _) x Hx H).
  Qed.
End RankFacts.


Print Assumptions ranking_C04_ok.
Print Assumptions ranking_perm_invariant.
Print Assumptions ranking_links_exact.
Print Assumptions links_reach.
