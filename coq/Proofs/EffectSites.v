(** * Which of the writes found in the source (Gen/Effects.v, regenerated on every run) are allowed:
    only writes through receivers of *per-request* objects. A write rooted at a package-level
    variable, or through the receiver of a type that is not listed here (in particular the types
    registered once in httpClient/main.go: methods, listeners, biases, level sources, resolvers,
    reference-criterion factories), makes the obligation of Properties/C10.v fail. *)
From Coq Require Import List String Bool.
From RDM Require Import Gen.Effects.
Import ListNotations.
Local Open Scope string_scope.

(* per-request types: created by BlankParams() / inside one call, or local slice types *)
Definition per_request_types : list string := [
  "IdealCoefficientSatisfactionLevels";      (* made by IdealCoefficientSatisfactionLevelsSource.BlankParams *)
  "ThresholdSatisfactionLevels";             (* made by ThresholdSatisfactionLevelsSource.BlankParams *)
  "additionalCriterionAnchoringState";       (* local to NewCriterionAnchoringApplier.ApplyAnchoring *)
  "criteriaWeights";                         (* sort.Interface on a local slice *)
  "AlternativeResults";                      (* sort.Interface on a local slice *)
  "AlternativesRanking"                      (* ReverseOrder on a local result *)
].

Fixpoint mem (x : string) (l : list string) : bool :=
  match l with [] => false | y :: r => String.eqb x y || mem x r end.

Definition write_allowed (w : string * string * string) : bool :=
  let '(kind, root, _) := w in
  String.eqb kind "receiver" && mem root per_request_types.

(* a factory must return a fresh allocation, or a field-less singleton *)
Definition factory_ok (f : string * string) : bool :=
  String.eqb (snd f) "fresh" || String.eqb (snd f) "receiver(fields=0)".

Definition effects_ok : bool :=
  forallb write_allowed shared_writes && forallb factory_ok factories
  && match go_statements with [] => true | _ => false end.
