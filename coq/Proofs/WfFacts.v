(** * C01: every ranking builder of the model produces a complete, well-formed ranking. *)
From Coq Require Import ZArith Bool List String Permutation Sorted Lia.
From RDM Require Import Base.Num Base.NumQc Base.Util Model.Data Model.Rank Model.Utility Model.Levels Model.Heuristics
  Model.Electre Model.Pipeline Proofs.SortFacts Proofs.RankFacts Check.C04 Check.C01.
Import ListNotations.
Local Open Scope string_scope.
Local Open Scope list_scope.

(** ** Reflection of the boolean list predicates on strings *)
Lemma mem_str_In x l : mem_str x l = true <-> In x l.
Proof.
  induction l as [|y r IH]; cbn [mem_str In].
  - split; [discriminate|contradiction].
  - rewrite orb_true_iff, IH, String.eqb_eq. split; intros [H|H]; auto.
Qed.

Lemma mem_str_false x l : mem_str x l = false <-> ~ In x l.
Proof.
  rewrite <- mem_str_In. destruct (mem_str x l); split; congruence.
Qed.

Lemma nodup_str_NoDup l : nodup_str l = true <-> NoDup l.
Proof.
  induction l as [|x r IH]; cbn [nodup_str].
  - split; [constructor|reflexivity].
  - rewrite andb_true_iff, negb_true_iff, mem_str_false, IH. split.
    + intros [A B]. now constructor.
    + intros H. inversion H; subst. now split.
Qed.

Lemma forallb_mem_incl l ids : forallb (fun x => mem_str x ids) l = true <-> incl l ids.
Proof.
  rewrite forallb_forall. unfold incl. split; intros H x Hx.
  - apply mem_str_In. now apply H.
  - apply mem_str_In. now apply H.
Qed.

(** ** Generic list facts *)
Lemma NoDup_app_l {A} (l1 l2 : list A) : NoDup (l1 ++ l2) -> NoDup l1.
Proof.
  induction l1 as [|x r IH]; cbn [app]; intros H; [constructor|].
  inversion H as [|? ? Hn Hr]; subst. constructor; [|now apply IH].
  intros Hx. apply Hn. apply in_or_app. now left.
Qed.

Lemma NoDup_app_r {A} (l1 l2 : list A) : NoDup (l1 ++ l2) -> NoDup l2.
Proof.
  induction l1 as [|x r IH]; cbn [app]; intros H; [exact H|].
  inversion H; subst. now apply IH.
Qed.

Lemma NoDup_map_filter {A B} (f : A -> B) (p : A -> bool) l :
  NoDup (map f l) -> NoDup (map f (filter p l)).
Proof.
  induction l as [|x r IH]; cbn [map filter]; intros H; [constructor|].
  inversion H as [|? ? Hn Hr]; subst.
  destruct (p x); cbn [map]; [|now apply IH].
  constructor; [|now apply IH].
  intros Hx. apply Hn. apply in_map_iff in Hx as (y & E & Hy).
  apply filter_In in Hy as [Hy _]. apply in_map_iff. now exists y.
Qed.

Section Wf.
  Context {N : Num}.

  Definition wf_entry (ids : list string) (e : entry) : Prop :=
    incl (e_links e) ids /\ ~ In (eid e) (e_links e) /\ NoDup (e_links e).

  Lemma wf_links_iff ids e : wf_links ids e = true <-> wf_entry ids e.
  Proof.
    unfold wf_links, wf_entry.
    rewrite !andb_true_iff, negb_true_iff, mem_str_false, nodup_str_NoDup, forallb_mem_incl.
    tauto.
  Qed.

  Lemma C01_ok_iff expected obs :
    C01_ok expected obs = true <->
    List.length (map eid obs) = List.length expected /\ incl expected (map eid obs) /\
    NoDup (map eid obs) /\ forall e, In e obs -> wf_entry (map eid obs) e.
  Proof.
    unfold C01_ok. cbv zeta.
    rewrite !andb_true_iff, Nat.eqb_eq, forallb_mem_incl, nodup_str_NoDup, forallb_forall.
    split.
    - intros [[[A B] C] D]. split; [exact A|]. split; [exact B|]. split; [exact C|].
      intros e He. apply wf_links_iff. now apply D.
    - intros (A & B & C & D). split; [split; [split|]|]; auto.
      intros e He. apply wf_links_iff. now apply D.
  Qed.

  Theorem C01_ok_complete : forall expected obs,
    NoDup expected -> Permutation (map eid obs) expected ->
    (forall e, In e obs -> incl (e_links e) (map eid obs) /\ ~ In (eid e) (e_links e) /\ NoDup (e_links e)) ->
    C01_ok expected obs = true.
  Proof.
    intros expected obs ND P W. apply C01_ok_iff.
    split; [|split; [|split]].
    - now apply Permutation_length.
    - intros x Hx. eapply Permutation_in; [symmetry; exact P|exact Hx].
    - eapply Permutation_NoDup; [symmetry; exact P|exact ND].
    - exact W.
  Qed.

  Theorem C01_ok_sound : forall expected obs,
    NoDup expected -> C01_ok expected obs = true ->
    Permutation (map eid obs) expected /\
    forall e, In e obs -> incl (e_links e) (map eid obs) /\ ~ In (eid e) (e_links e) /\ NoDup (e_links e).
  Proof.
    intros expected obs ND H. apply C01_ok_iff in H as (A & B & C & D). split; [|exact D].
    symmetry. apply NoDup_Permutation_bis; [exact ND| |exact B]. rewrite A. apply le_n.
  Qed.

  Lemma C01_ok_perm expected expected' obs :
    NoDup expected -> Permutation expected expected' ->
    C01_ok expected obs = true -> C01_ok expected' obs = true.
  Proof.
    intros ND P H. apply C01_ok_sound in H as [P1 W]; [|exact ND].
    apply C01_ok_complete; [|now rewrite P1|exact W].
    eapply Permutation_NoDup; eassumption.
  Qed.
End Wf.

(** ** [ranking] *)
Section RankingWf.
  Context {N : Num} {L : OrdLaws N}.

  Lemma islink_s_self S x : oks x -> islink_s S (sid x) (snd x) x = false.
  Proof.
    intros Hx. unfold islink_s. rewrite String.eqb_refl, andb_false_r. cbn [orb].
    rewrite ltb_irrefl by exact Hx. reflexivity.
  Qed.

  Theorem ranking_wf : forall l, okl l -> NoDup (ids l) -> C01_ok (ids l) (ranking l) = true.
  Proof.
    intros l Hok ND. apply C01_ok_complete; [exact ND|apply ranking_ids_perm|].
    intros e He.
    pose proof (srt_nodup l ND) as NDS.
    pose proof (srt_oks l Hok) as OKS. rewrite Forall_forall in OKS.
    rewrite ranking_eq in *. apply in_map_iff in He as (x & <- & Hx).
    rewrite map_map. rewrite (map_ext _ sid) by (intros; apply eid_mk).
    rewrite eid_mk.
    change (e_links (mk (srt l) x)) with (pos_links (sid x) (snd x) (srt l) None).
    rewrite pos_links_spec by assumption.
    repeat split.
    - intros y Hy. apply in_map_iff in Hy as (r & <- & Hr). apply filter_In in Hr as [Hr _].
      now apply in_map.
    - intros Hy. apply in_map_iff in Hy as (r & E & Hr). apply filter_In in Hr as [Hr Hl].
      assert (r = x) as -> by (eapply NoDup_map_inj; eassumption).
      rewrite islink_s_self in Hl by now apply OKS. discriminate.
    - now apply NoDup_map_filter.
  Qed.
End RankingWf.

(** ** Generic facts on [zip], [nth_opt], [replace_nth] *)
Lemma zip_length {A B} : forall (l1 : list A) (l2 : list B),
  List.length (zip l1 l2) = Nat.min (List.length l1) (List.length l2).
Proof.
  induction l1 as [|x r IH]; intros [|y s]; cbn [zip List.length Nat.min]; auto.
Qed.

Lemma map_snd_zip {A B C} (f : B -> C) : forall (l1 : list A) (l2 : list B),
  List.length l2 <= List.length l1 -> map (fun p => f (snd p)) (zip l1 l2) = map f l2.
Proof.
  induction l1 as [|x r IH]; intros [|y s] H; cbn [zip map snd List.length] in *; auto; [lia|].
  f_equal. apply IH. lia.
Qed.

Lemma map_fst_zip {A B C} (f : A -> C) : forall (l1 : list A) (l2 : list B),
  List.length l1 <= List.length l2 -> map (fun p => f (fst p)) (zip l1 l2) = map f l1.
Proof.
  induction l1 as [|x r IH]; intros [|y s] H; cbn [zip map fst List.length] in *; auto; [lia|].
  f_equal. apply IH. lia.
Qed.

Lemma replace_nth_perm {A} (x y : A) : forall l j,
  nth_opt j l = Some y -> Permutation (y :: replace_nth j x l) (x :: l).
Proof.
  induction l as [|z r IH]; intros [|j] H; cbn [nth_opt replace_nth] in *; try discriminate.
  - injection H as ->. apply perm_swap.
  - rewrite perm_swap. rewrite (IH j H). apply perm_swap.
Qed.

Lemma swap_perm {A} : forall (l : list A) i j xi xj,
  nth_opt i l = Some xi -> nth_opt j l = Some xj ->
  Permutation (replace_nth j xi (replace_nth i xj l)) l.
Proof.
  induction l as [|z r IH]; intros [|i] [|j] xi xj Hi Hj; cbn [nth_opt replace_nth] in *; try discriminate.
  - injection Hi as ->. injection Hj as ->. reflexivity.
  - injection Hi as ->. now apply replace_nth_perm.
  - injection Hj as ->. now apply replace_nth_perm.
  - constructor. now apply (IH i j).
Qed.

Section Builders.
  Context {N : Num}.
  Notation mids l := (map (fun x : alt * evaluation => a_id (fst x)) l).

  (** *** sequential_ranking *)
  Lemma sequential_ids l : map eid (sequential_ranking l) = mids l.
  Proof.
    induction l as [|[a ev] r IH]; cbn [sequential_ranking map fst]; [reflexivity|]. now rewrite IH.
  Qed.

  Lemma sequential_links l : NoDup (mids l) -> forall e, In e (sequential_ranking l) ->
    e_links e = [] \/ exists x, e_links e = [x] /\ In x (mids l) /\ x <> eid e.
  Proof.
    induction l as [|[a ev] r IH]; cbn [sequential_ranking map fst]; intros ND e He; [contradiction|].
    inversion ND as [|? ? Hn ND']; subst.
    destruct He as [<-|He].
    - unfold eid. cbn [e_links e_alt]. destruct r as [|[b ev'] r']; [now left|]. right. exists (a_id b).
      split; [reflexivity|]. split; [right; now left|]. intros E. apply Hn. rewrite <- E. now left.
    - destruct (IH ND' e He) as [H|(x & H1 & H2 & H3)]; [now left|]. right. exists x.
      split; [exact H1|]. split; [now right|exact H3].
  Qed.

  Theorem sequential_ranking_wf : forall l, NoDup (map (fun x => a_id (fst x)) l) ->
    C01_ok (map (fun x => a_id (fst x)) l) (sequential_ranking l) = true.
  Proof.
    intros l ND. apply C01_ok_complete; [exact ND|rewrite sequential_ids; reflexivity|].
    intros e He. rewrite sequential_ids.
    destruct (sequential_links l ND e He) as [H|(x & H1 & H2 & H3)]; rewrite H || rewrite H1.
    - split; [intros y []|]. split; [intros []|constructor].
    - split; [intros y [<-|[]]; exact H2|]. split; [intros [E|[]]; now apply H3|].
      constructor; [intros []|constructor].
  Qed.

  (** *** prepare_ranking *)
  Lemma group_entries_ids prev : forall after before, map eid (group_entries prev before after) = mids after.
  Proof.
    induction after as [|[a ev] r IH]; intros before; cbn [group_entries map fst]; [reflexivity|].
    now rewrite IH.
  Qed.

  Lemma prepare_groups_ids : forall groups prev, map eid (prepare_groups prev groups) = mids (List.concat groups).
  Proof.
    induction groups as [|gr r IH]; intros prev; cbn [prepare_groups List.concat map]; [reflexivity|].
    now rewrite !map_app, group_entries_ids, IH.
  Qed.

  Lemma group_entries_wf all prev : forall after before,
    NoDup (prev ++ mids (before ++ after)) -> incl (prev ++ mids (before ++ after)) all ->
    forall e, In e (group_entries prev before after) -> wf_entry all e.
  Proof.
    induction after as [|[a ev] r IH]; intros before ND I e He; cbn [group_entries] in He; [contradiction|].
    destruct He as [<-|He].
    - unfold wf_entry, eid. cbn [e_links e_alt].
      rewrite map_app in ND, I. cbn [map fst] in ND, I.
      rewrite app_assoc in ND, I.
      pose proof (NoDup_remove _ _ _ ND) as [ND1 Hn]. rewrite <- app_assoc in ND1, Hn.
      split; [|split; assumption].
      intros x Hx. apply I. rewrite app_assoc in Hx. apply in_app_or in Hx as [Hx|Hx]; apply in_or_app;
        [left|right; right]; exact Hx.
    - apply (IH (before ++ [(a, ev)])); [| |exact He]; rewrite <- app_assoc; assumption.
  Qed.

  Lemma prepare_groups_wf all : forall groups prev,
    NoDup (prev ++ mids (List.concat groups)) -> incl (prev ++ mids (List.concat groups)) all ->
    forall e, In e (prepare_groups prev groups) -> wf_entry all e.
  Proof.
    induction groups as [|gr r IH]; intros prev ND I e He; cbn [prepare_groups] in He; [contradiction|].
    cbn [List.concat] in ND, I. rewrite map_app in ND, I. apply in_app_or in He as [He|He].
    - apply (group_entries_wf all prev gr []); cbn [app]; [| |exact He].
      + rewrite app_assoc in ND. now apply NoDup_app_l in ND.
      + intros x Hx. apply I. rewrite app_assoc. apply in_or_app. now left.
    - apply (IH (mids gr)); [| |exact He].
      + now apply NoDup_app_r in ND.
      + intros x Hx. apply I. apply in_or_app. now right.
  Qed.

  Theorem prepare_ranking_wf : forall groups, NoDup (map (fun x => a_id (fst x)) (List.concat groups)) ->
    C01_ok (map (fun x => a_id (fst x)) (List.concat groups)) (prepare_ranking groups) = true.
  Proof.
    intros groups ND. unfold prepare_ranking. apply C01_ok_complete; [exact ND| |].
    - rewrite map_rev, prepare_groups_ids. symmetry. apply Permutation_rev.
    - intros e He. apply in_rev in He.
      apply (prepare_groups_wf (map eid (rev (prepare_groups [] groups))) groups []); cbn [app];
        [exact ND| |exact He].
      intros x Hx. rewrite map_rev, prepare_groups_ids. apply -> in_rev. exact Hx.
  Qed.

  (** *** evaluate_ranking *)
  Definition er_rows (asc desc : list Z) (alts : list alt) : list (nat * (alt * (Z * Z))) :=
    zip (seq 0 (List.length alts)) (zip alts (zip asc desc)).
  Definition er_id (r : nat * (alt * (Z * Z))) : string := a_id (fst (snd r)).

  Lemma er_rows_ids asc desc alts :
    List.length asc = List.length alts -> List.length desc = List.length alts ->
    map er_id (er_rows asc desc alts) = map a_id alts.
  Proof.
    intros Ha Hd. unfold er_rows, er_id.
    rewrite (map_snd_zip (fun q : alt * (Z * Z) => a_id (fst q))).
    - apply (map_fst_zip a_id). rewrite zip_length. lia.
    - rewrite !zip_length, seq_length. lia.
  Qed.

  Lemma evaluate_ranking_ids asc desc alts :
    map eid (evaluate_ranking asc desc alts) = map er_id (er_rows asc desc alts).
  Proof.
    unfold evaluate_ranking. cbv zeta. fold (er_rows asc desc alts). rewrite map_map.
    apply map_ext. intros [ia [a [a1 d1]]]. reflexivity.
  Qed.

  Theorem evaluate_ranking_wf : forall asc desc alts, NoDup (map a_id alts) ->
    List.length asc = List.length alts -> List.length desc = List.length alts ->
    C01_ok (map a_id alts) (evaluate_ranking asc desc alts) = true.
  Proof.
    intros asc desc alts ND Ha Hd.
    pose proof (er_rows_ids asc desc alts Ha Hd) as RI.
    apply C01_ok_complete; [exact ND|rewrite evaluate_ranking_ids, RI; reflexivity|].
    intros e He. rewrite evaluate_ranking_ids.
    rewrite <- RI in ND.
    unfold evaluate_ranking in He. cbv zeta in He. fold (er_rows asc desc alts) in He.
    apply in_map_iff in He as ([ia [a [a1 d1]]] & <- & Hr).
    unfold eid. cbn [e_links e_alt]. fold er_id.
    change (fun r2 : nat * (alt * (Z * Z)) => a_id (fst (snd r2))) with er_id.
    split; [|split].
    - intros y Hy. apply in_map_iff in Hy as (r2 & <- & H2). apply filter_In in H2 as [H2 _].
      now apply in_map.
    - intros Hy. apply in_map_iff in Hy as (r2 & E & H2). apply filter_In in H2 as [H2 P].
      assert (r2 = (ia, (a, (a1, d1)))) as -> by (eapply NoDup_map_inj; eassumption).
      rewrite Nat.eqb_refl in P. discriminate.
    - now apply NoDup_map_filter.
  Qed.

  (** *** shuffle and search_order *)
  Lemma shuffle_from_perm {A} : forall i (l : list A) g l' g',
    shuffle_from i l g = Ok (l', g') -> Permutation l' l.
  Proof.
    induction i as [|i IH]; intros l g l' g' H; cbn [shuffle_from] in H.
    - injection H as -> _. reflexivity.
    - destruct (draw g) as [dg|] eqn:D; cbn [bind] in H; [|discriminate].
      destruct (nth_opt (S i) l) as [xi|] eqn:Ei; [|discriminate].
      match type of H with context [nth_opt ?j l] => destruct (nth_opt j l) as [xj|] eqn:Ej end; [|discriminate].
      apply IH in H. rewrite H. eapply swap_perm; eassumption.
  Qed.

  Theorem shuffle_perm : forall {A} (l : list A) g l' g', shuffle l g = Ok (l', g') -> Permutation l' l.
  Proof. intros A l g l' g'. apply shuffle_from_perm. Qed.

  Lemma order_alternatives_perm rnd l g l' g' :
    order_alternatives rnd l g = Ok (l', g') -> Permutation l' l.
  Proof.
    unfold order_alternatives. destruct rnd; [apply shuffle_perm|].
    intros H. injection H as -> _. reflexivity.
  Qed.

  Lemma fetch_alt'_id l id a : fetch_alt' l id = Ok a -> a_id a = id.
  Proof.
    induction l as [|b r IH]; cbn [fetch_alt']; [discriminate|].
    destruct (String.eqb (a_id b) id) eqn:E; [|exact IH].
    intros H. injection H as <-. now apply String.eqb_eq.
  Qed.

  Lemma remove_alt_perm l id : In id (map a_id l) ->
    Permutation (id :: map a_id (remove_alt l id)) (map a_id l).
  Proof.
    induction l as [|b r IH]; cbn [map remove_alt]; intros H; [contradiction|].
    destruct (String.eqb (a_id b) id) eqn:E.
    - apply String.eqb_eq in E. now rewrite E.
    - apply String.eqb_neq in E. destruct H as [H|H]; [contradiction|].
      cbn [map]. rewrite perm_swap. constructor. now apply IH.
  Qed.

  Lemma remove_alt_notin l id : ~ In id (map a_id l) -> remove_alt l id = l.
  Proof.
    induction l as [|b r IH]; cbn [map remove_alt]; intros H; [reflexivity|].
    destruct (String.eqb (a_id b) id) eqn:E.
    - apply String.eqb_eq in E. exfalso. apply H. now left.
    - f_equal. apply IH. intros Hr. apply H. now right.
  Qed.

  Definition cur_ids (cur : string) (l : list string) : list string :=
    if negb (String.eqb cur "") && negb (mem_str cur l) then cur :: l else l.

  Theorem search_order_ids : forall s cur rnd g c rest g',
    search_order s cur rnd g = Ok (c, rest, g') -> NoDup (map a_id (st_cons s)) ->
    Permutation (map a_id (c :: rest))
      (if negb (String.eqb cur "") && negb (mem_str cur (map a_id (st_cons s)))
       then cur :: map a_id (st_cons s) else map a_id (st_cons s)).
  Proof.
    intros s cur rnd g c rest g' H _. unfold search_order in H.
    destruct (negb (String.eqb cur "")) eqn:Ec; cbn [andb].
    - destruct (fetch_alt' (all_alts s) cur) as [choice|] eqn:F; cbn [bind] in H; [|discriminate].
      apply fetch_alt'_id in F.
      destruct (order_alternatives rnd (remove_alt (st_cons s) (a_id choice)) g) as [[l1 g1]|] eqn:O;
        cbn [bind fst snd] in H; [|discriminate].
      injection H as -> -> _. apply order_alternatives_perm in O. rewrite F in *.
      cbn [map]. rewrite F, O.
      destruct (mem_str cur (map a_id (st_cons s))) eqn:M; cbn [negb].
      + apply remove_alt_perm. now apply mem_str_In.
      + rewrite remove_alt_notin; [reflexivity|]. now apply mem_str_false.
    - destruct (order_alternatives rnd (st_cons s) g) as [[l1 g1]|] eqn:O; cbn [bind fst snd] in H; [|discriminate].
      destruct l1 as [|x r]; [discriminate|]. injection H as -> -> _.
      apply order_alternatives_perm in O. now rewrite O.
  Qed.

  Lemma cur_ids_nodup cur l : NoDup l -> NoDup (cur_ids cur l).
  Proof.
    intros ND. unfold cur_ids. destruct (negb (String.eqb cur "")); cbn [andb]; [|exact ND].
    destruct (mem_str cur l) eqn:M; cbn [negb]; [exact ND|].
    constructor; [now apply mem_str_false|exact ND].
  Qed.
End Builders.

(** ** Generic facts on [mapM] and on folds over results *)
Lemma mapM_length {A B} (f : A -> res B) : forall l l', mapM f l = Ok l' -> List.length l' = List.length l.
Proof.
  induction l as [|x r IH]; intros l' H; cbn [mapM] in H.
  - injection H as <-. reflexivity.
  - destruct (f x) as [y|]; cbn [bind] in H; [|discriminate].
    destruct (mapM f r) as [ys|]; cbn [bind] in H; [|discriminate].
    injection H as <-. cbn [List.length]. f_equal. now apply IH.
Qed.

Lemma mapM_Forall2 {A B} (f : A -> res B) : forall l l', mapM f l = Ok l' -> Forall2 (fun x y => f x = Ok y) l l'.
Proof.
  induction l as [|x r IH]; intros l' H; cbn [mapM] in H.
  - injection H as <-. constructor.
  - destruct (f x) as [y|] eqn:E; cbn [bind] in H; [|discriminate].
    destruct (mapM f r) as [ys|]; cbn [bind] in H; [|discriminate].
    injection H as <-. constructor; [exact E|now apply IH].
Qed.

Lemma fold_res_err {S B} (step : S -> B -> res S) l e :
  fold_left (fun acc x => do s <- acc; step s x) l (Err e) = Err e.
Proof. induction l as [|x r IH]; cbn [fold_left bind]; [reflexivity|exact IH]. Qed.

Lemma fold_res_ind {S B} (step : S -> B -> res S) (I : S -> list B -> Prop) :
  (forall s x s' done, I s done -> step s x = Ok s' -> I s' (done ++ [x])) ->
  forall l s0 done fin, I s0 done ->
    fold_left (fun acc x => do s <- acc; step s x) l (Ok s0) = Ok fin -> I fin (done ++ l).
Proof.
  intros Hstep. induction l as [|x r IH]; intros s0 done fin H0 H; cbn [fold_left bind] in H.
  - injection H as <-. now rewrite app_nil_r.
  - destruct (step s0 x) as [s1|e] eqn:E.
    + change (done ++ x :: r) with (done ++ [x] ++ r). rewrite app_assoc.
      apply (IH s1); [|exact H]. now apply (Hstep s0).
    + rewrite fold_res_err in H. discriminate.
Qed.

Lemma perm_mid {A} (a : A) l1 l2 l : Permutation (l1 ++ l2) l -> Permutation (l1 ++ a :: l2) (a :: l).
Proof. intros H. symmetry. apply Permutation_cons_app. now symmetry. Qed.

Section Methods.
  Context {N : Num}.
  Notation mids l := (map (fun x : alt * evaluation => a_id (fst x)) l).

  (** *** majority *)
  Definition ms_ids (st : mstate) : list string :=
    mids (List.concat (ms_worse st)) ++ mids (ms_same st) ++ [a_id (ms_current st)].

  Lemma resolve_ids r s1 s2 st another :
    Permutation (ms_ids (resolve r s1 s2 st another)) (a_id another :: ms_ids st).
  Proof.
    unfold ms_ids. destruct r; cbn [resolve ms_worse ms_same ms_current].
    - rewrite map_app. cbn [map fst]. rewrite <- app_assoc. rewrite app_assoc.
      apply perm_mid. now rewrite <- app_assoc.
    - rewrite concat_app, map_app. cbn [List.concat map fst app]. rewrite <- app_assoc.
      cbn [app]. now apply perm_mid.
    - rewrite concat_app, map_app. cbn [List.concat]. rewrite app_nil_r, map_app.
      cbn [map fst]. rewrite <- !app_assoc. cbn [app].
      symmetry. etransitivity; [apply Permutation_cons_append|].
      rewrite <- !app_assoc. cbn [app]. reflexivity.
  Qed.

  Lemma take_better_ids policy s1 s2 st another g st' g' :
    take_better policy s1 s2 st another g = Ok (st', g') ->
    Permutation (ms_ids st') (a_id another :: ms_ids st).
  Proof.
    unfold take_better. intros H.
    assert (K : forall x gx, Ok (x, gx) = Ok (st', g') -> st' = x) by (intros x gx E; congruence).
    destruct (floats_are_equal s1 s2 c_eps6).
    - destruct (String.eqb policy draw_allow); [rewrite (K _ _ H); apply resolve_ids|].
      destruct (String.eqb policy draw_current); [rewrite (K _ _ H); apply resolve_ids|].
      destruct (String.eqb policy draw_newer); [rewrite (K _ _ H); apply resolve_ids|].
      destruct (draw g) as [dg|]; cbn [bind] in H; [|discriminate].
      destruct (nltb (fst dg) c_half); rewrite (K _ _ H); apply resolve_ids.
    - destruct (nltb s2 s1); rewrite (K _ _ H); [apply resolve_ids|].
      exact (resolve_ids RNewer s1 s2 st another).
  Qed.

  Theorem majority_evaluate_wf : forall e s w cur seed rnd drawp r,
    st_params s = PMajority w cur seed rnd drawp -> NoDup (map a_id (st_cons s)) ->
    majority_evaluate e s = Ok r -> C01_ok (cur_ids cur (map a_id (st_cons s))) r = true.
  Proof.
    intros e s w cur seed rnd drawp r Hp ND H. unfold majority_evaluate in H. rewrite Hp in H.
    destruct (zip_with_weights (st_crits s) w) as [cw|]; cbn [bind] in H; [|discriminate].
    destruct (search_order s cur rnd (new_rng e seed)) as [[[current considered] g1]|] eqn:SO;
      cbn [bind] in H; [|discriminate].
    destruct (negb (valid_policy (if String.eqb drawp "" then draw_allow else drawp))); [discriminate|].
    match type of H with context [fold_left ?f considered (Ok ?i)] =>
      destruct (fold_left f considered (Ok i)) as [fin|] eqn:F end; cbn [bind] in H; [|discriminate].
    injection H as <-.
    pose proof (search_order_ids _ _ _ _ _ _ _ SO ND) as PS. fold (cur_ids cur (map a_id (st_cons s))) in PS.
    pose proof (cur_ids_nodup cur _ ND) as NDC.
    apply (fold_res_ind
             (fun (sg : mstate * rng) another =>
                do sc <- compare_alts cw (ms_current (fst sg)) another;
                take_better (if String.eqb drawp "" then draw_allow else drawp) (fst sc) (snd sc) (fst sg) another (snd sg))
             (fun sg done => Permutation (ms_ids (fst sg)) (map a_id done ++ [a_id current]))
          ) with (done := []) in F.
    - cbn [app] in F.
      set (groups := ms_worse (fst fin) ++ [ms_same (fst fin) ++ [(ms_current (fst fin), EMajority (ms_eval (fst fin)) "" nzero)]]).
      assert (E : mids (List.concat groups) = ms_ids (fst fin)).
      { unfold groups, ms_ids. rewrite concat_app, map_app. cbn [List.concat]. rewrite app_nil_r, map_app.
        reflexivity. }
      assert (P : Permutation (mids (List.concat groups)) (cur_ids cur (map a_id (st_cons s)))).
      { rewrite E, F, <- PS. cbn [map]. symmetry. apply Permutation_cons_append. }
      apply (C01_ok_perm (mids (List.concat groups))); [|exact P|].
      + eapply Permutation_NoDup; [symmetry; exact P|exact NDC].
      + apply prepare_ranking_wf. eapply Permutation_NoDup; [symmetry; exact P|exact NDC].
    - intros [st g] x [st' g'] done I St. cbn [fst snd] in *.
      destruct (compare_alts cw (ms_current st) x) as [sc|]; cbn [bind] in St; [|discriminate].
      apply take_better_ids in St. rewrite St, I, map_app. cbn [map].
      rewrite <- app_assoc. symmetry. apply (perm_mid (a_id x) (map a_id done) [a_id current]). reflexivity.
    - cbn [fst map app]. reflexivity.
  Qed.

  (** *** aspect elimination and satisfaction: the walks move alternatives from [left] to the result *)
  Lemma remove_alt_nodup l id : NoDup (map a_id l) -> NoDup (map a_id (remove_alt l id)).
  Proof.
    induction l as [|b r IH]; cbn [map remove_alt]; intros H; [constructor|].
    inversion H as [|? ? Hn Hr]; subst.
    destruct (String.eqb (a_id b) id) eqn:E; [exact Hr|]. cbn [map].
    apply String.eqb_neq in E.
    constructor; [|now apply IH].
    intros Hx. apply Hn.
    assert (I : incl (map a_id (remove_alt r id)) (map a_id r)).
    { clear. induction r as [|c r IH]; cbn [map remove_alt]; [apply incl_refl|].
      destruct (String.eqb (a_id c) id); [apply incl_tl, incl_refl|].
      cbn [map]. intros x [<-|Hx]; [now left|right; now apply IH]. }
    now apply I.
  Qed.

  Lemma remove_alt_in l id x : In x (map a_id l) -> x <> id -> In x (map a_id (remove_alt l id)).
  Proof.
    induction l as [|b r IH]; cbn [map remove_alt]; intros H Hne; [contradiction|].
    destruct (String.eqb (a_id b) id) eqn:E.
    - apply String.eqb_eq in E. destruct H as [H|H]; [congruence|exact H].
    - cbn [map]. destruct H as [H|H]; [now left|right; now apply IH].
  Qed.

  Definition AI (X : list string) (left : list alt) (acc : list mres) : Prop :=
    NoDup (map a_id left) /\ Permutation (map a_id left ++ mids acc) X.

  Lemma AI_move X temp acc a ev : AI X temp acc -> In (a_id a) (map a_id temp) ->
    AI X (remove_alt temp (a_id a)) (acc ++ [(a, ev)]).
  Proof.
    intros [ND P] Hin. split; [now apply remove_alt_nodup|].
    rewrite map_app. cbn [map fst]. rewrite app_assoc.
    rewrite <- Permutation_cons_append. rewrite <- P.
    change (a_id a :: map a_id (remove_alt temp (a_id a)) ++ mids acc)
      with ((a_id a :: map a_id (remove_alt temp (a_id a))) ++ mids acc).
    apply Permutation_app_tail. now apply remove_alt_perm.
  Qed.

  Lemma aspect_walk_inv X t c idx : forall todo temp elim temp' elim' stop,
    NoDup (map a_id todo) -> incl (map a_id todo) (map a_id temp) -> AI X temp elim ->
    aspect_walk todo temp t c idx elim = Ok (temp', elim', stop) -> AI X temp' elim'.
  Proof.
    induction todo as [|a r IH]; intros temp elim temp' elim' stop NDt I A H; cbn [aspect_walk] in H.
    - injection H as <- <- _. exact A.
    - destruct (is_below a t c) as [b|]; cbn [bind] in H; [|discriminate].
      cbn [map] in NDt, I. inversion NDt as [|? ? Hn NDr]; subst.
      match type of H with
        (if Nat.leb (List.length ?t1) 1 then Ok (_, ?e1, true) else _) = _ =>
          assert (A1 : AI X t1 e1 /\ incl (map a_id r) (map a_id t1));
          [|set (t1' := t1) in *; set (e1' := e1) in *; clearbody t1' e1']
      end.
      { destruct b.
        - split; [apply AI_move; [exact A|apply I; now left]|].
          intros x Hx. apply remove_alt_in; [apply I; now right|]. intros ->. now apply Hn.
        - split; [exact A|]. intros x Hx. apply I. now right. }
      destruct A1 as [A1 I1].
      destruct (Nat.leb (List.length t1') 1).
      + injection H as <- <- _. exact A1.
      + eapply IH; eassumption.
  Qed.

  Lemma aspect_criteria_inv X t idx : forall cs left elim left' elim' stop,
    AI X left elim -> aspect_criteria cs left t idx elim = Ok (left', elim', stop) -> AI X left' elim'.
  Proof.
    induction cs as [|c r IH]; intros left elim left' elim' stop A H; cbn [aspect_criteria] in H.
    - injection H as <- <- _. exact A.
    - destruct (aspect_walk left left t (fst c) idx elim) as [[[l1 e1] st1]|] eqn:W; cbn [bind] in H; [|discriminate].
      apply (aspect_walk_inv X) in W; [|apply A|apply incl_refl|exact A].
      destruct st1; [injection H as <- <- _; exact W|]. eapply IH; eassumption.
  Qed.

  Lemma aspect_levels_inv X cs : forall fuel src left idx elim left' elim' idx',
    AI X left elim -> aspect_levels fuel src cs left idx elim = Ok (left', elim', idx') -> AI X left' elim'.
  Proof.
    induction fuel as [|f IH]; intros src left idx elim left' elim' idx' A H; cbn [aspect_levels] in H; [discriminate|].
    destruct (lv_next src) as [[t src']|].
    - destruct (aspect_criteria cs left t (idx + 1)%Z elim) as [[[l1 e1] st1]|] eqn:C; cbn [bind] in H; [|discriminate].
      apply (aspect_criteria_inv X) in C; [|exact A].
      destruct st1; [injection H as <- <- _; exact C|]. eapply IH; eassumption.
    - injection H as <- <- _. exact A.
  Qed.

  Lemma mids_pairs {B} (f : alt -> B) (g : alt -> evaluation) (l : list alt) :
    mids (map (fun a => (a, g a)) l) = map a_id l.
  Proof. rewrite map_map. apply map_ext. reflexivity. Qed.

  Theorem aspect_evaluate_wf : forall e s r, NoDup (map a_id (st_cons s)) ->
    aspect_evaluate e s = Ok r -> C01_ok (map a_id (st_cons s)) r = true.
  Proof.
    intros e s r ND H. unfold aspect_evaluate in H.
    destruct (st_params s) as [| | | | |fn lp seed w rnd|]; try discriminate.
    destruct (lv_init Increasing fn lp s) as [src|]; cbn [bind] in H; [|discriminate].
    destruct (order_alternatives rnd (st_cons s) (new_rng e seed)) as [[alts g1]|] eqn:O; cbn [bind fst] in H; [|discriminate].
    destruct (zip_with_weights (st_crits s) w) as [cw|]; cbn [bind] in H; [|discriminate].
    apply order_alternatives_perm in O.
    assert (PO : Permutation (map a_id alts) (map a_id (st_cons s))) by now apply Permutation_map.
    assert (NDa : NoDup (map a_id alts)) by (eapply Permutation_NoDup; [symmetry; exact PO|exact ND]).
    match type of H with bind ?x _ = _ => destruct x as [[[lft elim] idx]|] eqn:R end; cbn [bind] in H; [|discriminate].
    injection H as <-.
    assert (A : AI (map a_id alts) lft elim).
    { destruct (Nat.leb (List.length alts) 1).
      - injection R as <- <- _. split; [exact NDa|]. cbn [map]. now rewrite app_nil_r.
      - apply (aspect_levels_inv (map a_id alts)) in R; [exact R|].
        split; [exact NDa|]. cbn [map]. now rewrite app_nil_r. }
    destruct A as [_ P].
    set (l := map (fun a => (a, EAspect [] (idx + 1)%Z)) lft ++ rev elim).
    assert (P2 : Permutation (mids l) (map a_id (st_cons s))).
    { unfold l. rewrite map_app, (mids_pairs (fun a => a)), map_rev, <- Permutation_rev. now rewrite P. }
    apply (C01_ok_perm (mids l)); [|exact P2|].
    - eapply Permutation_NoDup; [symmetry; exact P2|exact ND].
    - apply sequential_ranking_wf. eapply Permutation_NoDup; [symmetry; exact P2|exact ND].
  Qed.

  Lemma satisf_walk_inv X ths t idx : forall todo temp acc temp' acc',
    NoDup (map a_id todo) -> incl (map a_id todo) (map a_id temp) -> AI X temp acc ->
    satisf_walk todo temp ths t idx acc = Ok (temp', acc') -> AI X temp' acc'.
  Proof.
    induction todo as [|a r IH]; intros temp acc temp' acc' NDt I A H; cbn [satisf_walk] in H.
    - injection H as <- <-. exact A.
    - destruct (good_enough a ths) as [b|]; cbn [bind] in H; [|discriminate].
      cbn [map] in NDt, I. inversion NDt as [|? ? Hn NDr]; subst.
      destruct b.
      + eapply IH; [exact NDr| |apply AI_move; [exact A|apply I; now left]|exact H].
        intros x Hx. apply remove_alt_in; [apply I; now right|]. intros ->. now apply Hn.
      + eapply IH; [exact NDr| |exact A|exact H]. intros x Hx. apply I. now right.
  Qed.

  Lemma satisf_levels_inv X cs : forall fuel src left idx acc left' acc' idx',
    AI X left acc -> satisf_levels fuel src cs left idx acc = Ok (left', acc', idx') -> AI X left' acc'.
  Proof.
    induction fuel as [|f IH]; intros src left idx acc left' acc' idx' A H; cbn [satisf_levels] in H; [discriminate|].
    destruct (lv_next src) as [[t src']|].
    - destruct (zip_with_weights cs t) as [ths|]; cbn [bind] in H; [|discriminate].
      destruct (satisf_walk left left ths t (idx + 1)%Z acc) as [[l1 a1]|] eqn:W; cbn [bind fst snd] in H; [|discriminate].
      apply (satisf_walk_inv X) in W; [|apply A|apply incl_refl|exact A].
      destruct l1 as [|x l1]; [injection H as <- <- _; exact W|]. eapply IH; eassumption.
    - injection H as <- <- _. exact A.
  Qed.

  Theorem satisfaction_evaluate_wf : forall e s fn lp seed cur rnd r,
    st_params s = PSatisf fn lp seed cur rnd -> NoDup (map a_id (st_cons s)) ->
    satisfaction_evaluate e s = Ok r -> C01_ok (cur_ids cur (map a_id (st_cons s))) r = true.
  Proof.
    intros e s fn lp seed cur rnd r Hp ND H. unfold satisfaction_evaluate in H. rewrite Hp in H.
    destruct (lv_init Decreasing fn lp s) as [src|]; cbn [bind] in H; [|discriminate].
    destruct (search_order s cur rnd (new_rng e seed)) as [[[current considered] g1]|] eqn:SO;
      cbn [bind] in H; [|discriminate].
    pose proof (search_order_ids _ _ _ _ _ _ _ SO ND) as PS. fold (cur_ids cur (map a_id (st_cons s))) in PS.
    pose proof (cur_ids_nodup cur _ ND) as NDC.
    assert (NDX : NoDup (map a_id (current :: considered)))
      by (eapply Permutation_NoDup; [symmetry; exact PS|exact NDC]).
    destruct (satisf_levels level_fuel src (st_crits s) (current :: considered) (-1)%Z []) as [[[lft acc] idx]|] eqn:R;
      cbn [bind] in H; [|discriminate].
    apply (satisf_levels_inv (map a_id (current :: considered))) in R;
      [|split; [exact NDX|cbn [map]; now rewrite app_nil_r]].
    destruct R as [_ P].
    assert (K : forall l, Permutation (mids l) (map a_id lft ++ mids acc) ->
                C01_ok (cur_ids cur (map a_id (st_cons s))) (sequential_ranking l) = true).
    { intros l Pl.
      assert (P2 : Permutation (mids l) (cur_ids cur (map a_id (st_cons s)))) by now rewrite Pl, P.
      apply (C01_ok_perm (mids l)); [|exact P2|].
      - eapply Permutation_NoDup; [symmetry; exact P2|exact NDC].
      - apply sequential_ranking_wf. eapply Permutation_NoDup; [symmetry; exact P2|exact NDC]. }
    destruct lft as [|x lft].
    - injection H as <-. apply K. reflexivity.
    - destruct (lowest_thresholds s) as [low|]; cbn [bind] in H; [|discriminate].
      injection H as <-. apply K.
      change ((x, ESatisf low (idx + 1)%Z) :: map (fun a : alt => (a, ESatisf low (idx + 1)%Z)) lft)
        with (map (fun a : alt => (a, ESatisf low (idx + 1)%Z)) (x :: lft)).
      rewrite map_app, (mids_pairs (fun a => a)). apply Permutation_app_comm.
  Qed.

  (** *** electre *)
  Lemma positions_length n a : List.length (positions n a) = n.
  Proof. unfold positions. now rewrite map_length, seq_length. Qed.

  Lemma cred_matrix_length alts cs ecs m : cred_matrix alts cs ecs = Ok m -> List.length m = List.length alts.
  Proof.
    unfold cred_matrix. intros H. apply mapM_length in H. rewrite H, zip_length, seq_length. apply Nat.min_id.
  Qed.

  Lemma rank_ascending_length m f asc : rank_ascending m f = Ok asc -> List.length asc = List.length m.
  Proof.
    unfold rank_ascending. destruct (Nat.eqb (List.length m) 0); [discriminate|].
    destruct (distill _ _ _ _ _ _) as [a|]; cbn [bind]; [|discriminate].
    intros H. injection H as <-. apply positions_length.
  Qed.

  Lemma rank_descending_length m f desc : rank_descending m f = Ok desc -> List.length desc = List.length m.
  Proof.
    unfold rank_descending. destruct (Nat.eqb (List.length m) 0); [discriminate|].
    destruct (distill _ _ _ _ _ _) as [a|]; cbn [bind]; [|discriminate].
    intros H. injection H as <-. rewrite map_length. apply positions_length.
  Qed.

  Theorem electre_evaluate_wf : forall s r, NoDup (map a_id (st_cons s)) ->
    electre_evaluate s = Ok r -> C01_ok (map a_id (st_cons s)) r = true.
  Proof.
    intros s r ND H. unfold electre_evaluate in H.
    destruct (st_params s) as [| | |ecs f| | |]; try discriminate.
    destruct (cred_matrix (st_cons s) (st_crits s) ecs) as [m|] eqn:M; cbn [bind] in H; [|discriminate].
    destruct (rank_ascending m f) as [asc|] eqn:A; cbn [bind] in H; [|discriminate].
    destruct (rank_descending m f) as [desc|] eqn:D; cbn [bind] in H; [|discriminate].
    injection H as <-.
    apply cred_matrix_length in M. apply rank_ascending_length in A. apply rank_descending_length in D.
    apply evaluate_ranking_wf; [exact ND|congruence|congruence].
  Qed.

  (** *** the utility methods *)
  Definition utility_value (p : mparams) (a : alt) : res num :=
    match p with
    | PWs wc => ws_value wc a
    | POwa wc => owa_value wc a
    | PChoquet w _ => choquet_value w a
    | _ => Err EType
    end.

  Lemma rank_with_inv (f : alt -> res num) : forall cons vs,
    mapM (fun a => do v <- f a; Ok (a, v)) cons = Ok vs ->
    ids vs = map a_id cons /\ Forall (fun x => In (fst x) cons /\ f (fst x) = Ok (snd x)) vs.
  Proof.
    induction cons as [|a r IH]; intros vs H; cbn [mapM] in H.
    - injection H as <-. split; [reflexivity|constructor].
    - destruct (f a) as [v|] eqn:E; cbn [bind] in H; [|discriminate].
      destruct (mapM _ r) as [ys|] eqn:E2; cbn [bind] in H; [|discriminate].
      injection H as <-. destruct (IH ys eq_refl) as [I1 I2]. split.
      + unfold ids in *. cbn [map fst]. now rewrite I1.
      + constructor; [cbn [fst snd]; split; [now left|exact E]|].
        eapply Forall_impl; [|exact I2]. intros x [Hx1 Hx2]. split; [now right|exact Hx2].
  Qed.
End Methods.

Section UtilityWf.
  Context {N : Num} {L : OrdLaws N}.

  Lemma rank_with_wf (f : alt -> res num) cons r :
    NoDup (map a_id cons) -> (forall a v, In a cons -> f a = Ok v -> okv v) ->
    rank_with f cons = Ok r -> C01_ok (map a_id cons) r = true.
  Proof.
    intros ND OK H. unfold rank_with in H.
    destruct (mapM _ cons) as [vs|] eqn:E; cbn [bind] in H; [|discriminate].
    injection H as <-. apply rank_with_inv in E as [I1 I2]. rewrite <- I1.
    apply ranking_wf; [|now rewrite I1].
    unfold okl. eapply Forall_impl; [|exact I2]. intros x [Hx1 Hx2]. now apply (OK (fst x)).
  Qed.

  Theorem utility_evaluate_wf : forall s r, NoDup (map a_id (st_cons s)) ->
    (forall a v, In a (st_cons s) -> utility_value (st_params s) a = Ok v -> okv v) ->
    utility_evaluate s = Ok r -> C01_ok (map a_id (st_cons s)) r = true.
  Proof.
    intros s r ND OK H. unfold utility_evaluate in H.
    destruct (st_params s) as [wc|wc|w cs| | | |]; try discriminate; cbn [utility_value] in OK;
      eapply rank_with_wf; eassumption.
  Qed.
End UtilityWf.

(** ** The pipeline without enabled biases *)
Section Decide.
  Context {N : Num} {L : OrdLaws N}.

  Lemma fetch_alt_id l id a : fetch_alt l id = Ok a -> a_id a = id.
  Proof.
    induction l as [|b r IH]; cbn [fetch_alt]; [discriminate|].
    destruct (String.eqb (a_id b) id) eqn:E; [|exact IH].
    intros H. injection H as <-. now apply String.eqb_eq.
  Qed.

  Lemma considered_ids req consd : considered req = Ok consd -> map a_id consd = r_chose req.
  Proof.
    unfold considered. intros H. apply mapM_Forall2 in H.
    induction H as [|id a ids l H1 _ IH]; cbn [map]; [reflexivity|].
    apply fetch_alt_id in H1. now rewrite H1, IH.
  Qed.

  Lemma prepare_inv req st : prepare req = Ok st ->
    map a_id (st_cons st) = r_chose req /\ parse_params req = Ok (st_params st) /\
    In (r_method req) method_names.
  Proof.
    unfold prepare. intros H.
    destruct (is_blank (r_method req)); [discriminate|].
    destruct (validate_criteria (r_crits req) []); cbn [bind] in H; [|discriminate].
    destruct (validate_alternatives (r_known req) (r_crits req)); cbn [bind] in H; [|discriminate].
    destruct (mem_str (r_method req) method_names) eqn:M; cbn [negb] in H; [|discriminate].
    destruct (considered req) as [consd|] eqn:C; cbn [bind] in H; [|discriminate].
    destruct (parse_params req) as [p|] eqn:P; cbn [bind] in H; [|discriminate].
    injection H as <-. cbn [st_cons st_params].
    split; [now apply considered_ids|]. split; [reflexivity|now apply mem_str_In].
  Qed.

  Lemma expected_ids_nocur req : has_current (r_method req) = false -> expected_ids req = r_chose req.
  Proof. unfold expected_ids. now intros ->. Qed.

  Lemma expected_ids_cur req : has_current (r_method req) = true ->
    expected_ids req = cur_ids (rp_current (r_mp req)) (r_chose req).
  Proof. unfold expected_ids, cur_ids. now intros ->. Qed.

  Theorem decide_wf_nobias : forall e req resp,
    filter (fun b => negb (b_disabled b)) (r_biases req) = [] -> NoDup (r_chose req) ->
    (forall st a v, prepare req = Ok st -> In a (st_cons st) ->
                    utility_value (st_params st) a = Ok v -> okv v) ->
    decide e req = Ok resp -> C01_ok (expected_ids req) (resp_result resp) = true.
  Proof.
    intros e req resp Hf ND OK H. unfold decide, biased_state, enabled_biases in H.
    destruct (prepare req) as [st|] eqn:P; cbn [bind] in H; [|discriminate].
    rewrite Hf in H. cbn [forallb negb bind fst snd] in H.
    destruct (evaluate (r_method req) e st) as [r|] eqn:Ev; cbn [bind] in H; [|discriminate].
    injection H as <-. cbn [resp_result].
    pose proof (prepare_inv req st P) as (I1 & I2 & I3).
    assert (OK' : forall a v, In a (st_cons st) -> utility_value (st_params st) a = Ok v -> okv v)
      by (intros a v; apply OK; reflexivity).
    clear OK. rewrite <- I1 in ND.
    unfold parse_params in I2.
    cbn [method_names In] in I3.
    destruct I3 as [E|[E|[E|[E|[E|[E|[E|[]]]]]]]]; rewrite <- E in Ev, I2.
    - (* weightedSum *)
      rewrite expected_ids_nocur by (now rewrite <- E). rewrite <- I1.
      change (utility_evaluate st = Ok r) in Ev. apply utility_evaluate_wf; auto.
    - (* owa *)
      rewrite expected_ids_nocur by (now rewrite <- E). rewrite <- I1.
      change (utility_evaluate st = Ok r) in Ev. apply utility_evaluate_wf; auto.
    - (* electre *)
      rewrite expected_ids_nocur by (now rewrite <- E). rewrite <- I1.
      change (electre_evaluate st = Ok r) in Ev. now apply electre_evaluate_wf.
    - (* choquet *)
      rewrite expected_ids_nocur by (now rewrite <- E). rewrite <- I1.
      change (utility_evaluate st = Ok r) in Ev. apply utility_evaluate_wf; auto.
    - (* aspect *)
      rewrite expected_ids_nocur by (now rewrite <- E). rewrite <- I1.
      change (aspect_evaluate e st = Ok r) in Ev. now apply (aspect_evaluate_wf e).
    - (* majority *)
      rewrite expected_ids_cur by (now rewrite <- E). rewrite <- I1.
      change (majority_evaluate e st = Ok r) in Ev.
      change (majority_parse (r_mp req) = Ok (st_params st)) in I2.
      unfold majority_parse in I2. injection I2 as I2. symmetry in I2.
      eapply majority_evaluate_wf; eassumption.
    - (* satisfaction *)
      rewrite expected_ids_cur by (now rewrite <- E). rewrite <- I1.
      change (satisfaction_evaluate e st = Ok r) in Ev.
      change (satisfaction_parse (r_mp req) = Ok (st_params st)) in I2.
      unfold satisfaction_parse in I2. injection I2 as I2. symmetry in I2.
      eapply satisfaction_evaluate_wf; eassumption.
  Qed.
End Decide.

(** On exact rationals every value is [okv], so the statement is unconditional. *)
Corollary decide_wf_nobias_Qc : forall e (req : @request NumQc.NumQc) resp,
  filter (fun b => negb (b_disabled b)) (r_biases req) = [] -> NoDup (r_chose req) ->
  decide e req = Ok resp -> C01_ok (expected_ids req) (resp_result resp) = true.
Proof.
  intros e req resp Hf ND H. apply (decide_wf_nobias (L := NumQc.OrdQc) e req resp Hf ND); [|exact H].
  intros; exact I.
Qed.

Print Assumptions mem_str_In.
Print Assumptions nodup_str_NoDup.
Print Assumptions C01_ok_iff.
Print Assumptions C01_ok_complete.
Print Assumptions C01_ok_sound.
Print Assumptions ranking_wf.
Print Assumptions sequential_ranking_wf.
Print Assumptions prepare_ranking_wf.
Print Assumptions evaluate_ranking_wf.
Print Assumptions shuffle_perm.
Print Assumptions search_order_ids.
Print Assumptions majority_evaluate_wf.
Print Assumptions aspect_evaluate_wf.
Print Assumptions satisfaction_evaluate_wf.
Print Assumptions electre_evaluate_wf.
Print Assumptions utility_evaluate_wf.
Print Assumptions decide_wf_nobias.
Print Assumptions decide_wf_nobias_Qc.
