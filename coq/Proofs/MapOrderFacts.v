(** * C02 (repeatability): nothing depends on the iteration order of a map.

    The Go program ranges over maps in a random order.  The model keeps every map canonical (an
    association list sorted by key) and folds over it in key order.  For each *pattern* of map
    iteration used by the program we show that folding over ANY permutation of the entries gives
    the same result, so the result of the model is the result for every iteration order.

    Everything is generic over the carrier [{N : Num}] and uses no arithmetic law at all (addition
    is neither assumed associative nor commutative).  Patterns C (numbers) and E need the order laws
    [OrdLaws]; pattern E additionally needs two named hypotheses that are discharged on [NumQc]. *)
From Coq Require Import ZArith Bool List String Permutation Sorted Relations Lia.
From RDM Require Import Base.Num Base.NumQc Base.Util Model.Data Model.Rank Model.Utility Model.Listeners
  Model.Anchoring Proofs.SortFacts Proofs.RankFacts Proofs.LevelFacts.
Import ListNotations.
Local Open Scope string_scope.
Local Open Scope list_scope.

(** ** 0. Results up to the error class, and the generic "fold over a permutation" lemma *)

(** Two results agree: both succeed with the same value, or both fail (the error class, i.e. which
    panic is raised first, may depend on the order). *)
Definition res_eqv {A} (r1 r2 : res A) : Prop :=
  match r1, r2 with
  | Ok a, Ok b => a = b
  | Err _, Err _ => True
  | _, _ => False
  end.

Lemma res_eqv_refl {A} (r : res A) : res_eqv r r.
Proof. destruct r; cbn; auto. Qed.

Lemma res_eqv_sym {A} (r1 r2 : res A) : res_eqv r1 r2 -> res_eqv r2 r1.
Proof. destruct r1, r2; cbn; auto. Qed.

Lemma res_eqv_trans {A} (r1 r2 r3 : res A) : res_eqv r1 r2 -> res_eqv r2 r3 -> res_eqv r1 r3.
Proof. destruct r1, r2, r3; cbn; try tauto; congruence. Qed.

Lemma res_eqv_ok {A} (r1 r2 : res A) a : res_eqv r1 r2 -> r1 = Ok a -> r2 = Ok a.
Proof. destruct r1, r2; cbn; intros H E; try contradiction; try discriminate. congruence. Qed.

Lemma res_eqv_is_ok {A} (r1 r2 : res A) : res_eqv r1 r2 -> is_ok r1 = is_ok r2.
Proof. destruct r1, r2; cbn; intros H; try contradiction; reflexivity. Qed.

(** when only one error class can occur the two results are equal *)
Lemma res_eqv_eq {A} (r1 r2 : res A) e0 :
  res_eqv r1 r2 -> (forall e, r1 = Err e -> e = e0) -> (forall e, r2 = Err e -> e = e0) -> r1 = r2.
Proof.
  destruct r1 as [a|e1], r2 as [b|e2]; cbn; intros H H1 H2; try contradiction.
  - now subst.
  - now rewrite (H1 e1 eq_refl), (H2 e2 eq_refl).
Qed.

Lemma fold_left_ext {S E} (f g : S -> E -> S) :
  (forall s e, f s e = g s e) -> forall l s, fold_left f l s = fold_left g l s.
Proof. intros H l. induction l as [|x r IH]; intros s; cbn [fold_left]; [reflexivity|]. now rewrite H, IH. Qed.

Lemma Permutation_filter' {A} (p : A -> bool) l l' :
  Permutation l l' -> Permutation (filter p l) (filter p l').
Proof.
  induction 1 as [|x l l' P IH|x y l|l l' l'' P1 IH1 P2 IH2]; cbn [filter].
  - constructor.
  - destruct (p x); [now constructor | exact IH].
  - destruct (p x), (p y); try reflexivity. apply perm_swap.
  - now transitivity (filter p l').
Qed.

Section FoldPerm.
  Context {S E : Type} (step : S -> E -> S) (R : S -> S -> Prop) (C : E -> E -> Prop).
  Hypothesis R_refl : forall s, R s s.
  Hypothesis R_trans : forall a b c, R a b -> R b c -> R a c.
  Hypothesis C_sym : forall a b, C a b -> C b a.
  Hypothesis step_cong : forall s s' e, R s s' -> R (step s e) (step s' e).
  Hypothesis step_comm : forall s e1 e2, C e1 e2 -> R (step (step s e1) e2) (step (step s e2) e1).

  (** every two entries at different positions are compatible *)
  Fixpoint pairwise (l : list E) : Prop :=
    match l with [] => True | x :: r => Forall (C x) r /\ pairwise r end.

  Lemma fold_cong l : forall s s', R s s' -> R (fold_left step l s) (fold_left step l s').
  Proof. induction l as [|x r IH]; intros s s' H; cbn [fold_left]; [exact H|]. apply IH. now apply step_cong. Qed.

  Lemma fold_perm_aux l l' :
    Permutation l l' -> pairwise l ->
    pairwise l' /\ forall s, R (fold_left step l s) (fold_left step l' s).
  Proof.
    induction 1 as [|x l l' P IH|x y l|l l' l'' P1 IH1 P2 IH2]; intros PW.
    - split; [exact I | intros s; apply R_refl].
    - destruct PW as [Fx PW]. destruct (IH PW) as [PW' HR]. split.
      + split; [|exact PW']. eapply Permutation_Forall; eassumption.
      + intros s. cbn [fold_left]. apply HR.
    - destruct PW as [Fy [Fx PW]]. inversion Fy as [|? ? Cyx Fy']; subst. split.
      + split; [constructor; [now apply C_sym | exact Fx]|]. split; assumption.
      + intros s. cbn [fold_left]. apply fold_cong. now apply step_comm.
    - destruct (IH1 PW) as [PW' HR1]. destruct (IH2 PW') as [PW'' HR2]. split; [exact PW''|].
      intros s. eapply R_trans; [apply HR1 | apply HR2].
  Qed.

  (** the generic lemma: a fold whose steps commute (up to [R]) on compatible entries does not
      depend on the order of a list of pairwise compatible entries *)
  Lemma fold_perm l l' s :
    Permutation l l' -> pairwise l -> R (fold_left step l s) (fold_left step l' s).
  Proof. intros P PW. now apply (fold_perm_aux l l' P PW). Qed.

  (** nested form: the outer sequence is processed in a fixed order, each inner map may be
      permuted independently *)
  Lemma fold_nested_perm {O : Type} (proj : O -> list E) (ls ls' : list O) :
    Forall2 (fun o o' => Permutation (proj o) (proj o')) ls ls' ->
    Forall (fun o => pairwise (proj o)) ls ->
    forall s s', R s s' ->
      R (fold_left (fun acc o => fold_left step (proj o) acc) ls s)
        (fold_left (fun acc o => fold_left step (proj o) acc) ls' s').
  Proof.
    induction 1 as [|o o' ls ls' P F2 IH]; intros PW s s' H; cbn [fold_left]; [exact H|].
    inversion PW as [|? ? PWo PWr]; subst.
    apply IH; [exact PWr|].
    eapply R_trans; [apply fold_cong; exact H|]. now apply fold_perm.
  Qed.
End FoldPerm.

Lemma pairwise_NoDup {E K} (key : E -> K) (l : list E) :
  NoDup (map key l) -> pairwise (fun a b => key a <> key b) l.
Proof.
  induction l as [|x r IH]; cbn [map pairwise]; intros ND; [exact I|].
  inversion ND as [|? ? NI ND']; subst. split; [|now apply IH].
  rewrite Forall_forall. intros y Hy E'. apply NI. rewrite E'. now apply in_map.
Qed.

Lemma pairwise_True {E} (l : list E) : pairwise (fun _ _ => True) l.
Proof. induction l as [|x r IH]; cbn [pairwise]; [exact I|]. split; [|exact IH]. rewrite Forall_forall. auto. Qed.

(** ** 1. Basic algebra of canonical maps *)
Section MapAlgebra.
  Context {A : Type}.

  Lemma sltb_exactly_one k1 k2 : k1 <> k2 ->
    (String.ltb k1 k2 = true /\ String.ltb k2 k1 = false) \/ (String.ltb k1 k2 = false /\ String.ltb k2 k1 = true).
  Proof.
    intros NE. destruct (sltb_tricho k1 k2) as [T|[T|T]]; [left|contradiction|right]; split; auto using sltb_asym.
  Qed.

  Lemma mget_mset k k' (v : A) m :
    mget k (mset k' v m) = if String.eqb k k' then Some v else mget k m.
  Proof.
    destruct (String.eqb k k') eqn:E.
    - apply String.eqb_eq in E. subst. apply mget_mset_same.
    - apply String.eqb_neq in E. now apply mget_mset_other.
  Qed.

  Lemma mhas_mset k k' (v : A) m : mhas k (mset k' v m) = String.eqb k k' || mhas k m.
  Proof. unfold mhas. rewrite mget_mset. destruct (String.eqb k k'); reflexivity. Qed.

  (** [mset] keeps sortedness (re-exported from Proofs/LevelFacts.v) *)
  Lemma mset_sorted k (v : A) m : msorted m = true -> msorted (mset k v m) = true.
  Proof. apply mset_msorted. Qed.

  Lemma mset_idem k (v v' : A) m : mset k v (mset k v' m) = mset k v m.
  Proof.
    induction m as [|[k' x] r IH]; cbn [mset].
    - now rewrite String.eqb_refl.
    - destruct (String.eqb k k') eqn:E; [cbn [mset]; now rewrite String.eqb_refl|].
      destruct (String.ltb k k') eqn:L; cbn [mset]; [now rewrite String.eqb_refl|].
      now rewrite E, L, IH.
  Qed.

  (** [mset] on two distinct keys commutes -- Leibniz equality of the lists.  Sortedness of the map
      is not even needed (each key is placed before the first key that is not smaller). *)
  Lemma mset_comm_gen k1 k2 (v1 v2 : A) m :
    k1 <> k2 -> mset k1 v1 (mset k2 v2 m) = mset k2 v2 (mset k1 v1 m).
  Proof.
    intros NE.
    assert (E12 : String.eqb k1 k2 = false) by now apply String.eqb_neq.
    assert (E21 : String.eqb k2 k1 = false) by (apply String.eqb_neq; congruence).
    induction m as [|[k x] r IH].
    - cbn [mset]. rewrite E12, E21.
      destruct (sltb_exactly_one k1 k2 NE) as [[L1 L2]|[L1 L2]]; now rewrite L1, L2.
    - cbn [mset].
      destruct (String.eqb k1 k) eqn:E1.
      { apply String.eqb_eq in E1. subst k. rewrite E21. cbn [mset]. rewrite E21.
        destruct (String.ltb k2 k1) eqn:L21; cbn [mset].
        - rewrite E12. rewrite (sltb_asym _ _ L21). now rewrite String.eqb_refl.
        - now rewrite String.eqb_refl. }
      destruct (String.eqb k2 k) eqn:E2.
      { apply String.eqb_eq in E2. subst k. cbn [mset]. rewrite E12.
        destruct (String.ltb k1 k2) eqn:L12; cbn [mset].
        - rewrite E21. rewrite (sltb_asym _ _ L12). now rewrite String.eqb_refl.
        - now rewrite String.eqb_refl. }
      destruct (String.ltb k1 k) eqn:L1; destruct (String.ltb k2 k) eqn:L2; cbn [mset].
      + rewrite E12, E21.
        destruct (sltb_exactly_one k1 k2 NE) as [[A1 A2]|[A1 A2]]; rewrite A1, A2; cbn [mset].
        * now rewrite E2, L2.
        * now rewrite E1, L1.
      + rewrite E1, L1, E21.
        assert (String.ltb k2 k1 = false) as ->.
        { destruct (String.ltb k2 k1) eqn:B; [|reflexivity]. pose proof (sltb_trans _ _ _ B L1). congruence. }
        cbn [mset]. now rewrite E2, L2.
      + rewrite E2, L2, E12.
        assert (String.ltb k1 k2 = false) as ->.
        { destruct (String.ltb k1 k2) eqn:B; [|reflexivity]. pose proof (sltb_trans _ _ _ B L2). congruence. }
        cbn [mset]. now rewrite E1, L1.
      + rewrite E1, L1, E2, L2. now rewrite IH.
  Qed.

  (** the requested statement *)
  Lemma mset_comm k1 k2 (v1 v2 : A) m :
    msorted m = true -> k1 <> k2 -> mset k1 v1 (mset k2 v2 m) = mset k2 v2 (mset k1 v1 m).
  Proof. intros _. apply mset_comm_gen. Qed.

  (** why maps are kept canonical: a sorted map is determined by its lookups *)
  Lemma msorted_tail k (v : A) m : msorted ((k, v) :: m) = true -> msorted m = true.
  Proof. rewrite msorted_cons. intros H. now apply andb_true_iff in H. Qed.

  Lemma msorted_head_lt k (v : A) m :
    msorted ((k, v) :: m) = true -> forall k', In k' (mkeys m) -> String.ltb k k' = true.
  Proof.
    revert k v. induction m as [|[k2 v2] r IH]; intros k v S k' I; [destruct I|].
    rewrite msorted_cons in S. apply andb_true_iff in S as [S1 S2]. cbn [hd_lt] in S1.
    cbn [mkeys map fst In] in I. destruct I as [<-|I]; [exact S1|].
    eapply sltb_trans; [exact S1|]. eapply IH; eassumption.
  Qed.

  Lemma msorted_head_none k (v : A) m k' :
    msorted ((k, v) :: m) = true -> (String.ltb k' k = true \/ k' = k) -> mget k' m = None.
  Proof.
    intros S H. apply mget_none_iff. intros I. pose proof (msorted_head_lt k v m S k' I) as L.
    destruct H as [H | ->]; [|now rewrite sltb_irrefl in L].
    pose proof (sltb_trans _ _ _ H L) as T. now rewrite sltb_irrefl in T.
  Qed.

  Lemma msorted_ext (m1 m2 : smap A) :
    msorted m1 = true -> msorted m2 = true -> (forall k, mget k m1 = mget k m2) -> m1 = m2.
  Proof.
    revert m2. induction m1 as [|[k1 v1] r1 IH]; intros [|[k2 v2] r2] S1 S2 H.
    - reflexivity.
    - specialize (H k2). cbn [mget] in H. rewrite String.eqb_refl in H. discriminate.
    - specialize (H k1). cbn [mget] in H. rewrite String.eqb_refl in H. discriminate.
    - assert (k1 = k2) as <-.
      { destruct (sltb_tricho k1 k2) as [T|[T|T]]; [exfalso|exact T|exfalso].
        - pose proof (H k1) as H1. cbn [mget] in H1. rewrite String.eqb_refl in H1.
          assert (String.eqb k1 k2 = false) as E by (apply String.eqb_neq; intros ->; now rewrite sltb_irrefl in T).
          rewrite E in H1. rewrite (msorted_head_none k2 v2 r2 k1 S2 (or_introl T)) in H1. discriminate.
        - pose proof (H k2) as H1. cbn [mget] in H1. rewrite String.eqb_refl in H1.
          assert (String.eqb k2 k1 = false) as E by (apply String.eqb_neq; intros ->; now rewrite sltb_irrefl in T).
          rewrite E in H1. rewrite (msorted_head_none k1 v1 r1 k2 S1 (or_introl T)) in H1. discriminate. }
      pose proof (H k1) as H1. cbn [mget] in H1. rewrite String.eqb_refl in H1. injection H1 as <-.
      f_equal. apply IH; [eapply msorted_tail; eassumption | eapply msorted_tail; eassumption |].
      intros k. destruct (String.eqb k k1) eqn:E.
      + apply String.eqb_eq in E. subst k.
        rewrite (msorted_head_none k1 v1 r1 k1 S1 (or_intror eq_refl)).
        now rewrite (msorted_head_none k1 v1 r2 k1 S2 (or_intror eq_refl)).
      + specialize (H k). cbn [mget] in H. now rewrite E in H.
  Qed.
End MapAlgebra.

(** ** 2. Pattern A: per-key assignment
    (extractCriteriaValues, matchScalingWithBounding, WithCriterion, Weights.Copy, the final
    division of arithmeticAverage, mix) *)
Section PatternA.
  Context {V W : Type} (f : string -> V -> W).

  Definition assign (m : smap W) (kv : string * V) : smap W := mset (fst kv) (f (fst kv) (snd kv)) m.

  Lemma assign_comm m e1 e2 : fst e1 <> fst e2 -> assign (assign m e1) e2 = assign (assign m e2) e1.
  Proof. intros NE. unfold assign. apply mset_comm_gen. congruence. Qed.

  Lemma assign_perm_gen (l l' : list (string * V)) (init : smap W) :
    NoDup (map fst l) -> Permutation l l' -> fold_left assign l init = fold_left assign l' init.
  Proof.
    intros ND P.
    apply (fold_perm assign eq (fun a b => fst a <> fst b)); auto.
    - intros; congruence.
    - intros; congruence.
    - intros s e1 e2 NE. now apply assign_comm.
    - now apply pairwise_NoDup.
  Qed.

  (** the requested statement *)
  Theorem assign_perm (l l' : list (string * V)) (init : smap W) :
    NoDup (map fst l) -> Permutation l l' -> msorted init = true ->
    fold_left (fun m kv => mset (fst kv) (f (fst kv) (snd kv)) m) l init =
    fold_left (fun m kv => mset (fst kv) (f (fst kv) (snd kv)) m) l' init.
  Proof. intros ND P _. now apply assign_perm_gen. Qed.

  (** the result is canonical *)
  Lemma assign_fold_sorted (l : list (string * V)) : forall init,
    msorted init = true -> msorted (fold_left assign l init) = true.
  Proof. induction l as [|x r IH]; intros init S; cbn [fold_left]; [exact S|]. apply IH. now apply mset_msorted. Qed.
End PatternA.

(** ** 3. Pattern B: per-key accumulation
    (PrepareCumulatedWeightsMap, arithmeticAverage, decomposeWeights) *)
Section PatternB.
  Context {V W : Type}.

  (** *** pure step: the new value depends on the key's own old value only *)
  Section Pure.
    Context (g : string -> option W -> V -> W).
    Definition upd (m : smap W) (kv : string * V) : smap W :=
      mset (fst kv) (g (fst kv) (mget (fst kv) m) (snd kv)) m.

    Lemma upd_comm m e1 e2 : fst e1 <> fst e2 -> upd (upd m e1) e2 = upd (upd m e2) e1.
    Proof.
      intros NE. unfold upd.
      rewrite (mget_mset_other (fst e2) (fst e1)) by congruence.
      rewrite (mget_mset_other (fst e1) (fst e2)) by congruence.
      apply mset_comm_gen. congruence.
    Qed.

    Lemma accumulate_perm_gen (l l' : list (string * V)) (m : smap W) :
      NoDup (map fst l) -> Permutation l l' -> fold_left upd l m = fold_left upd l' m.
    Proof.
      intros ND P.
      apply (fold_perm upd eq (fun a b => fst a <> fst b)); auto.
      - intros; congruence.
      - intros; congruence.
      - intros s e1 e2 NE. now apply upd_comm.
      - now apply pairwise_NoDup.
    Qed.

    (** the requested statement *)
    Theorem accumulate_perm (l l' : list (string * V)) (m : smap W) :
      NoDup (map fst l) -> Permutation l l' -> msorted m = true -> fold_left upd l m = fold_left upd l' m.
    Proof. intros ND P _. now apply accumulate_perm_gen. Qed.

    (** nested form: outer sequence in a fixed order, every inner map permuted independently *)
    Theorem accumulate_nested_perm {O : Type} (proj : O -> list (string * V)) (ls ls' : list O) (m : smap W) :
      Forall2 (fun o o' => Permutation (proj o) (proj o')) ls ls' ->
      Forall (fun o => NoDup (map fst (proj o))) ls ->
      msorted m = true ->
      fold_left (fun acc o => fold_left upd (proj o) acc) ls m =
      fold_left (fun acc o => fold_left upd (proj o) acc) ls' m.
    Proof.
      intros F2 ND _.
      apply (fold_nested_perm upd eq (fun a b => fst a <> fst b)); auto.
      - intros; congruence.
      - intros; congruence.
      - intros s e1 e2 NE. now apply upd_comm.
      - eapply Forall_impl; [|exact ND]. intros o. apply pairwise_NoDup.
    Qed.
  End Pure.

  (** *** step threading a result: the per-key update may fail (missing key, failing mapper) *)
  Section Threaded.
    Context (g : string -> option W -> V -> res W).
    Definition updr (acc : res (smap W)) (kv : string * V) : res (smap W) :=
      do m <- acc; do x <- g (fst kv) (mget (fst kv) m) (snd kv); Ok (mset (fst kv) x m).

    Lemma updr_cong s s' e : res_eqv s s' -> res_eqv (updr s e) (updr s' e).
    Proof.
      destruct s as [m|e1], s' as [m'|e2]; cbn; intros H; try contradiction; [|exact I].
      subst. apply res_eqv_refl.
    Qed.

    Lemma updr_comm s e1 e2 : fst e1 <> fst e2 -> res_eqv (updr (updr s e1) e2) (updr (updr s e2) e1).
    Proof.
      intros NE. destruct s as [m|e]; [|exact I]. unfold updr. cbn [bind].
      destruct (g (fst e1) (mget (fst e1) m) (snd e1)) as [x1|err1] eqn:G1;
        destruct (g (fst e2) (mget (fst e2) m) (snd e2)) as [x2|err2] eqn:G2; cbn [bind].
      - rewrite (mget_mset_other (fst e2) (fst e1)) by congruence.
        rewrite (mget_mset_other (fst e1) (fst e2)) by congruence.
        rewrite G1, G2. cbn [bind res_eqv]. apply mset_comm_gen. congruence.
      - rewrite (mget_mset_other (fst e2) (fst e1)) by congruence. rewrite G2. exact I.
      - rewrite (mget_mset_other (fst e1) (fst e2)) by congruence. rewrite G1. exact I.
      - exact I.
    Qed.

    Theorem accumulate_res_perm (l l' : list (string * V)) (acc : res (smap W)) :
      NoDup (map fst l) -> Permutation l l' -> res_eqv (fold_left updr l acc) (fold_left updr l' acc).
    Proof.
      intros ND P.
      apply (fold_perm updr res_eqv (fun a b => fst a <> fst b)).
      - apply res_eqv_refl.
      - apply res_eqv_trans.
      - intros; congruence.
      - apply updr_cong.
      - apply updr_comm.
      - exact P.
      - now apply pairwise_NoDup.
    Qed.

    Theorem accumulate_res_nested_perm {O : Type} (proj : O -> list (string * V)) (ls ls' : list O)
            (acc : res (smap W)) :
      Forall2 (fun o o' => Permutation (proj o) (proj o')) ls ls' ->
      Forall (fun o => NoDup (map fst (proj o))) ls ->
      res_eqv (fold_left (fun acc o => fold_left updr (proj o) acc) ls acc)
              (fold_left (fun acc o => fold_left updr (proj o) acc) ls' acc).
    Proof.
      intros F2 ND.
      apply (fold_nested_perm updr res_eqv (fun a b => fst a <> fst b)).
      - apply res_eqv_refl.
      - apply res_eqv_trans.
      - intros; congruence.
      - apply updr_cong.
      - apply updr_comm.
      - exact F2.
      - eapply Forall_impl; [|exact ND]. intros o. apply pairwise_NoDup.
      - apply res_eqv_refl.
    Qed.

    (** errors *)
    Lemma fold_updr_err (l : list (string * V)) e : fold_left updr l (Err e) = Err e.
    Proof. induction l as [|x r IH]; cbn [fold_left]; [reflexivity|]. exact IH. Qed.

    Lemma fold_updr_nested_err {O : Type} (proj : O -> list (string * V)) (ls : list O) e :
      fold_left (fun acc o => fold_left updr (proj o) acc) ls (Err e) = Err e.
    Proof. induction ls as [|x r IH]; cbn [fold_left]; [reflexivity|]. now rewrite fold_updr_err. Qed.

    (** if the per-key update can fail with one error class only, so does the fold *)
    Lemma fold_updr_class e0 :
      (forall k o v e, g k o v = Err e -> e = e0) ->
      forall (l : list (string * V)) acc, (forall e, acc = Err e -> e = e0) ->
      forall e, fold_left updr l acc = Err e -> e = e0.
    Proof.
      intros Hg. induction l as [|x r IH]; intros acc Hacc e; cbn [fold_left]; [apply Hacc|].
      apply IH. intros e1. destruct acc as [m|e2]; cbn [updr bind].
      - destruct (g (fst x) (mget (fst x) m) (snd x)) eqn:G; cbn [bind]; [discriminate|].
        intros [= <-]. eapply Hg; eassumption.
      - exact (Hacc e1).
    Qed.

    Lemma fold_updr_nested_class {O : Type} (proj : O -> list (string * V)) e0 :
      (forall k o v e, g k o v = Err e -> e = e0) ->
      forall (ls : list O) acc, (forall e, acc = Err e -> e = e0) ->
      forall e, fold_left (fun acc o => fold_left updr (proj o) acc) ls acc = Err e -> e = e0.
    Proof.
      intros Hg. induction ls as [|x r IH]; intros acc Hacc e; cbn [fold_left]; [apply Hacc|].
      apply IH. intros e1. now apply fold_updr_class.
    Qed.

    (** the result is canonical *)
    Lemma fold_updr_sorted (l : list (string * V)) : forall acc m,
      (forall m0, acc = Ok m0 -> msorted m0 = true) -> fold_left updr l acc = Ok m -> msorted m = true.
    Proof.
      induction l as [|x r IH]; intros acc m Hacc; cbn [fold_left]; [apply Hacc|].
      apply IH. intros m0. destruct acc as [m1|e]; cbn [updr bind]; [|discriminate].
      destruct (g (fst x) (mget (fst x) m1) (snd x)); cbn [bind]; [|discriminate].
      intros [= <-]. apply mset_msorted. now apply Hacc.
    Qed.
  End Threaded.
End PatternB.

(** *** instances of pattern B in the model *)
Section PatternBInstances.
  Context {N : Num}.

  (** PrepareCumulatedWeightsMap ([cumulated_weights] of Model/Listeners.v) *)
  Definition cw_g (mapper : string -> num -> res num) (k : string) (o : option num) (v : num) : res num :=
    do x <- mapper k v; Ok (match o with Some w => nadd w x | None => x end).

  Lemma cw_step_eq mapper (acc : res (smap num)) (kv : string * num) :
    (do m <- acc; do x <- mapper (fst kv) (snd kv);
     match mget (fst kv) m with
     | Some w => Ok (mset (fst kv) (nadd w x) m)
     | None => Ok (mset (fst kv) x m)
     end) = updr (cw_g mapper) acc kv.
  Proof.
    destruct acc as [m|e]; cbn [bind updr]; [|reflexivity]. unfold cw_g.
    destruct (mapper (fst kv) (snd kv)); cbn [bind]; [|reflexivity].
    destruct (mget (fst kv) m); reflexivity.
  Qed.

  Definition cw_init (cs : list crit) : smap num := fold_left (fun m c => mset (c_id c) nzero m) cs [].

  Lemma cw_init_sorted cs : msorted (cw_init cs) = true.
  Proof.
    unfold cw_init. assert (H : forall (m : smap num), msorted m = true ->
      msorted (fold_left (fun m c => mset (c_id c) nzero m) cs m) = true).
    { induction cs as [|c r IH]; intros m S; cbn [fold_left]; [exact S|]. apply IH. now apply mset_msorted. }
    now apply H.
  Qed.

  Lemma cumulated_weights_fold (s : state) mapper :
    cumulated_weights s mapper =
    fold_left (fun acc a => fold_left (updr (cw_g mapper)) (a_vals a) acc) (st_cons s) (Ok (cw_init (st_crits s))).
  Proof.
    unfold cumulated_weights, cw_init. apply fold_left_ext. intros acc a.
    apply fold_left_ext. intros acc2 kv. apply cw_step_eq.
  Qed.

  (** replacing the value map of every considered alternative by any permutation of it (same
      entries) does not change the result: same map when one side succeeds, and both fail
      otherwise (the mapper is a function of the entry) *)
  Theorem cumulated_weights_perm (s s' : state) (mapper : string -> num -> res num) :
    st_crits s = st_crits s' ->
    Forall2 (fun a a' => Permutation (a_vals a) (a_vals a')) (st_cons s) (st_cons s') ->
    Forall (fun a => NoDup (map fst (a_vals a))) (st_cons s) ->
    res_eqv (cumulated_weights s mapper) (cumulated_weights s' mapper).
  Proof.
    intros Ec F2 ND. rewrite !cumulated_weights_fold, <- Ec.
    now apply (accumulate_res_nested_perm (cw_g mapper) (@a_vals N)).
  Qed.

  Corollary cumulated_weights_perm_ok (s s' : state) mapper m :
    st_crits s = st_crits s' ->
    Forall2 (fun a a' => Permutation (a_vals a) (a_vals a')) (st_cons s) (st_cons s') ->
    Forall (fun a => NoDup (map fst (a_vals a))) (st_cons s) ->
    cumulated_weights s mapper = Ok m -> cumulated_weights s' mapper = Ok m.
  Proof. intros Ec F2 ND. apply res_eqv_ok. now apply cumulated_weights_perm. Qed.

  Corollary cumulated_weights_perm_verdict (s s' : state) mapper :
    st_crits s = st_crits s' ->
    Forall2 (fun a a' => Permutation (a_vals a) (a_vals a')) (st_cons s) (st_cons s') ->
    Forall (fun a => NoDup (map fst (a_vals a))) (st_cons s) ->
    is_ok (cumulated_weights s mapper) = is_ok (cumulated_weights s' mapper).
  Proof. intros Ec F2 ND. apply res_eqv_is_ok. now apply cumulated_weights_perm. Qed.

  (** when the mapper fails with one error class only (the mappers of [rank_criteria] can only
      fail with [EMissing]) the two results are equal, error included *)
  Corollary cumulated_weights_perm_eq (s s' : state) mapper e0 :
    (forall k v e, mapper k v = Err e -> e = e0) ->
    st_crits s = st_crits s' ->
    Forall2 (fun a a' => Permutation (a_vals a) (a_vals a')) (st_cons s) (st_cons s') ->
    Forall (fun a => NoDup (map fst (a_vals a))) (st_cons s) ->
    cumulated_weights s mapper = cumulated_weights s' mapper.
  Proof.
    intros Hm Ec F2 ND.
    assert (Hg : forall k o v e, cw_g mapper k o v = Err e -> e = e0).
    { intros k o v e. unfold cw_g. destruct (mapper k v) eqn:M; cbn [bind]; [discriminate|].
      intros [= <-]. eapply Hm; eassumption. }
    apply (res_eqv_eq _ _ e0).
    - now apply cumulated_weights_perm.
    - rewrite cumulated_weights_fold. apply fold_updr_nested_class; [exact Hg | discriminate].
    - rewrite cumulated_weights_fold. apply fold_updr_nested_class; [exact Hg | discriminate].
  Qed.

  Lemma cumulated_weights_sorted (s : state) mapper m :
    cumulated_weights s mapper = Ok m -> msorted m = true.
  Proof.
    rewrite cumulated_weights_fold.
    assert (H : forall (l : list alt) acc, (forall m0, acc = Ok m0 -> msorted m0 = true) ->
      fold_left (fun acc a => fold_left (updr (cw_g mapper)) (a_vals a) acc) l acc = Ok m -> msorted m = true).
    { induction l as [|a r IH]; intros acc Hacc; cbn [fold_left]; [apply Hacc|].
      apply IH. intros m0. now apply fold_updr_sorted. }
    apply H. intros m0 [= <-]. apply cw_init_sorted.
  Qed.

  (** [rank_criteria] for the methods that go through [cumulated_weights] *)
  Lemma find_wc_err id (wc : list wcrit) e : find_wc id wc = Err e -> e = EMissing.
  Proof.
    induction wc as [|x r IH]; cbn [find_wc]; [now intros [= <-]|].
    destruct (String.eqb (c_id (fst x)) id); [discriminate | exact IH].
  Qed.

  Theorem rank_criteria_perm (s s' : state) :
    st_params s = st_params s' ->
    (match st_params s with PChoquet _ _ => False | _ => True end) ->
    st_crits s = st_crits s' ->
    Forall2 (fun a a' => Permutation (a_vals a) (a_vals a')) (st_cons s) (st_cons s') ->
    Forall (fun a => NoDup (map fst (a_vals a))) (st_cons s) ->
    rank_criteria s = rank_criteria s'.
  Proof.
    intros Ep NC Ec F2 ND. unfold rank_criteria. rewrite <- Ep, <- Ec.
    destruct (st_params s); try reflexivity; try contradiction.
    - rewrite (cumulated_weights_perm_eq s s' _ EMissing); auto.
      intros k v e. destruct (find_wc k wc) eqn:F; cbn [bind]; [discriminate|].
      intros [= <-]. eapply find_wc_err; eassumption.
    - rewrite (cumulated_weights_perm_eq s s' _ EMissing); auto. discriminate.
    - rewrite (cumulated_weights_perm_eq s s' _ EMissing); auto. discriminate.
  Qed.

  (** arithmeticAverage ([average] of Model/Anchoring.v): the first reference point is copied,
      the others are accumulated key by key *)
  Definition avg_g (k : string) (o : option num) (v : num) : res num :=
    do old <- of_option o EMissing; Ok (nadd old v).

  Lemma avg_step_eq (acc : res (smap num)) (kv : string * num) :
    (do m <- acc; do old <- of_option (mget (fst kv) m) EMissing; Ok (mset (fst kv) (nadd old (snd kv)) m))
    = updr avg_g acc kv.
  Proof.
    destruct acc as [m|e]; cbn [bind updr]; [|reflexivity]. unfold avg_g.
    destruct (mget (fst kv) m); reflexivity.
  Qed.

  Definition avg_sum (rest : list (string * smap num)) (init : res (smap num)) : res (smap num) :=
    fold_left (fun acc p => fold_left (updr avg_g) (snd p) acc) rest init.

  Lemma average_unfold (p0 : string * smap num) rest :
    average (p0 :: rest) =
    do sum <- avg_sum rest (Ok (snd p0));
    let n := nofZ (Z.of_nat (List.length (p0 :: rest))) in
    if nltb none n then Ok (map (fun kv => (fst kv, ndiv (snd kv) n)) sum) else Ok sum.
  Proof.
    unfold average, avg_sum. f_equal.
    apply fold_left_ext. intros acc p. apply fold_left_ext. intros acc2 kv. apply avg_step_eq.
  Qed.

  Lemma avg_g_class k o v e : avg_g k o v = Err e -> e = EMissing.
  Proof. unfold avg_g. destruct o; cbn; [discriminate | now intros [= <-]]. Qed.

  Theorem average_perm (p0 p0' : string * smap num) (rest rest' : list (string * smap num)) :
    snd p0 = snd p0' ->
    Forall2 (fun p p' => Permutation (snd p) (snd p')) rest rest' ->
    Forall (fun p => NoDup (map fst (snd p))) rest ->
    average (p0 :: rest) = average (p0' :: rest').
  Proof.
    intros E0 F2 ND. rewrite !average_unfold.
    assert (EL : List.length (p0 :: rest) = List.length (p0' :: rest')).
    { cbn [List.length]. f_equal. clear ND. induction F2; cbn [List.length]; congruence. }
    rewrite EL, <- E0.
    assert (EF : avg_sum rest (Ok (snd p0)) = avg_sum rest' (Ok (snd p0))); [|now rewrite EF].
    unfold avg_sum. apply (res_eqv_eq _ _ EMissing).
    - now apply (accumulate_res_nested_perm avg_g (@snd string (smap num))).
    - apply fold_updr_nested_class; [exact avg_g_class | discriminate].
    - apply fold_updr_nested_class; [exact avg_g_class | discriminate].
  Qed.
End PatternBInstances.

(** ** 5. Pattern D: merge with collision check (Weights.Merge, Electre Merge, remapWeights, prepareWeights) *)
Section PatternD.
  Context {W : Type}.

  Definition merge_step (e0 : err_class) (acc : res (smap W)) (kv : string * W) : res (smap W) :=
    do m <- acc; if mhas (fst kv) m then Err e0 else Ok (mset (fst kv) (snd kv) m).

  (** the step commutes on ANY two entries: on the same key both orders collide *)
  Lemma merge_step_comm e0 s e1 e2 :
    merge_step e0 (merge_step e0 s e1) e2 = merge_step e0 (merge_step e0 s e2) e1.
  Proof.
    destruct s as [m|e]; [|reflexivity]. unfold merge_step. cbn [bind].
    destruct (string_dec (fst e1) (fst e2)) as [E|NE].
    - rewrite <- E. destruct (mhas (fst e1) m) eqn:H; cbn [bind]; [reflexivity|].
      rewrite !mhas_mset, String.eqb_refl. reflexivity.
    - assert (E12 : String.eqb (fst e1) (fst e2) = false) by now apply String.eqb_neq.
      assert (E21 : String.eqb (fst e2) (fst e1) = false) by (apply String.eqb_neq; congruence).
      destruct (mhas (fst e1) m) eqn:H1; destruct (mhas (fst e2) m) eqn:H2; cbn [bind];
        rewrite ?mhas_mset, ?E12, ?E21, ?H1, ?H2; cbn [orb]; try reflexivity.
      f_equal. apply mset_comm_gen. congruence.
  Qed.

  Lemma fold_merge_perm e0 (l l' : list (string * W)) acc :
    Permutation l l' -> fold_left (merge_step e0) l acc = fold_left (merge_step e0) l' acc.
  Proof.
    intros P. apply (fold_perm (merge_step e0) eq (fun _ _ => True)); auto.
    - intros; congruence.
    - intros; congruence.
    - intros s e1 e2 _. apply merge_step_comm.
    - apply pairwise_True.
  Qed.

  Lemma fold_merge_err e0 (l : list (string * W)) e : fold_left (merge_step e0) l (Err e) = Err e.
  Proof. induction l as [|x r IH]; cbn [fold_left]; [reflexivity | exact IH]. Qed.

  Lemma fold_merge_sorted e0 (l : list (string * W)) : forall m m',
    msorted m = true -> fold_left (merge_step e0) l (Ok m) = Ok m' -> msorted m' = true.
  Proof.
    induction l as [|x r IH]; intros m m' S; cbn [fold_left].
    - now intros [= <-].
    - cbn [merge_step bind]. destruct (mhas (fst x) m); [rewrite fold_merge_err; discriminate|].
      apply IH. now apply mset_msorted.
  Qed.
End PatternD.

Section PatternDInstances.
  Context {N : Num}.

  Lemma merge_map_fold (w add : smap num) : merge_map w add = fold_left (merge_step ECollision) add (Ok w).
  Proof. reflexivity. Qed.

  (** the merge does not depend on the order at all (neither distinct keys in [add] nor a sorted
      [w] are needed; the only error class is [ECollision]) *)
  Theorem merge_map_perm_gen (w add add' : smap num) :
    Permutation add add' -> merge_map w add = merge_map w add'.
  Proof. intros P. rewrite !merge_map_fold. now apply fold_merge_perm. Qed.

  (** the requested statements *)
  Theorem merge_map_perm (w add add' : smap num) :
    NoDup (map fst add) -> Permutation add add' -> msorted w = true -> merge_map w add = merge_map w add'.
  Proof. intros _ P _. now apply merge_map_perm_gen. Qed.

  Corollary merge_map_perm_verdict (w add add' : smap num) :
    NoDup (map fst add) -> Permutation add add' -> msorted w = true ->
    is_ok (merge_map w add) = is_ok (merge_map w add').
  Proof. intros ND P S. now rewrite (merge_map_perm w add add' ND P S). Qed.

  Lemma merge_map_sorted (w add m : smap num) : msorted w = true -> merge_map w add = Ok m -> msorted m = true.
  Proof. rewrite merge_map_fold. apply fold_merge_sorted. Qed.

  (** remapWeights: the keys are normalised first; two keys with the same normal form collide in
      either order *)
  Definition norm_key (k : string) : string := criterion_key (contained_criteria k).

  Lemma remap_weights_fold (w : list (string * num)) : forall acc,
    remap_weights w acc = fold_left (merge_step EInvalid) (map (fun kv => (norm_key (fst kv), snd kv)) w) (Ok acc).
  Proof.
    induction w as [|[k v] r IH]; intros acc; cbn [remap_weights map fold_left]; [reflexivity|].
    cbn [merge_step bind fst snd]. fold (norm_key k).
    destruct (mhas (norm_key k) acc); [now rewrite fold_merge_err | apply IH].
  Qed.

  Theorem remap_weights_perm (w w' : list (string * num)) acc :
    Permutation w w' -> remap_weights w acc = remap_weights w' acc.
  Proof. intros P. rewrite !remap_weights_fold. apply fold_merge_perm. now apply Permutation_map. Qed.

  (** prepareWeights: per-entry validation, then assignment under the normalised key WITHOUT a
      collision check: order independent when the normalised keys are distinct (which remapWeights
      has established before) *)
  Definition pw_g (names : list string) (_ : string) (_ : option num) (kv : string * num) : res num :=
    if negb (forallb (fun p => mem_str p names) (contained_criteria (fst kv))) then Err EInvalid else
    if nltb (snd kv) nzero || nltb none (snd kv) then Err EInvalid else Ok (snd kv).

  Lemma prepare_weights_fold names (w : list (string * num)) : forall acc,
    prepare_weights w names acc =
    fold_left (updr (pw_g names)) (map (fun kv => (norm_key (fst kv), kv)) w) (Ok acc).
  Proof.
    induction w as [|[k v] r IH]; intros acc; cbn [prepare_weights map fold_left]; [reflexivity|].
    cbn [updr bind fst snd]. unfold pw_g at 2. cbn [fst snd].
    destruct (negb (forallb (fun p => mem_str p names) (contained_criteria k))); cbn [bind];
      [now rewrite fold_updr_err|].
    destruct (nltb v nzero || nltb none v); cbn [bind]; [now rewrite fold_updr_err|].
    apply IH.
  Qed.

  Theorem prepare_weights_perm names (w w' : list (string * num)) acc :
    NoDup (map (fun kv => norm_key (fst kv)) w) -> Permutation w w' ->
    prepare_weights w names acc = prepare_weights w' names acc.
  Proof.
    intros ND P. rewrite !prepare_weights_fold.
    assert (Hg : forall k o v e, pw_g names k o v = Err e -> e = EInvalid).
    { intros k o v e. unfold pw_g.
      destruct (negb _); [now intros [= <-]|]. destruct (_ || _); [now intros [= <-] | discriminate]. }
    apply (res_eqv_eq _ _ EInvalid).
    - apply accumulate_res_perm; [|now apply Permutation_map].
      rewrite map_map. cbn [fst]. exact ND.
    - apply fold_updr_class; [exact Hg | discriminate].
    - apply fold_updr_class; [exact Hg | discriminate].
  Qed.
End PatternDInstances.

(** without distinct normalised keys [prepare_weights] alone is order dependent (last writer wins) *)
Example prepare_weights_order_dependent :
  let w := [("a,b", Qcanon.Q2Qc (QArith_base.Qmake 1%Z 2%positive)); ("b,a", Qcanon.Q2Qc (QArith_base.Qmake 1%Z 4%positive))] in
  @prepare_weights NumQc w ["a"; "b"] [] <> @prepare_weights NumQc (rev w) ["a"; "b"] [].
Proof.
  cbv zeta. intros H.
  assert (H' : res_eqv (@prepare_weights NumQc [("a,b", Qcanon.Q2Qc (QArith_base.Qmake 1%Z 2%positive)); ("b,a", Qcanon.Q2Qc (QArith_base.Qmake 1%Z 4%positive))] ["a"; "b"] [])
                       (@prepare_weights NumQc (rev [("a,b", Qcanon.Q2Qc (QArith_base.Qmake 1%Z 2%positive)); ("b,a", Qcanon.Q2Qc (QArith_base.Qmake 1%Z 4%positive))]) ["a"; "b"] []))
    by (rewrite H; apply res_eqv_refl).
  clear H. vm_compute in H'. discriminate H'.
Qed.

(** ** 4. Pattern C: collect, then sort
    (AsKeyValue, sortAlternativeCriteriaWeights, the OWA values, sort.Strings of the keys) *)
Section PatternC.
  Context {A : Type} (lt : A -> A -> bool).

  (** for a strict total order on the elements present, the sorted list does not depend on the
      order in which the elements were collected *)
  Theorem collect_sort_perm (l l' : list A) :
    (forall a b c, In a l -> In b l -> In c l -> lt a b = true -> lt b c = true -> lt a c = true) ->
    (forall a, In a l -> lt a a = false) ->
    (forall a b, In a l -> In b l -> lt a b = true \/ a = b \/ lt b a = true) ->
    Permutation l l' -> isort lt l = isort lt l'.
  Proof.
    intros Htr Hirr Htri P.
    assert (Hasym : forall a b, In a l -> In b l -> lt a b = true -> lt b a = false).
    { intros a b Ia Ib H. destruct (lt b a) eqn:E; [|reflexivity].
      pose proof (Htr a b a Ia Ib Ia H E) as T. rewrite (Hirr a Ia) in T. discriminate. }
    assert (Hle : forall a b c, In a l -> In b l -> In c l ->
                   SortFacts.le lt a b -> SortFacts.le lt b c -> SortFacts.le lt a c).
    { unfold SortFacts.le. intros a b c Ia Ib Ic H1 H2. destruct (lt c a) eqn:E; [|reflexivity].
      destruct (Htri a b Ia Ib) as [T|[T|T]].
      - pose proof (Htr c a b Ic Ia Ib E T). congruence.
      - subst. congruence.
      - congruence. }
    apply (sorted_perm_unique lt).
    - intros a b Ia Ib H1 H2. apply (proj1 (isort_in lt _ _)) in Ia. apply (proj1 (isort_in lt _ _)) in Ib. unfold SortFacts.le in H1, H2.
      destruct (Htri a b Ia Ib) as [T|[T|T]]; [congruence | exact T | congruence].
    - apply (isort_sorted_on lt (fun a => In a l)); auto.
      rewrite Forall_forall. auto.
    - apply (isort_sorted_on lt (fun a => In a l)); auto.
      rewrite Forall_forall. intros x Hx. eapply Permutation_in; [symmetry; exact P | exact Hx].
    - rewrite !isort_perm. exact P.
  Qed.
End PatternC.

(** strings with [String.ltb]: the sorted keys of a map, [criterion_key] *)
Theorem str_sort_perm (l l' : list string) : Permutation l l' -> str_sort l = str_sort l'.
Proof.
  intros P. unfold str_sort. apply collect_sort_perm; [| | |exact P].
  - intros a b c _ _ _. apply sltb_trans.
  - intros a _. apply sltb_irrefl.
  - intros a b _ _. apply sltb_tricho.
Qed.

Theorem criterion_key_perm (l l' : list string) : Permutation l l' -> criterion_key l = criterion_key l'.
Proof. intros P. unfold criterion_key. now rewrite (str_sort_perm l l' P). Qed.

Corollary union_weight_perm {N : Num} (l l' : list string) (w : smap num) :
  Permutation l l' -> union_weight l w = union_weight l' w.
Proof. intros P. unfold union_weight. now rewrite (criterion_key_perm l l' P). Qed.

(** entries of a map sorted by key: the keys of a map are distinct, so the order on the entries
    is strict and total on the entries present *)
Theorem entries_sort_perm {V : Type} (l l' : list (string * V)) :
  NoDup (map fst l) -> Permutation l l' ->
  isort (fun a b => String.ltb (fst a) (fst b)) l = isort (fun a b => String.ltb (fst a) (fst b)) l'.
Proof.
  intros ND P. apply collect_sort_perm; [| | |exact P].
  - intros a b c _ _ _. apply sltb_trans.
  - intros a _. apply sltb_irrefl.
  - intros a b Ia Ib. destruct (sltb_tricho (fst a) (fst b)) as [T|[T|T]]; auto.
    right; left. eapply NoDup_map_inj; eassumption.
Qed.

(** numbers: the sorted lists are pointwise [neqb]-equal (Go's [==]) *)
Section SortNum.
  Context {N : Num} {L : OrdLaws N}.

  Definition tied (x y : num) : Prop := neqb x y = true.

  Lemma tied_refl_list (l : list num) : Forall okv l -> Forall2 tied l l.
  Proof. induction 1; constructor; [now apply eqb_refl | assumption]. Qed.

  Lemma tied_trans_list (l1 l2 l3 : list num) :
    Forall okv l1 -> Forall okv l2 -> Forall okv l3 ->
    Forall2 tied l1 l2 -> Forall2 tied l2 l3 -> Forall2 tied l1 l3.
  Proof.
    intros O1 O2 O3 H. revert l3 O3. induction H as [|x y r s T H IH]; intros l3 O3 H3.
    - inversion H3. constructor.
    - inversion H3 as [|? z ? t T' H']; subst.
      inversion O1; inversion O2; inversion O3; subst.
      constructor; [eapply (eqb_trans x y z); eassumption | now apply IH].
  Qed.

  Lemma insert_okv x (l : list num) : okv x -> Forall okv l -> Forall okv (insert nltb x l).
  Proof.
    intros Ox Ol. rewrite Forall_forall in *. intros y Hy.
    apply (Permutation_in _ (insert_perm nltb x l)) in Hy. destruct Hy as [<-|Hy]; auto.
  Qed.

  Lemma isort_okv (l : list num) : Forall okv l -> Forall okv (isort nltb l).
  Proof. intros O. rewrite Forall_forall in *. intros y Hy. apply O. now apply (isort_in nltb). Qed.

  Lemma insert_tied x (s s' : list num) :
    okv x -> Forall okv s -> Forall okv s' -> Forall2 tied s s' ->
    Forall2 tied (insert nltb x s) (insert nltb x s').
  Proof.
    intros Ox Os Os' H. induction H as [|y y' r r' T H IH]; cbn [insert].
    - constructor; [now apply eqb_refl | constructor].
    - inversion Os; inversion Os'; subst.
      rewrite <- (eqb_ltb_l y y' x) by assumption.
      destruct (nltb y x).
      + constructor; [exact T | now apply IH].
      + constructor; [now apply eqb_refl|]. now constructor.
  Qed.

  Lemma nltb_false_leb x y : okv x -> okv y -> nltb x y = false -> nleb y x = true.
  Proof. intros Ox Oy H. rewrite ltb_leb in H by assumption. now apply negb_false_iff in H. Qed.

  Lemma insert_insert_tied x y (s : list num) :
    okv x -> okv y -> Forall okv s ->
    Forall2 tied (insert nltb x (insert nltb y s)) (insert nltb y (insert nltb x s)).
  Proof.
    intros Ox Oy Os. induction Os as [|z r Oz Or IH].
    - cbn [insert].
      destruct (trichotomy x y Ox Oy) as [[A [B C]]|[[A [B C]]|[A [B C]]]]; rewrite A, C; cbn [insert].
      + apply tied_refl_list. repeat constructor; assumption.
      + constructor; [exact B|]. constructor; [unfold tied; rewrite eqb_sym by assumption; exact B|]. constructor.
      + apply tied_refl_list. repeat constructor; assumption.
    - cbn [insert]. destruct (nltb z x) eqn:Zx; destruct (nltb z y) eqn:Zy; cbn [insert]; rewrite ?Zx, ?Zy.
      + constructor; [now apply eqb_refl | exact IH].
      + (* y <= z < x *)
        assert (Yx : nltb y x = true).
        { apply (leb_ltb_trans y z x); auto. now apply nltb_false_leb. }
        rewrite ?Yx; cbn [insert]; rewrite ?Zx, ?Zy, ?Yx.
        apply tied_refl_list. constructor; [assumption|]. constructor; [assumption|]. now apply insert_okv.
      + (* x <= z < y *)
        assert (Xy : nltb x y = true).
        { apply (leb_ltb_trans x z y); auto. now apply nltb_false_leb. }
        rewrite ?Xy; cbn [insert]; rewrite ?Zx, ?Zy, ?Xy.
        apply tied_refl_list. constructor; [assumption|]. constructor; [assumption|]. now apply insert_okv.
      + destruct (trichotomy x y Ox Oy) as [[A [B C]]|[[A [B C]]|[A [B C]]]]; rewrite A, C; cbn [insert]; rewrite ?Zx, ?Zy.
        * apply tied_refl_list. repeat (constructor; [assumption|]). assumption.
        * constructor; [exact B|]. constructor; [unfold tied; rewrite eqb_sym by assumption; exact B|].
          apply tied_refl_list. constructor; assumption.
        * apply tied_refl_list. repeat (constructor; [assumption|]). assumption.
  Qed.

  Theorem num_sort_perm_tied (l l' : list num) :
    Forall okv l -> Permutation l l' -> Forall2 tied (isort nltb l) (isort nltb l').
  Proof.
    intros O P. induction P as [|x l l' P IH|x y l|l l' l'' P1 IH1 P2 IH2].
    - constructor.
    - inversion O as [|? ? Ox Ol]; subst. cbn [isort].
      assert (Ol' : Forall okv l') by (eapply Permutation_Forall; eassumption).
      apply insert_tied; auto using isort_okv.
    - inversion O as [|? ? Oy O']; subst. inversion O' as [|? ? Ox Ol]; subst. cbn [isort].
      apply insert_insert_tied; auto using isort_okv.
    - assert (O' : Forall okv l') by (eapply Permutation_Forall; eassumption).
      assert (O'' : Forall okv l'') by (eapply Permutation_Forall; eassumption).
      apply (tied_trans_list _ (isort nltb l')); auto using isort_okv.
  Qed.

  (** when Go's [==] is Leibniz equality on the carrier (true on [NumQc]) the sorted lists are equal *)
  Theorem num_sort_perm (l l' : list num) :
    (forall x y : num, neqb x y = true -> x = y) ->
    Forall okv l -> Permutation l l' -> isort nltb l = isort nltb l'.
  Proof.
    intros Heq O P. pose proof (num_sort_perm_tied l l' O P) as H.
    induction H as [|x y r s T H IH]; [reflexivity|]. f_equal; [now apply Heq | exact IH].
  Qed.

  (** OWA: the values of the alternative are collected from the map and sorted *)
  Theorem owa_value_perm (wc : list wcrit) (a a' : alt) :
    (forall x y : num, neqb x y = true -> x = y) ->
    Forall okv (mvals (a_vals a)) -> Permutation (a_vals a) (a_vals a') ->
    owa_value wc a = owa_value wc a'.
  Proof.
    intros Heq O P. unfold owa_value.
    rewrite (Permutation_length P).
    rewrite (num_sort_perm (mvals (a_vals a)) (mvals (a_vals a')) Heq O); [reflexivity|].
    unfold mvals. now apply Permutation_map.
  Qed.
End SortNum.

Lemma neqb_eq_Qc (x y : @num NumQc) : neqb x y = true -> x = y.
Proof. apply neqb_iff. Qed.

Corollary num_sort_perm_Qc (l l' : list (@num NumQc)) :
  Permutation l l' -> isort nltb l = isort nltb l'.
Proof.
  intros P. apply (num_sort_perm (L := OrdQc)); [exact neqb_eq_Qc | | exact P].
  rewrite Forall_forall. intros; exact I.
Qed.

(** ** 6. Pattern E: Choquet.  The pairs (criterion, value) are collected from the map and sorted
    by value with an UNSTABLE sort: criteria with exactly equal values come in an arbitrary order. *)
Definition res_map {A B} (f : A -> B) (r : res A) : res B :=
  match r with Ok a => Ok (f a) | Err e => Err e end.

Lemma Forall2_rev' {A B} (R : A -> B -> Prop) l l' : Forall2 R l l' -> Forall2 R (rev l) (rev l').
Proof.
  induction 1 as [|x y l l' H F IH]; cbn [rev]; [constructor|].
  apply Forall2_app; [exact IH | now repeat constructor].
Qed.

Lemma sorted_app_rel {A} (R : A -> A -> Prop) (p q : list A) :
  StronglySorted R (p ++ q) -> forall x y, In x p -> In y q -> R x y.
Proof.
  induction p as [|a p IH]; intros S x y Ix Iy; [destruct Ix|].
  cbn [app] in S. inversion S as [|? ? S' F]; subst. destruct Ix as [<-|Ix].
  - rewrite Forall_forall in F. apply F. apply in_or_app. now right.
  - now apply IH.
Qed.

Lemma StronglySorted_skipn {A} (R : A -> A -> Prop) n : forall l,
  StronglySorted R l -> StronglySorted R (skipn n l).
Proof.
  induction n as [|n IH]; intros l S; [exact S|]. destruct l as [|x r]; [exact S|].
  cbn [skipn]. apply IH. now inversion S.
Qed.

Lemma Forall_skipn {A} (P : A -> Prop) n : forall l, Forall P l -> Forall P (skipn n l).
Proof.
  induction n as [|n IH]; intros l F; [exact F|]. destruct l as [|x r]; [exact F|].
  cbn [skipn]. apply IH. now inversion F.
Qed.

Lemma filter_all {A} (p : A -> bool) l : (forall x, In x l -> p x = true) -> filter p l = l.
Proof.
  induction l as [|x r IH]; intros H; cbn [filter]; [reflexivity|].
  rewrite (H x) by now left. f_equal. apply IH. intros y Hy. apply H. now right.
Qed.

Section PatternE.
  Context {N : Num} {L : OrdLaws N}.
  (** Go's [==] is Leibniz equality on the carrier (true on [NumQc]; on binary64 it fails only for
      the two zeros) *)
  Hypothesis neqb_eq : forall x y : num, neqb x y = true -> x = y.
  (** a value is within 1e-5 of itself, i.e. |x - x| <= 1e-5 (true on [NumQc] and on finite
      floats; this is the only arithmetic fact used) *)
  Hypothesis tie_refl : forall x : num, okv x -> floats_are_equal x x c_eps5 = true.

  (** ascending by value: what any correct (possibly unstable) sort by [cw_lt] returns *)
  Definition asc (s : list (string * num)) : Prop :=
    StronglySorted (fun x y => nltb (snd y) (snd x) = false) s.
  Definition okvals (s : list (string * num)) : Prop := Forall (fun x => okv (snd x)) s.

  Lemma asc_vals s : asc s -> StronglySorted (SortFacts.le nltb) (map snd s).
  Proof.
    induction 1 as [|x r S IH F]; cbn [map]; constructor; [exact IH|].
    rewrite Forall_forall in *. intros v Hv. apply in_map_iff in Hv as [y [<- Hy]].
    unfold SortFacts.le. now apply F.
  Qed.

  (** two ascending permutations hold the same values at the same positions *)
  Lemma asc_perm_vals s1 s2 :
    okvals s1 -> asc s1 -> asc s2 -> Permutation s1 s2 -> map snd s1 = map snd s2.
  Proof.
    intros O S1 S2 P. apply (sorted_perm_unique nltb).
    - intros a b Ia Ib H1 H2. unfold SortFacts.le in H1, H2.
      apply in_map_iff in Ia as [x [<- Ix]]. apply in_map_iff in Ib as [y [<- Iy]].
      unfold okvals in O. rewrite Forall_forall in O.
      apply neqb_eq.
      destruct (trichotomy (snd x) (snd y) (O x Ix) (O y Iy)) as [[A [B C]]|[[A [B C]]|[A [B C]]]]; congruence.
    - now apply asc_vals.
    - now apply asc_vals.
    - now apply Permutation_map.
  Qed.

  Lemma group_len_vals v r1 : forall r2, map snd r1 = map snd r2 -> group_len v r1 = group_len v r2.
  Proof.
    induction r1 as [|[c1 x1] r1 IH]; intros [|[c2 x2] r2] H; cbn [map] in H; try discriminate; [reflexivity|].
    injection H as H1 H2. cbn [snd] in H1. subst x2. cbn [group_len].
    destruct (floats_are_equal v x1 c_eps5); [f_equal; now apply IH | reflexivity].
  Qed.

  Lemma group_len_prefix v r : forall x,
    In x (firstn (group_len v r) r) -> floats_are_equal v (snd x) c_eps5 = true.
  Proof.
    induction r as [|[c y] r IH]; intros x; cbn [group_len]; [intros []|].
    destruct (floats_are_equal v y c_eps5) eqn:E; [|intros []].
    cbn [firstn]. intros [<-|I]; [exact E | now apply IH].
  Qed.

  Lemma group_len_next v r : forall c d t,
    skipn (group_len v r) r = (c, d) :: t -> floats_are_equal v d c_eps5 = false.
  Proof.
    induction r as [|[c0 y] r IH]; intros c d t; cbn [group_len]; [discriminate|].
    destruct (floats_are_equal v y c_eps5) eqn:E.
    - cbn [skipn]. apply IH.
    - cbn [skipn]. intros [= -> -> ->]. exact E.
  Qed.

  (** the remainder after a group is "everything not smaller than its first value": the group
      boundary never separates two exactly equal values *)
  Lemma suffix_as_filter c v rest c' d t :
    okvals ((c, v) :: rest) -> asc ((c, v) :: rest) ->
    skipn (group_len v rest) rest = (c', d) :: t ->
    filter (fun x => negb (nltb (snd x) d)) ((c, v) :: rest) = (c', d) :: t.
  Proof.
    intros O S K.
    pose proof (group_len_next v rest c' d t K) as Hd.
    set (j := group_len v rest) in *.
    assert (Esplit : (c, v) :: rest = ((c, v) :: firstn j rest) ++ (c', d) :: t).
    { cbn [app]. f_equal. rewrite <- K. symmetry. apply firstn_skipn. }
    assert (Od : okv d).
    { unfold okvals in O. rewrite Forall_forall in O.
      apply (O (c', d)). rewrite Esplit. apply in_or_app. right. now left. }
    assert (Hpre : forall x, In x ((c, v) :: firstn j rest) -> nltb (snd x) d = true).
    { intros x Ix.
      assert (Ox : okv (snd x)).
      { unfold okvals in O. rewrite Forall_forall in O. apply O. rewrite Esplit. apply in_or_app. now left. }
      assert (Cx : floats_are_equal v (snd x) c_eps5 = true).
      { destruct Ix as [<-|Ix]; [cbn [snd]; apply tie_refl; inversion O; assumption|].
        apply (group_len_prefix v rest). exact Ix. }
      assert (Le : nltb d (snd x) = false).
      { unfold asc in S. rewrite Esplit in S.
        apply (sorted_app_rel _ _ _ S x (c', d)); [exact Ix | now left]. }
      destruct (trichotomy (snd x) d Ox Od) as [[A [B C]]|[[A [B C]]|[A [B C]]]]; [exact A| |congruence].
      apply neqb_eq in B. rewrite B in Cx. congruence. }
    assert (Ssuf : asc ((c', d) :: t)).
    { rewrite <- K. apply (StronglySorted_skipn _ j rest). unfold asc in S. now inversion S. }
    assert (Hsuf : forall y, In y ((c', d) :: t) -> nltb (snd y) d = false).
    { intros y [<-|Iy]; [cbn [snd]; now apply ltb_irrefl|].
      unfold asc in Ssuf. inversion Ssuf as [|? ? _ F]; subst. rewrite Forall_forall in F.
      now apply (F y Iy). }
    rewrite Esplit, filter_app.
    rewrite (filter_none _ ((c, v) :: firstn j rest)) by (intros x Ix; now rewrite (Hpre x Ix)).
    cbn [app]. apply filter_all. intros y Iy. now rewrite (Hsuf y Iy).
  Qed.

  Lemma suffix_perm c1 c2 v rest1 rest2 :
    okvals ((c1, v) :: rest1) -> asc ((c1, v) :: rest1) -> asc ((c2, v) :: rest2) ->
    Permutation ((c1, v) :: rest1) ((c2, v) :: rest2) ->
    map snd rest1 = map snd rest2 ->
    Permutation (skipn (group_len v rest1) rest1) (skipn (group_len v rest1) rest2).
  Proof.
    intros O1 S1 S2 P Ev.
    assert (O2 : okvals ((c2, v) :: rest2)) by (unfold okvals; eapply Permutation_Forall; eassumption).
    assert (Em : map snd (skipn (group_len v rest1) rest1) = map snd (skipn (group_len v rest1) rest2)).
    { now rewrite <- !skipn_map, Ev. }
    destruct (skipn (group_len v rest1) rest1) as [|[c' d] t1] eqn:K1.
    - cbn [map] in Em. symmetry in Em. apply map_eq_nil in Em. rewrite Em. constructor.
    - destruct (skipn (group_len v rest1) rest2) as [|[c'' d'] t2] eqn:K2; [discriminate|].
      cbn [map snd] in Em. injection Em as Ed _. subst d'.
      rewrite <- (suffix_as_filter c1 v rest1 c' d t1 O1 S1 K1).
      rewrite (group_len_vals v rest1 rest2 Ev) in K2.
      rewrite <- (suffix_as_filter c2 v rest2 c'' d t2 O2 S2 K2).
      now apply Permutation_filter'.
  Qed.

  (** components: the criteria of a group are the same set, the added value is the same number *)
  Definition comp_eqv (c1 c2 : list string * num) : Prop :=
    Permutation (fst c1) (fst c2) /\ snd c1 = snd c2.

  Definition ct_eqv (r1 r2 : res (num * list (list string * num))) : Prop :=
    match r1, r2 with
    | Ok x1, Ok x2 => fst x1 = fst x2 /\ Forall2 comp_eqv (snd x1) (snd x2)
    | Err e1, Err e2 => e1 = e2
    | _, _ => False
    end.

  Lemma choquet_total_S f c v rest (w : smap num) prev acc comps :
    choquet_total (S f) ((c, v) :: rest) w prev acc comps =
    do mu <- union_weight (map fst ((c, v) :: rest)) w;
    choquet_total f (skipn (group_len v rest) rest) w v (nadd acc (nmul mu (nsub v prev)))
                  ((map fst ((c, v) :: rest), nmul mu (nsub v prev)) :: comps).
  Proof. reflexivity. Qed.

  Lemma choquet_total_tie (w : smap num) fuel : forall s1 s2 prev acc comps1 comps2,
    okvals s1 -> asc s1 -> asc s2 -> Permutation s1 s2 -> Forall2 comp_eqv comps1 comps2 ->
    ct_eqv (choquet_total fuel s1 w prev acc comps1) (choquet_total fuel s2 w prev acc comps2).
  Proof.
    induction fuel as [|f IH]; intros s1 s2 prev acc comps1 comps2 O S1 S2 P HC; [reflexivity|].
    destruct s1 as [|[c1 v1] r1].
    - apply Permutation_nil in P. subst s2. cbn [choquet_total ct_eqv fst snd].
      split; [reflexivity | now apply Forall2_rev'].
    - destruct s2 as [|[c2 v2] r2]; [apply Permutation_sym, Permutation_nil in P; discriminate|].
      pose proof (asc_perm_vals _ _ O S1 S2 P) as Ev. cbn [map snd] in Ev. injection Ev as Ev1 Ev2. subst v2.
      rewrite !choquet_total_S.
      rewrite <- (union_weight_perm _ _ w (Permutation_map fst P)).
      destruct (union_weight (map fst ((c1, v1) :: r1)) w) as [mu|e]; cbn [bind]; [|reflexivity].
      rewrite <- (group_len_vals v1 r1 r2 Ev2).
      apply IH.
      + apply Forall_skipn. unfold okvals in O. now inversion O.
      + apply StronglySorted_skipn. unfold asc in S1. now inversion S1.
      + apply StronglySorted_skipn. unfold asc in S2. now inversion S2.
      + now apply (suffix_perm c1 c2 v1 r1 r2).
      + constructor; [|exact HC]. split; cbn [fst snd]; [|reflexivity].
        exact (Permutation_map fst P).
  Qed.

  (** the requested statement: the value (first component) is the same *)
  Theorem choquet_tie_order_irrelevant fuel (s1 s2 : list (string * num)) (w : smap num) prev acc comps :
    okvals s1 -> asc s1 -> asc s2 -> Permutation s1 s2 ->
    res_map fst (choquet_total fuel s1 w prev acc comps) = res_map fst (choquet_total fuel s2 w prev acc comps).
  Proof.
    intros O S1 S2 P.
    assert (HC : Forall2 comp_eqv comps comps).
    { clear. induction comps; constructor; [split; reflexivity | assumption]. }
    pose proof (choquet_total_tie w fuel s1 s2 prev acc comps comps O S1 S2 P HC) as H.
    destruct (choquet_total fuel s1 w prev acc comps) as [[x1 y1]|e1],
             (choquet_total fuel s2 w prev acc comps) as [[x2 y2]|e2]; cbn in H |- *; try contradiction.
    - destruct H as [-> _]. reflexivity.
    - now subst.
  Qed.

  (** [isort cw_lt] returns an ascending list *)
  Lemma isort_cw_asc (l : list (string * num)) : okvals l -> asc (isort cw_lt l).
  Proof.
    intros O. unfold asc.
    apply (isort_sorted_on cw_lt (fun x => okv (snd x))); [| |exact O].
    - unfold SortFacts.le, cw_lt. intros a b c Oa Ob Oc H1 H2.
      rewrite ltb_leb in * by assumption. apply negb_false_iff in H1, H2. apply negb_false_iff.
      now apply (leb_trans (snd a) (snd b) (snd c)).
    - unfold SortFacts.le, cw_lt. intros a b Oa Ob H.
      destruct (trichotomy (snd a) (snd b) Oa Ob) as [[A [B C]]|[[A [B C]]|[A [B C]]]]; congruence.
  Qed.

  (** whatever ascending permutation of the entries the unstable sort returns, the Choquet value
      and the components (criteria sets, added values) are those computed by the model *)
  Theorem choquet_unstable_sort_irrelevant (w : smap num) (a : alt) (sorted' : list (string * num)) :
    okvals (a_vals a) -> asc sorted' -> Permutation sorted' (a_vals a) ->
    ct_eqv (choquet_components w a) (choquet_total (S (List.length sorted')) sorted' w nzero nzero []).
  Proof.
    intros O S P. unfold choquet_components.
    assert (P' : Permutation (isort cw_lt (a_vals a)) sorted').
    { rewrite isort_perm. now symmetry. }
    rewrite (Permutation_length P').
    apply choquet_total_tie.
    - unfold okvals. eapply Permutation_Forall; [symmetry; apply isort_perm | exact O].
    - now apply isort_cw_asc.
    - exact S.
    - exact P'.
    - constructor.
  Qed.

  (** in particular the model's result does not depend on the order in which the entries of the
      alternative's map are collected *)
  Theorem choquet_components_perm (w : smap num) (a a' : alt) :
    okvals (a_vals a) -> Permutation (a_vals a) (a_vals a') ->
    ct_eqv (choquet_components w a) (choquet_components w a').
  Proof.
    intros O P.
    assert (O' : okvals (a_vals a')) by (unfold okvals; eapply Permutation_Forall; eassumption).
    unfold choquet_components at 2.
    apply choquet_unstable_sort_irrelevant; [exact O | now apply isort_cw_asc|].
    rewrite isort_perm. now symmetry.
  Qed.

  Theorem choquet_value_perm (w : smap num) (a a' : alt) :
    okvals (a_vals a) -> Permutation (a_vals a) (a_vals a') ->
    choquet_value w a = choquet_value w a'.
  Proof.
    intros O P. unfold choquet_value.
    pose proof (choquet_components_perm w a a' O P) as H.
    destruct (choquet_components w a) as [x1|e1], (choquet_components w a') as [x2|e2];
      cbn in H |- *; try contradiction.
    - destruct H as [-> _]. reflexivity.
    - now subst.
  Qed.
  (** *** decomposeWeights ([choquet_decompose] of Model/Listeners.v): pattern B over the components *)
  Lemma NoDup_skipn {A} n : forall (l : list A), NoDup l -> NoDup (skipn n l).
  Proof.
    induction n as [|n IH]; intros l ND; [exact ND|]. destruct l as [|x r]; [exact ND|].
    cbn [skipn]. apply IH. now inversion ND.
  Qed.

  Lemma choquet_total_nodup (w : smap num) fuel : forall s prev acc comps r,
    NoDup (map fst s) -> Forall (fun c => NoDup (fst c)) comps ->
    choquet_total fuel s w prev acc comps = Ok r -> Forall (fun c => NoDup (fst c)) (snd r).
  Proof.
    induction fuel as [|f IH]; intros s prev acc comps r ND HC; [discriminate|].
    destruct s as [|[c v] rest].
    - cbn [choquet_total]. intros [= <-]. cbn [snd]. now apply Forall_rev.
    - rewrite choquet_total_S. destruct (union_weight _ w) as [mu|e]; cbn [bind]; [|discriminate].
      apply IH.
      + rewrite <- skipn_map. apply NoDup_skipn. cbn [map] in ND. now inversion ND.
      + constructor; [exact ND | exact HC].
  Qed.

  Definition decomp_comp (acc : res (smap num)) (comp : list string * num) : res (smap num) :=
    fold_left (updr avg_g) (map (fun c => (c, snd comp)) (fst comp)) acc.

  Lemma fold_left_map' {A B C} (f : A -> C -> A) (h : B -> C) (l : list B) : forall a,
    fold_left f (map h l) a = fold_left (fun a x => f a (h x)) l a.
  Proof. induction l as [|x r IH]; intros a; cbn [map fold_left]; [reflexivity | apply IH]. Qed.

  Lemma decomp_comp_model (acc : res (smap num)) (comp : list string * num) :
    fold_left (fun acc3 c => do m3 <- acc3;
                             match mget c m3 with
                             | Some x => Ok (mset c (nadd x (snd comp)) m3)
                             | None => Err EMissing
                             end) (fst comp) acc = decomp_comp acc comp.
  Proof.
    unfold decomp_comp. rewrite fold_left_map'. apply fold_left_ext.
    intros [m|e] c; cbn [updr bind fst snd]; [|reflexivity]. unfold avg_g.
    destruct (mget c m); reflexivity.
  Qed.

  Lemma decomp_comp_eqv (c1 c2 : list string * num) acc :
    comp_eqv c1 c2 -> NoDup (fst c1) -> decomp_comp acc c1 = decomp_comp acc c2.
  Proof.
    intros [P E] ND. unfold decomp_comp. rewrite <- E.
    destruct acc as [m|e]; [|now rewrite !fold_updr_err].
    apply (res_eqv_eq _ _ EMissing).
    - apply accumulate_res_perm; [|now apply Permutation_map].
      rewrite map_map. cbn [fst]. now rewrite map_id.
    - apply fold_updr_class; [exact avg_g_class | discriminate].
    - apply fold_updr_class; [exact avg_g_class | discriminate].
  Qed.

  Lemma decomp_comps_eqv (cs1 cs2 : list (list string * num)) :
    Forall2 comp_eqv cs1 cs2 -> Forall (fun c => NoDup (fst c)) cs1 ->
    forall acc, fold_left decomp_comp cs1 acc = fold_left decomp_comp cs2 acc.
  Proof.
    induction 1 as [|c1 c2 r1 r2 HC F IH]; intros ND acc; cbn [fold_left]; [reflexivity|].
    inversion ND; subst. rewrite (decomp_comp_eqv c1 c2 acc) by assumption. now apply IH.
  Qed.

  Definition decomp_alt (w : smap num) (acc : res (smap num)) (a : alt) : res (smap num) :=
    do m <- acc; do comps <- choquet_components w a; fold_left decomp_comp (snd comps) (Ok m).

  Lemma choquet_decompose_fold (s : state) (w : smap num) :
    choquet_decompose s w = fold_left (decomp_alt w) (st_cons s) (Ok (cw_init (st_crits s))).
  Proof.
    unfold choquet_decompose, cw_init. apply fold_left_ext. intros acc a. unfold decomp_alt.
    destruct acc as [m|e]; cbn [bind]; [|reflexivity].
    destruct (choquet_components w a) as [comps|e]; cbn [bind]; [|reflexivity].
    apply fold_left_ext. intros acc2 comp. apply decomp_comp_model.
  Qed.

  Lemma decomp_alt_perm (w : smap num) acc (a a' : alt) :
    okvals (a_vals a) -> NoDup (map fst (a_vals a)) -> Permutation (a_vals a) (a_vals a') ->
    decomp_alt w acc a = decomp_alt w acc a'.
  Proof.
    intros O ND P. unfold decomp_alt. destruct acc as [m|e]; cbn [bind]; [|reflexivity].
    pose proof (choquet_components_perm w a a' O P) as H.
    destruct (choquet_components w a) as [x1|e1] eqn:K1, (choquet_components w a') as [x2|e2];
      cbn in H |- *; try contradiction; [|now subst].
    destruct H as [_ HC]. apply decomp_comps_eqv; [exact HC|].
    unfold choquet_components in K1.
    apply (choquet_total_nodup w _ _ _ _ _ x1) in K1; [exact K1| |constructor].
    eapply Permutation_NoDup; [|exact ND].
    apply Permutation_map. symmetry. apply isort_perm.
  Qed.

  Theorem choquet_decompose_perm (s s' : state) (w : smap num) :
    st_crits s = st_crits s' ->
    Forall2 (fun a a' => Permutation (a_vals a) (a_vals a')) (st_cons s) (st_cons s') ->
    Forall (fun a => NoDup (map fst (a_vals a))) (st_cons s) ->
    Forall (fun a => okvals (a_vals a)) (st_cons s) ->
    choquet_decompose s w = choquet_decompose s' w.
  Proof.
    intros Ec F2 ND O. rewrite !choquet_decompose_fold, <- Ec.
    generalize (Ok (cw_init (st_crits s))) as acc.
    induction F2 as [|a a' l l' P F2 IH]; intros acc; cbn [fold_left]; [reflexivity|].
    inversion ND; inversion O; subst.
    rewrite (decomp_alt_perm w acc a a') by assumption. now apply IH.
  Qed.

  (** RankCriteriaAscending, every method *)
  Theorem rank_criteria_perm_all (s s' : state) :
    st_params s = st_params s' ->
    st_crits s = st_crits s' ->
    Forall2 (fun a a' => Permutation (a_vals a) (a_vals a')) (st_cons s) (st_cons s') ->
    Forall (fun a => NoDup (map fst (a_vals a))) (st_cons s) ->
    Forall (fun a => okvals (a_vals a)) (st_cons s) ->
    rank_criteria s = rank_criteria s'.
  Proof.
    intros Ep Ec F2 ND O.
    destruct (st_params s) eqn:K; try (apply rank_criteria_perm; auto; now rewrite K).
    unfold rank_criteria. rewrite <- Ep, K, <- Ec.
    now rewrite (choquet_decompose_perm s s' w Ec F2 ND O).
  Qed.
End PatternE.

(** the two hypotheses of pattern E hold on [NumQc] *)
Lemma tie_refl_Qc (x : @num NumQc) : @okv NumQc OrdQc x -> floats_are_equal x x c_eps5 = true.
Proof.
  intros _. unfold floats_are_equal.
  assert (E : @nsub NumQc x x = Qcanon.Q2Qc (QArith_base.Qmake 0%Z 1%positive)).
  { cbn [nsub NumQc]. unfold Qcanon.Qcminus. apply Qcanon.Qcplus_opp_r. }
  rewrite E. reflexivity.
Qed.

Theorem choquet_tie_order_irrelevant_Qc fuel (s1 s2 : list (string * @num NumQc)) (w : smap (@num NumQc)) prev acc comps :
  asc s1 -> asc s2 -> Permutation s1 s2 ->
  res_map fst (choquet_total fuel s1 w prev acc comps) = res_map fst (choquet_total fuel s2 w prev acc comps).
Proof.
  intros S1 S2 P. apply (choquet_tie_order_irrelevant (L := OrdQc) neqb_eq_Qc tie_refl_Qc); auto.
  unfold okvals. rewrite Forall_forall. intros; exact I.
Qed.

Theorem choquet_value_perm_Qc (w : smap (@num NumQc)) (a a' : @alt NumQc) :
  Permutation (a_vals a) (a_vals a') -> choquet_value w a = choquet_value w a'.
Proof.
  intros P. apply (choquet_value_perm (L := OrdQc) neqb_eq_Qc tie_refl_Qc); auto.
  unfold okvals. rewrite Forall_forall. intros; exact I.
Qed.

Theorem rank_criteria_perm_Qc (s s' : @state NumQc) :
  st_params s = st_params s' ->
  st_crits s = st_crits s' ->
  Forall2 (fun a a' => Permutation (a_vals a) (a_vals a')) (st_cons s) (st_cons s') ->
  Forall (fun a => NoDup (map fst (a_vals a))) (st_cons s) ->
  rank_criteria s = rank_criteria s'.
Proof.
  intros Ep Ec F2 ND. apply (rank_criteria_perm_all (L := OrdQc) neqb_eq_Qc tie_refl_Qc); auto.
  rewrite Forall_forall. intros a _. unfold okvals. rewrite Forall_forall. intros; exact I.
Qed.

(** ** Assumptions *)
Print Assumptions mset_comm_gen.
Print Assumptions mset_comm.
Print Assumptions mset_idem.
Print Assumptions mget_mset.
Print Assumptions msorted_ext.
Print Assumptions assign_perm.
Print Assumptions accumulate_perm.
Print Assumptions accumulate_nested_perm.
Print Assumptions accumulate_res_perm.
Print Assumptions accumulate_res_nested_perm.
Print Assumptions cumulated_weights_perm.
Print Assumptions cumulated_weights_perm_eq.
Print Assumptions rank_criteria_perm.
Print Assumptions average_perm.
Print Assumptions merge_map_perm_gen.
Print Assumptions merge_map_perm.
Print Assumptions merge_map_perm_verdict.
Print Assumptions remap_weights_perm.
Print Assumptions prepare_weights_perm.
Print Assumptions prepare_weights_order_dependent.
Print Assumptions collect_sort_perm.
Print Assumptions str_sort_perm.
Print Assumptions criterion_key_perm.
Print Assumptions entries_sort_perm.
Print Assumptions num_sort_perm_tied.
Print Assumptions num_sort_perm.
Print Assumptions num_sort_perm_Qc.
Print Assumptions owa_value_perm.
Print Assumptions choquet_tie_order_irrelevant.
Print Assumptions choquet_unstable_sort_irrelevant.
Print Assumptions choquet_components_perm.
Print Assumptions choquet_value_perm.
Print Assumptions choquet_decompose_perm.
Print Assumptions rank_criteria_perm_all.
Print Assumptions choquet_tie_order_irrelevant_Qc.
Print Assumptions choquet_value_perm_Qc.
Print Assumptions rank_criteria_perm_Qc.
