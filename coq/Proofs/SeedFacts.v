(** * C02 (part): every random choice of a decision is a function of the seeds carried in the request.

    All randomness and [math.Exp] of the model come from the environment [e : env]
    ([new_rng e seed] looks the stream of a seed up, [exp_oracle e x] the exp table).
    This file proves that [decide e req] depends on [e] only through the streams of the
    seeds named in the request ([seeds_of req]) and through the exp oracle. *)
From Coq Require Import ZArith Bool List String Lia.
From RDM Require Import Base.Num Base.Util Model.Data Model.Rank Model.Utility Model.Levels Model.Heuristics
  Model.Electre Model.Listeners Model.Biases Model.Anchoring Model.Pipeline Proofs.WfFacts Proofs.BiasStructFacts.
Import ListNotations.
Local Open Scope string_scope.
Local Open Scope list_scope.

(** ** 0. generic congruence lemmas (no functional extensionality) *)
Lemma bind_cong {A B} (r r' : res A) (f g : A -> res B) :
  r = r' -> (forall x, r = Ok x -> f x = g x) -> bind r f = bind r' g.
Proof. intros <- H. destruct r as [a|]; cbn [bind]; [now apply H|reflexivity]. Qed.

Lemma fold_left_cong {A B} (f g : A -> B -> A) (l : list B) :
  (forall a b, In b l -> f a b = g a b) -> forall a a', a = a' -> fold_left f l a = fold_left g l a'.
Proof.
  induction l as [|x r IH]; intros H a a' <-; cbn [fold_left]; [reflexivity|].
  apply IH.
  - intros a0 b Hb. apply H. now right.
  - apply H. now left.
Qed.

Lemma mapM_cong {A B} (f g : A -> res B) (l : list A) :
  (forall a, In a l -> f a = g a) -> mapM f l = mapM g l.
Proof.
  induction l as [|x r IH]; intros H; cbn [mapM]; [reflexivity|].
  rewrite (H x) by now left. rewrite IH; [reflexivity|].
  intros a Ha. apply H. now right.
Qed.

Lemma zip_seq_In {B} : forall (l : list B) (a n : nat) (ir : nat * B),
  In ir (zip (seq a n) l) -> (a <= fst ir < a + n)%nat.
Proof.
  induction l as [|y s IH]; intros a n ir H.
  - destruct n; cbn [seq zip] in H; destruct H.
  - destruct n as [|n]; cbn [seq zip] in H; [destruct H|].
    destruct H as [<-|H]; [cbn [fst]; lia|].
    apply IH in H. lia.
Qed.

Lemma flat_map_filter_incl {A B} (f : A -> list B) (p : A -> bool) (l : list A) :
  incl (flat_map f (filter p l)) (flat_map f l).
Proof.
  intros x H. apply in_flat_map in H as (a & Ha & Hx). apply filter_In in Ha as [Ha _].
  apply in_flat_map. now exists a.
Qed.

(** rewriting with every stream agreement in the context *)
Ltac rw_rng :=
  repeat match goal with H : new_rng _ _ = new_rng _ _ |- _ => rewrite H end.

(** structural descent: the two sides differ only in the environment; [tac] closes the leaves *)
Ltac envt tac :=
  cbv beta zeta; rw_rng;
  lazymatch goal with
  | |- ?x = ?y =>
      first
        [ constr_eq x y; reflexivity
        | lazymatch goal with
          | |- bind _ _ = bind _ _ => apply bind_cong; [ envt tac | intros ? ?; envt tac ]
          | |- fold_left _ ?l _ = fold_left _ ?l _ => apply fold_left_cong; [ intros ? ? ?; envt tac | envt tac ]
          | |- mapM _ ?l = mapM _ ?l => apply mapM_cong; intros ? ?; envt tac
          | |- match ?a with _ => _ end = match ?b with _ => _ end =>
              first [ constr_eq a b; destruct a; envt tac
                    | let E := fresh "E" in
                      assert (E : a = b); [ envt tac | rewrite E; clear E; destruct b; envt tac ] ]
          | |- _ => try (solve [tac])
          end ]
  end.

(** ** 1. agreement of two environments on a list of seeds *)
Section Agree.
  Context {N : Num}.

  Definition env_agree (e e' : env) (seeds : list Z) : Prop :=
    (forall s, In s seeds -> new_rng e s = new_rng e' s) /\ (forall x, exp_oracle e x = exp_oracle e' x).

  Lemma env_agree_refl e seeds : env_agree e e seeds.
  Proof. split; reflexivity. Qed.

  Lemma env_agree_sym e e' seeds : env_agree e e' seeds -> env_agree e' e seeds.
  Proof. intros [A B]. split; [intros s Hs; symmetry; now apply A|intros x; symmetry; apply B]. Qed.

  Lemma env_agree_trans e1 e2 e3 seeds : env_agree e1 e2 seeds -> env_agree e2 e3 seeds -> env_agree e1 e3 seeds.
  Proof.
    intros [A B] [A' B']. split.
    - intros s Hs. rewrite (A s Hs). now apply A'.
    - intros x. rewrite B. apply B'.
  Qed.

  Lemma env_agree_incl e e' seeds seeds' : incl seeds' seeds -> env_agree e e' seeds -> env_agree e e' seeds'.
  Proof. intros I [A B]. split; [intros s Hs; apply A; now apply I|exact B]. Qed.

  (** the seed read by the evaluation of a heuristic: it is stored in the parameters of the state *)
  Definition seed_of (p : mparams) : list Z :=
    match p with
    | PMajority _ _ seed _ _ => [seed]
    | PAspect _ _ seed _ _ => [seed]
    | PSatisf _ _ seed _ _ => [seed]
    | _ => []
    end.

  (** the seeds read by one bias: [randomSeed] (orderings, fatigue, concealment, mixing, and the
      new-criterion applier of anchoring with [randomSeed + index of the reference point]) and the
      seed of the reference criterion *)
  Definition bprops_seeds (p : bprops) : list Z :=
    [bp_seed p; bp_ref_seed p; (bp_seed p + 0)%Z; (bp_seed p + 1)%Z].

  (** the seeds actually needed (the model has exactly one reference point, index 0) *)
  Definition bprops_seeds_min (p : bprops) : list Z := [bp_seed p; bp_ref_seed p].

  Lemma bprops_seeds_min_incl p : incl (bprops_seeds_min p) (bprops_seeds p).
  Proof. intros s [<-|[<-|[]]]; cbn [bprops_seeds In]; auto. Qed.

  Definition biases_seeds (bs : list biasreq) : list Z := flat_map (fun b => bprops_seeds (b_props b)) bs.
  Definition biases_seeds_min (bs : list biasreq) : list Z := flat_map (fun b => bprops_seeds_min (b_props b)) bs.

  Definition seeds_of (req : request) : list Z :=
    r_seed req :: rp_seed (r_mp req) :: biases_seeds (r_biases req).

  (** sharper: only the enabled biases, only the two seeds a bias really reads *)
  Definition seeds_min (req : request) : list Z :=
    r_seed req :: rp_seed (r_mp req) :: biases_seeds_min (enabled_biases req).

  Lemma seeds_min_incl req : incl (seeds_min req) (seeds_of req).
  Proof.
    unfold seeds_min, seeds_of. intros s [<-|[<-|H]]; [now left|right; now left|].
    right; right. unfold biases_seeds_min, enabled_biases in H. apply flat_map_filter_incl in H.
    apply in_flat_map in H as (b & Hb & Hs). apply in_flat_map. exists b. split; [exact Hb|].
    now apply bprops_seeds_min_incl.
  Qed.
End Agree.

(** ** 2. the biases preserve the seed stored in the parameters *)
Section SeedPreserved.
  Context {N : Num}.

  Lemma on_criteria_removed_seed left p p' : on_criteria_removed left p = Ok p' -> seed_of p' = seed_of p.
  Proof.
    unfold on_criteria_removed. intros H.
    destruct p as [wc|wc|w cs|ecs f|w cur seed rnd dr|fn lp seed w rnd|fn lp seed cur rnd].
    - destruct (mapM _ left); cbn [bind] in H; [|discriminate]. injection H as <-. reflexivity.
    - destruct (mapM _ left); cbn [bind] in H; [|discriminate]. injection H as <-. reflexivity.
    - match type of H with bind ?x _ = _ => destruct x end; cbn [bind] in H; [|discriminate].
      injection H as <-. reflexivity.
    - match type of H with bind ?x _ = _ => destruct x end; cbn [bind] in H; [|discriminate].
      injection H as <-. reflexivity.
    - destruct (preserve_only w left); cbn [bind] in H; [|discriminate]. injection H as <-. reflexivity.
    - destruct (levels_removed Increasing fn lp left); cbn [bind] in H; [|discriminate].
      destruct (preserve_only w left); cbn [bind] in H; [|discriminate]. injection H as <-. reflexivity.
    - destruct (levels_removed Decreasing fn lp left); cbn [bind] in H; [|discriminate].
      injection H as <-. reflexivity.
  Qed.

  Lemma merge_seed p a p' : merge p a = Ok p' -> seed_of p' = seed_of p.
  Proof.
    unfold merge. intros H.
    destruct p as [wc|wc|w cs|ecs f|w cur seed rnd dr|fn lp seed w rnd|fn lp seed cur rnd];
      destruct a as [c x|nw c|id ec|id x ths|id ths|]; try discriminate.
    - injection H as <-. reflexivity.
    - match type of H with (if ?b then _ else _) = _ => destruct b end; [discriminate|].
      injection H as <-. reflexivity.
    - destruct (merge_map w nw); cbn [bind] in H; [|discriminate]. injection H as <-. reflexivity.
    - destruct (mhas id ecs); [discriminate|]. injection H as <-. reflexivity.
    - destruct (merge_map w _); cbn [bind] in H; [|discriminate]. injection H as <-. reflexivity.
    - destruct (levels_merge Increasing fn lp id ths); cbn [bind] in H; [|discriminate].
      destruct (merge_map w _); cbn [bind] in H; [|discriminate]. injection H as <-. reflexivity.
    - destruct (levels_merge Decreasing fn lp id ths); cbn [bind] in H; [|discriminate].
      injection H as <-. reflexivity.
  Qed.

  Lemma apply_omission_seed e cur p st rep :
    apply_omission e cur p = Ok (st, rep) -> seed_of (st_params st) = seed_of (st_params cur).
  Proof.
    unfold apply_omission. intros H.
    destruct (negb (is_probability (bp_ratio p)) || (bp_max p <? bp_min p)%Z); [discriminate|].
    destruct (order_criteria e cur p) as [sorted|]; cbn [bind] in H; [|discriminate].
    destruct (split_criteria sorted p) as [[lft rgt]|]; cbn [bind] in H; [|discriminate].
    destruct (on_criteria_removed rgt (st_params cur)) as [params|] eqn:R; cbn [bind] in H; [|discriminate].
    destruct (mapM _ (st_cons cur)) as [consd|]; cbn [bind] in H; [|discriminate].
    destruct (mapM _ (st_notcons cur)) as [nconsd|]; cbn [bind] in H; [|discriminate].
    injection H as <- _. cbn [st_params]. now apply on_criteria_removed_seed in R.
  Qed.

  Lemma apply_reversal_seed e cur p st rep :
    apply_reversal e cur p = Ok (st, rep) -> seed_of (st_params st) = seed_of (st_params cur).
  Proof.
    unfold apply_reversal. intros H.
    destruct (negb (is_probability (bp_ratio p)) || (bp_max p <? bp_min p)%Z); [discriminate|].
    destruct (order_criteria e cur p) as [sorted|]; cbn [bind] in H; [|discriminate].
    destruct (split_criteria sorted p) as [lr|]; cbn [bind] in H; [|discriminate].
    cbv zeta in H.
    destruct (mapM _ (fst lr)) as [items|]; cbn [bind] in H; [|discriminate].
    destruct (mapM _ (all_alts cur)) as [new_all|]; cbn [bind] in H; [|discriminate].
    destruct (update_alts (st_cons cur) new_all) as [consd|]; cbn [bind] in H; [|discriminate].
    destruct (update_alts (st_notcons cur) new_all) as [nconsd|]; cbn [bind] in H; [|discriminate].
    injection H as <- _. reflexivity.
  Qed.

  Lemma apply_fatigue_seed e cur p st rep :
    apply_fatigue e cur p = Ok (st, rep) -> seed_of (st_params st) = seed_of (st_params cur).
  Proof.
    unfold apply_fatigue. intros H.
    destruct (fatigue_ratio e p) as [f|]; cbn [bind] in H; [|discriminate].
    destruct (negb (valid_bounding p)); [discriminate|].
    destruct (mapM _ (st_crits cur)) as [crs|]; cbn [bind] in H; [|discriminate].
    destruct (blur_alts crs (st_cons cur) p f _ _ []) as [[[consd gv] gs]|]; cbn [bind] in H; [|discriminate].
    destruct (blur_alts crs (st_notcons cur) p f gv gs []) as [[[nconsd gv2] gs2]|]; cbn [bind] in H; [|discriminate].
    injection H as <- _. reflexivity.
  Qed.

  Lemma apply_concealment_seed e cur p st rep :
    apply_concealment e cur p = Ok (st, rep) -> seed_of (st_params st) = seed_of (st_params cur).
  Proof.
    unfold apply_concealment. intros H.
    destruct (neqb (bp_new_scaling p) nzero); [discriminate|].
    destruct (negb (valid_bounding p)); [discriminate|].
    cbv zeta in H.
    destruct (rank_criteria cur) as [ranked|]; cbn [bind] in H; [|discriminate].
    destruct (reference_criterion e ranked p) as [ref|]; cbn [bind] in H; [|discriminate].
    destruct (values_range (all_alts cur) ref) as [rr|]; cbn [bind] in H; [|discriminate].
    match type of H with bind ?x _ = _ => destruct x as [[[new_all values] g2]|] end; cbn [bind] in H; [|discriminate].
    destruct (update_alts (st_cons cur) new_all) as [consd|]; cbn [bind] in H; [|discriminate].
    destruct (update_alts (st_notcons cur) new_all) as [nconsd|]; cbn [bind] in H; [|discriminate].
    destruct (on_criterion_added _ ref (st_params cur) g2) as [ag|]; cbn [bind] in H; [|discriminate].
    destruct (merge (st_params cur) (fst ag)) as [params|] eqn:M; cbn [bind] in H; [|discriminate].
    destruct (add_criterion (st_crits cur) _) as [crits|]; cbn [bind] in H; [|discriminate].
    injection H as <- _. cbn [st_params]. now apply merge_seed in M.
  Qed.

  Lemma apply_mixing_seed e cur p st rep :
    apply_mixing e cur p = Ok (st, rep) -> seed_of (st_params st) = seed_of (st_params cur).
  Proof.
    unfold apply_mixing. intros H.
    destruct (Nat.ltb (List.length (st_crits cur)) 2).
    { injection H as <- _. reflexivity. }
    destruct (negb (is_probability (bp_mix_ratio p))); [discriminate|].
    cbv zeta in H.
    destruct (draw (new_rng e (bp_seed p))) as [d1|]; cbn [bind] in H; [|discriminate].
    destruct (draw (snd d1)) as [d2|]; cbn [bind] in H; [|discriminate].
    match type of H with bind ?x _ = _ => destruct x as [c1|] end; cbn [bind] in H; [|discriminate].
    match type of H with bind ?x _ = _ => destruct x as [c2|] end; cbn [bind] in H; [|discriminate].
    destruct (rank_criteria cur) as [ranked|]; cbn [bind] in H; [|discriminate].
    destruct (reference_criterion e ranked p) as [ref|]; cbn [bind] in H; [|discriminate].
    destruct (values_range (all_alts cur) ref) as [rr|]; cbn [bind] in H; [|discriminate].
    destruct (rescale_criterion c1 (all_alts cur) _) as [v1|]; cbn [bind] in H; [|discriminate].
    destruct (rescale_criterion c2 (all_alts cur) _) as [v2|]; cbn [bind] in H; [|discriminate].
    match type of H with bind ?x _ = _ => destruct x as [mixed|] end; cbn [bind] in H; [|discriminate].
    destruct (on_criterion_added _ ref (st_params cur) (snd d2)) as [ag|]; cbn [bind] in H; [|discriminate].
    destruct (merge (st_params cur) (fst ag)) as [params|] eqn:M; cbn [bind] in H; [|discriminate].
    destruct (mapM _ (all_alts cur)) as [new_all|]; cbn [bind] in H; [|discriminate].
    destruct (update_alts (st_cons cur) new_all) as [consd|]; cbn [bind] in H; [|discriminate].
    destruct (update_alts (st_notcons cur) new_all) as [nconsd|]; cbn [bind] in H; [|discriminate].
    destruct (add_criterion (st_crits cur) _) as [crits|]; cbn [bind] in H; [|discriminate].
    injection H as <- _. cbn [st_params]. now apply merge_seed in M.
  Qed.

  Lemma apply_inline_seed cur p sc diffs st rep :
    apply_inline cur p sc diffs = Ok (st, rep) -> seed_of (st_params st) = seed_of (st_params cur).
  Proof.
    unfold apply_inline. intros H.
    destruct (mapM _ diffs) as [r|]; cbn [bind] in H; [|discriminate].
    cbv zeta in H.
    destruct (update_alts (st_cons cur) (map fst r)) as [consd|]; cbn [bind] in H; [|discriminate].
    destruct (bp_anch_not_considered p).
    - destruct (update_alts (st_notcons cur) (map fst r)) as [nconsd|]; cbn [bind] in H; [|discriminate].
      injection H as <- _. reflexivity.
    - cbn [bind] in H.
      destruct (update_alts (st_cons cur) (map snd r)) as [rp|]; cbn [bind] in H; [|discriminate].
      injection H as <- _. reflexivity.
  Qed.

  Lemma apply_new_criterion_seed e cur p sc diffs st rep :
    apply_new_criterion e cur p sc diffs = Ok (st, rep) -> seed_of (st_params st) = seed_of (st_params cur).
  Proof.
    unfold apply_new_criterion. intros H.
    destruct (rank_criteria cur) as [ranked|]; cbn [bind] in H; [|discriminate].
    destruct (reference_criterion e ranked p) as [ref|]; cbn [bind] in H; [|discriminate].
    cbv zeta in H.
    destruct (of_option (find _ sc) EMissing) as [rsc|]; cbn [bind] in H; [|discriminate].
    match type of H with bind (fold_left ?f ?l (Ok ?i)) _ = _ =>
      destruct (fold_left f l (Ok i)) as [[[crits params] added]|] eqn:F end; cbn [bind] in H; [|discriminate].
    destruct (mapM _ diffs) as [new_alts|]; cbn [bind] in H; [|discriminate].
    destruct (update_alts (st_cons cur) new_alts) as [consd|]; cbn [bind] in H; [|discriminate].
    destruct (update_alts (st_notcons cur) new_alts) as [nconsd|]; cbn [bind] in H; [|discriminate].
    injection H as <- _. cbn [st_params].
    match type of F with fold_left (fun acc x => do s <- acc; @?step s x) ?l _ = _ =>
      apply (fold_res_inv step
               (fun (s : list crit * mparams * list (crit * addition)) =>
                  seed_of (snd (fst s)) = seed_of (st_params cur))) in F end.
    - exact F.
    - intros [[cr pa] ad] x s' I1 St. cbn [fst snd] in *.
      destruct (add_criterion cr _) as [cr'|]; cbn [bind] in St; [|discriminate].
      destruct (on_criterion_added _ ref pa _) as [ag|]; cbn [bind] in St; [|discriminate].
      destruct (merge pa (fst ag)) as [pa'|] eqn:M; cbn [bind] in St; [|discriminate].
      injection St as <-. cbn [fst snd]. apply merge_seed in M. congruence.
    - reflexivity.
  Qed.

  Lemma apply_anchoring_seed e cur p st rep :
    apply_anchoring e cur p = Ok (st, rep) -> seed_of (st_params st) = seed_of (st_params cur).
  Proof.
    unfold apply_anchoring. intros H.
    destruct (bp_anch_alts p) as [|aa0 aas]; [discriminate|].
    destruct (negb (known_fun (bp_anch_loss p)) || negb (known_fun (bp_anch_gain p))); [discriminate|].
    destruct (negb (String.eqb (bp_anch_applier p) ap_inline || String.eqb (bp_anch_applier p) ap_new)); [discriminate|].
    cbv zeta in H.
    destruct (mapM _ (aa0 :: aas)) as [anch|]; cbn [bind] in H; [|discriminate].
    destruct (negb (String.eqb (bp_anch_ref p) rp_ideal || String.eqb (bp_anch_ref p) rp_nadir)); [discriminate|].
    destruct (reference_point _ (st_crits cur) anch) as [rpv|]; cbn [bind] in H; [|discriminate].
    destruct (negb (valid_bounding p)); [discriminate|].
    destruct (criteria_scaling (st_crits cur) (all_alts cur)) as [sc|]; cbn [bind] in H; [|discriminate].
    destruct (mapM _ (all_alts cur)) as [diffs|]; cbn [bind] in H; [|discriminate].
    destruct (String.eqb (bp_anch_applier p) ap_inline).
    - destruct (apply_inline cur p sc diffs) as [[s1 r1]|] eqn:A; cbn [bind fst snd] in H; [|discriminate].
      injection H as <- _. eapply apply_inline_seed; eassumption.
    - destruct (apply_new_criterion e cur p sc diffs) as [[s1 r1]|] eqn:A; cbn [bind fst snd] in H; [|discriminate].
      injection H as <- _. eapply apply_new_criterion_seed; eassumption.
  Qed.

  Theorem apply_bias_seed e name cur p st rep :
    apply_bias e name cur p = Ok (st, rep) -> seed_of (st_params st) = seed_of (st_params cur).
  Proof.
    unfold apply_bias. intros H.
    destruct (String.eqb name b_omission); [eapply apply_omission_seed; eassumption|].
    destruct (String.eqb name b_reversal); [eapply apply_reversal_seed; eassumption|].
    destruct (String.eqb name b_fatigue); [eapply apply_fatigue_seed; eassumption|].
    destruct (String.eqb name b_concealment); [eapply apply_concealment_seed; eassumption|].
    destruct (String.eqb name b_mixing); [eapply apply_mixing_seed; eassumption|].
    destruct (String.eqb name b_anchoring); [eapply apply_anchoring_seed; eassumption|].
    discriminate.
  Qed.

  Theorem process_biases_seed e : forall bs cur g st echoes,
    process_biases e bs cur g = Ok (st, echoes) -> seed_of (st_params st) = seed_of (st_params cur).
  Proof.
    induction bs as [|b rest IH]; intros cur g st echoes H; cbn [process_biases] in H.
    - injection H as <- _. reflexivity.
    - destruct (draw g) as [dg|]; cbn [bind] in H; [|discriminate].
      destruct (nltb (fst dg) (b_prob b)).
      + destruct (apply_bias e (b_name b) cur (b_props b)) as [[s1 rp]|] eqn:A; cbn [bind fst snd] in H; [|discriminate].
        destruct (process_biases e rest s1 (snd dg)) as [[s2 ech]|] eqn:R; cbn [bind fst snd] in H; [|discriminate].
        injection H as <- _.
        apply apply_bias_seed in A. apply IH in R. congruence.
      + destruct (process_biases e rest cur (snd dg)) as [[s2 ech]|] eqn:R; cbn [bind fst snd] in H; [|discriminate].
        injection H as <- _. now apply IH in R.
  Qed.

  (** the parsers store [randomSeed] of the request *)
  Lemma parse_params_seed req p : parse_params req = Ok p -> incl (seed_of p) [rp_seed (r_mp req)].
  Proof.
    unfold parse_params. intros H.
    destruct (String.eqb (r_method req) m_ws).
    { unfold ws_parse in H.
      destruct (extract_weights _); cbn [bind] in H; [|discriminate].
      destruct (zip_with_weights _ _); cbn [bind] in H; [|discriminate].
      injection H as <-. intros x []. }
    destruct (String.eqb (r_method req) m_owa).
    { unfold owa_parse in H.
      destruct (extract_weights _) as [w|]; cbn [bind] in H; [|discriminate].
      destruct (negb _); [discriminate|].
      destruct (zip_with_weights _ _); cbn [bind] in H; [|discriminate].
      injection H as <-. intros x []. }
    destruct (String.eqb (r_method req) m_choquet).
    { unfold choquet_parse in H.
      destruct (extract_weights _) as [w|]; cbn [bind] in H; [|discriminate].
      destruct (choquet_parse_weights _ _); cbn [bind] in H; [|discriminate].
      injection H as <-. intros x []. }
    destruct (String.eqb (r_method req) m_electre).
    { unfold electre_parse in H.
      destruct (of_option _ _) as [ecs|]; cbn [bind] in H; [|discriminate].
      destruct (mapM _ _); cbn [bind] in H; [|discriminate].
      destruct (rp_dist _) as [d|].
      - destruct (_ || _); [discriminate|]. injection H as <-. intros x [].
      - injection H as <-. intros x []. }
    destruct (String.eqb (r_method req) m_majority).
    { unfold majority_parse in H. injection H as <-. cbn [seed_of]. apply incl_refl. }
    destruct (String.eqb (r_method req) m_aspect).
    { unfold aspect_parse in H. injection H as <-. cbn [seed_of]. apply incl_refl. }
    destruct (String.eqb (r_method req) m_satisfaction).
    { unfold satisfaction_parse in H. injection H as <-. cbn [seed_of]. apply incl_refl. }
    discriminate.
  Qed.

  Lemma prepare_seed req st : prepare req = Ok st -> incl (seed_of (st_params st)) [rp_seed (r_mp req)].
  Proof. intros H. apply prepare_inv in H as (_ & P & _). now apply parse_params_seed. Qed.

  Theorem biased_state_seed e req st echoes :
    biased_state e req = Ok (st, echoes) -> incl (seed_of (st_params st)) [rp_seed (r_mp req)].
  Proof.
    unfold biased_state. intros H.
    destruct (prepare req) as [st0|] eqn:P; cbn [bind] in H; [|discriminate].
    apply prepare_seed in P. cbv zeta in H.
    destruct (negb (forallb _ (enabled_biases req))); [discriminate|].
    destruct (enabled_biases req) as [|b bs].
    - injection H as <- _. exact P.
    - apply process_biases_seed in H. now rewrite H.
  Qed.
End SeedPreserved.

(** ** 3. every function of the model reads the environment only at the seeds of its arguments *)
Section Env.
  Context {N : Num}.
  Variables e e' : env.

  Definition exp_agree : Prop := forall x, exp_oracle e x = exp_oracle e' x.
  Definition rng_agree (s : Z) : Prop := new_rng e s = new_rng e' s.

  Lemma exp_from_zero_env (HX : exp_agree) alpha mult x : exp_from_zero e alpha mult x = exp_from_zero e' alpha mult x.
  Proof. unfold exp_from_zero. rewrite HX. reflexivity. Qed.

  Lemma fatigue_ratio_env (HX : exp_agree) p : fatigue_ratio e p = fatigue_ratio e' p.
  Proof. unfold fatigue_ratio. rewrite (exp_from_zero_env HX). reflexivity. Qed.

  Lemma eval_fun_env (HX : exp_agree) f x : eval_fun e f x = eval_fun e' f x.
  Proof. unfold eval_fun. rewrite (exp_from_zero_env HX). reflexivity. Qed.

  Lemma ref_diffs_env (HX : exp_agree) sc a r loss gain : ref_diffs e sc a r loss gain = ref_diffs e' sc a r loss gain.
  Proof. unfold ref_diffs. envt ltac:(apply eval_fun_env; assumption). Qed.

  Lemma weakest_by_probability_env s seed (HS : new_rng e seed = new_rng e' seed) :
    weakest_by_probability e s seed = weakest_by_probability e' s seed.
  Proof. unfold weakest_by_probability. envt idtac. Qed.

  Lemma order_criteria_env s p (HS : new_rng e (bp_seed p) = new_rng e' (bp_seed p)) :
    order_criteria e s p = order_criteria e' s p.
  Proof. unfold order_criteria. envt ltac:(apply weakest_by_probability_env; assumption). Qed.

  Lemma reference_criterion_env ranked p (HR : new_rng e (bp_ref_seed p) = new_rng e' (bp_ref_seed p)) :
    reference_criterion e ranked p = reference_criterion e' ranked p.
  Proof. unfold reference_criterion. envt idtac. Qed.

  Lemma apply_omission_env cur p (HS : new_rng e (bp_seed p) = new_rng e' (bp_seed p)) :
    apply_omission e cur p = apply_omission e' cur p.
  Proof. unfold apply_omission. envt ltac:(apply order_criteria_env; assumption). Qed.

  Lemma apply_reversal_env cur p (HS : new_rng e (bp_seed p) = new_rng e' (bp_seed p)) :
    apply_reversal e cur p = apply_reversal e' cur p.
  Proof. unfold apply_reversal. envt ltac:(apply order_criteria_env; assumption). Qed.

  Lemma apply_fatigue_env cur p (HX : exp_agree) (HS : new_rng e (bp_seed p) = new_rng e' (bp_seed p)) :
    apply_fatigue e cur p = apply_fatigue e' cur p.
  Proof. unfold apply_fatigue. envt ltac:(apply fatigue_ratio_env; assumption). Qed.

  Lemma apply_concealment_env cur p
        (HS : new_rng e (bp_seed p) = new_rng e' (bp_seed p))
        (HR : new_rng e (bp_ref_seed p) = new_rng e' (bp_ref_seed p)) :
    apply_concealment e cur p = apply_concealment e' cur p.
  Proof. unfold apply_concealment. envt ltac:(apply reference_criterion_env; assumption). Qed.

  Lemma apply_mixing_env cur p
        (HS : new_rng e (bp_seed p) = new_rng e' (bp_seed p))
        (HR : new_rng e (bp_ref_seed p) = new_rng e' (bp_ref_seed p)) :
    apply_mixing e cur p = apply_mixing e' cur p.
  Proof. unfold apply_mixing. envt ltac:(apply reference_criterion_env; assumption). Qed.

  (** anchoring's new-criterion applier draws from [randomSeed + index] for every reference point *)
  Lemma apply_new_criterion_env cur p sc diffs
        (HR : new_rng e (bp_ref_seed p) = new_rng e' (bp_ref_seed p))
        (HK : forall i, (i < List.length (match diffs with [] => [] | d0 :: _ => snd d0 end))%nat ->
                        new_rng e (bp_seed p + Z.of_nat i) = new_rng e' (bp_seed p + Z.of_nat i)) :
    apply_new_criterion e cur p sc diffs = apply_new_criterion e' cur p sc diffs.
  Proof.
    unfold apply_new_criterion. envt ltac:(apply reference_criterion_env; assumption).
    match goal with Hin : In ?b (zip (seq 0 _) _) |- _ => apply zip_seq_In in Hin; rewrite (HK (fst b)) end.
    - reflexivity.
    - destruct diffs as [|d0 ?]; cbn [List.length] in *; [lia|]. rewrite map_length in *. lia.
  Qed.

  (** the model has exactly one reference point *)
  Lemma anchoring_diffs_len sc loss gain (r0 : alt) : forall all diffs,
    mapM (fun a => do ds <- mapM (fun r => do d <- ref_diffs e sc a r loss gain; Ok (a_id r, d)) [r0]; Ok (a, ds)) all
    = Ok diffs ->
    forall d, In d diffs -> List.length (snd d) = 1%nat.
  Proof.
    induction all as [|a rest IH]; intros diffs H d Hd; cbn [mapM] in H.
    - injection H as <-. destruct Hd.
    - destruct (ref_diffs e sc a r0 loss gain) as [x|]; cbn [bind] in H; [|discriminate].
      destruct (mapM _ rest) as [ys|] eqn:R; cbn [bind] in H; [|discriminate].
      injection H as <-. destruct Hd as [<-|Hd]; [reflexivity|].
      eapply IH; [reflexivity|exact Hd].
  Qed.

  Lemma apply_anchoring_env cur p (HX : exp_agree)
        (HS : new_rng e (bp_seed p) = new_rng e' (bp_seed p))
        (HR : new_rng e (bp_ref_seed p) = new_rng e' (bp_ref_seed p)) :
    apply_anchoring e cur p = apply_anchoring e' cur p.
  Proof.
    unfold apply_anchoring. envt ltac:(apply ref_diffs_env; assumption).
    apply apply_new_criterion_env; [assumption|].
    intros i Hi.
    assert (I0 : i = 0%nat).
    { match goal with Hd : mapM _ (all_alts cur) = Ok ?x |- _ =>
        destruct x as [|d0 ?]; cbn [List.length] in Hi; [lia|];
        pose proof (anchoring_diffs_len _ _ _ _ _ _ Hd d0 (or_introl eq_refl)) as L1 end.
      lia. }
    subst i. cbn [Z.of_nat]. rewrite Z.add_0_r. exact HS.
  Qed.

  Lemma apply_bias_env_min name cur p (HX : exp_agree)
        (HS : new_rng e (bp_seed p) = new_rng e' (bp_seed p))
        (HR : new_rng e (bp_ref_seed p) = new_rng e' (bp_ref_seed p)) :
    apply_bias e name cur p = apply_bias e' name cur p.
  Proof.
    unfold apply_bias.
    rewrite (apply_omission_env cur p HS), (apply_reversal_env cur p HS), (apply_fatigue_env cur p HX HS),
      (apply_concealment_env cur p HS HR), (apply_mixing_env cur p HS HR), (apply_anchoring_env cur p HX HS HR).
    reflexivity.
  Qed.

  Theorem apply_bias_env name cur p :
    env_agree e e' (bprops_seeds p) -> apply_bias e name cur p = apply_bias e' name cur p.
  Proof.
    intros [A B]. apply apply_bias_env_min; [exact B| |]; apply A; cbn [bprops_seeds In]; auto.
  Qed.

  (** ** the fold over the biases *)
  Lemma process_biases_env_min (HX : exp_agree) : forall bs cur g,
    (forall b, In b bs -> new_rng e (bp_seed (b_props b)) = new_rng e' (bp_seed (b_props b)) /\
                          new_rng e (bp_ref_seed (b_props b)) = new_rng e' (bp_ref_seed (b_props b))) ->
    process_biases e bs cur g = process_biases e' bs cur g.
  Proof.
    induction bs as [|b rest IH]; intros cur g H; cbn [process_biases]; [reflexivity|].
    destruct (H b (or_introl eq_refl)) as [HS HR].
    assert (IH' : forall cur g, process_biases e rest cur g = process_biases e' rest cur g).
    { intros c g0. apply IH. intros b0 Hb0. apply H. now right. }
    rewrite (apply_bias_env_min (b_name b) cur (b_props b) HX HS HR).
    envt ltac:(apply IH').
  Qed.

  Lemma env_agree_min bs : env_agree e e' (biases_seeds_min bs) ->
    forall b, In b bs -> new_rng e (bp_seed (b_props b)) = new_rng e' (bp_seed (b_props b)) /\
                         new_rng e (bp_ref_seed (b_props b)) = new_rng e' (bp_ref_seed (b_props b)).
  Proof.
    intros [A _] b Hb.
    split; apply A; unfold biases_seeds_min; apply in_flat_map; exists b; (split; [exact Hb|]);
      cbn [bprops_seeds_min In]; auto.
  Qed.

  Theorem process_biases_env bs cur g :
    env_agree e e' (biases_seeds bs) -> process_biases e bs cur g = process_biases e' bs cur g.
  Proof.
    intros H. apply process_biases_env_min; [exact (proj2 H)|].
    apply env_agree_min. eapply env_agree_incl; [|exact H].
    intros s Hs. unfold biases_seeds_min in Hs. apply in_flat_map in Hs as (b & Hb & Hs).
    apply in_flat_map. exists b. split; [exact Hb|]. now apply bprops_seeds_min_incl.
  Qed.

  Lemma biased_state_env_min req :
    env_agree e e' (r_seed req :: biases_seeds_min (enabled_biases req)) ->
    biased_state e req = biased_state e' req.
  Proof.
    intros H. unfold biased_state.
    assert (HS : new_rng e (r_seed req) = new_rng e' (r_seed req)) by (apply (proj1 H); now left).
    assert (HB : forall cur g, process_biases e (enabled_biases req) cur g = process_biases e' (enabled_biases req) cur g).
    { intros cur g. apply process_biases_env_min; [exact (proj2 H)|]. apply env_agree_min.
      eapply env_agree_incl; [|exact H]. intros s Hs. now right. }
    rewrite HS. apply bind_cong; [reflexivity|]. intros st _. cbv zeta.
    destruct (negb _); [reflexivity|].
    destruct (enabled_biases req) as [|b bs]; [reflexivity|]. apply HB.
  Qed.

  Theorem biased_state_env req :
    env_agree e e' (r_seed req :: biases_seeds (r_biases req)) -> biased_state e req = biased_state e' req.
  Proof.
    intros H. apply biased_state_env_min. eapply env_agree_incl; [|exact H].
    intros s [<-|Hs]; [now left|right].
    unfold biases_seeds_min, enabled_biases in Hs. apply flat_map_filter_incl in Hs.
    apply in_flat_map in Hs as (b & Hb & Hs). apply in_flat_map. exists b. split; [exact Hb|].
    now apply bprops_seeds_min_incl.
  Qed.

  (** ** the evaluation of the method: the seed is read from the parameters of the state *)
  Lemma majority_evaluate_env st (H : forall s, In s (seed_of (st_params st)) -> new_rng e s = new_rng e' s) :
    majority_evaluate e st = majority_evaluate e' st.
  Proof.
    unfold majority_evaluate. destruct (st_params st); try reflexivity.
    cbn [seed_of] in H. rewrite (H seed (or_introl eq_refl)). reflexivity.
  Qed.

  Lemma aspect_evaluate_env st (H : forall s, In s (seed_of (st_params st)) -> new_rng e s = new_rng e' s) :
    aspect_evaluate e st = aspect_evaluate e' st.
  Proof.
    unfold aspect_evaluate. destruct (st_params st); try reflexivity.
    cbn [seed_of] in H. rewrite (H seed (or_introl eq_refl)). reflexivity.
  Qed.

  Lemma satisfaction_evaluate_env st (H : forall s, In s (seed_of (st_params st)) -> new_rng e s = new_rng e' s) :
    satisfaction_evaluate e st = satisfaction_evaluate e' st.
  Proof.
    unfold satisfaction_evaluate. destruct (st_params st); try reflexivity.
    cbn [seed_of] in H. rewrite (H seed (or_introl eq_refl)). reflexivity.
  Qed.

  (** the exp oracle is not used by any method *)
  Lemma evaluate_env_rng m st (H : forall s, In s (seed_of (st_params st)) -> new_rng e s = new_rng e' s) :
    evaluate m e st = evaluate m e' st.
  Proof.
    unfold evaluate.
    rewrite (majority_evaluate_env st H), (aspect_evaluate_env st H), (satisfaction_evaluate_env st H).
    reflexivity.
  Qed.

  Theorem evaluate_env m st : env_agree e e' (seed_of (st_params st)) -> evaluate m e st = evaluate m e' st.
  Proof. intros [A _]. now apply evaluate_env_rng. Qed.

  (** ** the decision *)
  Theorem decide_depends_on_seeds_min req : env_agree e e' (seeds_min req) -> decide e req = decide e' req.
  Proof.
    intros H. unfold decide.
    rewrite (biased_state_env_min req).
    2:{ eapply env_agree_incl; [|exact H]. unfold seeds_min. intros s [<-|Hs]; [now left|now (right; right)]. }
    destruct (biased_state e' req) as [[st ech]|] eqn:B; cbn [bind fst snd]; [|reflexivity].
    apply biased_state_seed in B.
    rewrite (evaluate_env_rng (r_method req) st); [reflexivity|].
    intros s Hs. apply (proj1 H). apply B in Hs. destruct Hs as [<-|[]]. right; now left.
  Qed.
End Env.

(** ** 4. the decision is a function of the streams of the seeds of the request and of the exp oracle *)
Section Main.
  Context {N : Num}.

  Theorem decide_depends_on_seeds : forall e e' req,
    env_agree e e' (seeds_of req) -> decide e req = decide e' req.
  Proof.
    intros e e' req H. apply decide_depends_on_seeds_min.
    eapply env_agree_incl; [apply seeds_min_incl|exact H].
  Qed.

  (** environments with the same exp table whose stream tables agree at the seeds of the request *)
  Lemma lookup_agree e e' seeds :
    env_exp e = env_exp e' ->
    (forall s, In s seeds -> lookupZ s (env_streams e) = lookupZ s (env_streams e')) ->
    env_agree e e' seeds.
  Proof.
    intros HX HS. split.
    - intros s Hs. unfold new_rng. now rewrite (HS s Hs).
    - intros x. unfold exp_oracle. now rewrite HX.
  Qed.

  Theorem decide_ignores_other_streams : forall e e' req,
    env_exp e = env_exp e' ->
    (forall s, In s (seeds_of req) -> lookupZ s (env_streams e) = lookupZ s (env_streams e')) ->
    decide e req = decide e' req.
  Proof. intros e e' req HX HS. apply decide_depends_on_seeds. now apply lookup_agree. Qed.

  (** adding a stream (or overriding the stream of a seed: the first entry of a seed wins) *)
  Definition add_stream (s : Z) (l : list num) (e : env) : env :=
    {| env_streams := (s, l) :: env_streams e; env_exp := env_exp e |}.
  (** removing every stream of a seed *)
  Definition remove_stream (s : Z) (e : env) : env :=
    {| env_streams := filter (fun kv => negb (Z.eqb (fst kv) s)) (env_streams e); env_exp := env_exp e |}.
  (** changing the stream of a seed in place *)
  Definition change_stream (s : Z) (l : list num) (e : env) : env :=
    {| env_streams := map (fun kv => if Z.eqb (fst kv) s then (s, l) else kv) (env_streams e); env_exp := env_exp e |}.

  Lemma lookupZ_remove_other {A} (s s' : Z) (m : list (Z * A)) : s' <> s ->
    lookupZ s' (filter (fun kv => negb (Z.eqb (fst kv) s)) m) = lookupZ s' m.
  Proof.
    intros D. induction m as [|[k v] r IH]; cbn [filter lookupZ fst]; [reflexivity|].
    destruct (Z.eqb k s) eqn:E; cbn [negb lookupZ].
    - apply Z.eqb_eq in E. subst k. destruct (Z.eqb s' s) eqn:E2; [apply Z.eqb_eq in E2; contradiction|exact IH].
    - now rewrite IH.
  Qed.

  Lemma lookupZ_change_other {A} (s s' : Z) (l : A) (m : list (Z * A)) : s' <> s ->
    lookupZ s' (map (fun kv => if Z.eqb (fst kv) s then (s, l) else kv) m) = lookupZ s' m.
  Proof.
    intros D. induction m as [|[k v] r IH]; cbn [map lookupZ fst]; [reflexivity|].
    destruct (Z.eqb k s) eqn:E; cbn [lookupZ].
    - apply Z.eqb_eq in E. subst k. destruct (Z.eqb s' s) eqn:E2; [apply Z.eqb_eq in E2; contradiction|exact IH].
    - now rewrite IH.
  Qed.

  Corollary decide_add_stream e req s l : ~ In s (seeds_of req) -> decide (add_stream s l e) req = decide e req.
  Proof.
    intros NI. apply decide_ignores_other_streams; [reflexivity|].
    intros s' Hs. cbn [add_stream env_streams lookupZ].
    destruct (Z.eqb s' s) eqn:E; [|reflexivity]. apply Z.eqb_eq in E. subst s'. contradiction.
  Qed.

  Corollary decide_remove_stream e req s : ~ In s (seeds_of req) -> decide (remove_stream s e) req = decide e req.
  Proof.
    intros NI. apply decide_ignores_other_streams; [reflexivity|].
    intros s' Hs. cbn [remove_stream env_streams]. apply lookupZ_remove_other. intros ->. contradiction.
  Qed.

  Corollary decide_change_stream e req s l : ~ In s (seeds_of req) -> decide (change_stream s l e) req = decide e req.
  Proof.
    intros NI. apply decide_ignores_other_streams; [reflexivity|].
    intros s' Hs. cbn [change_stream env_streams]. apply lookupZ_change_other. intros ->. contradiction.
  Qed.
End Main.

Print Assumptions apply_bias_seed.
Print Assumptions process_biases_seed.
Print Assumptions apply_bias_env.
Print Assumptions process_biases_env.
Print Assumptions biased_state_env.
Print Assumptions evaluate_env.
Print Assumptions decide_depends_on_seeds_min.
Print Assumptions decide_depends_on_seeds.
Print Assumptions decide_ignores_other_streams.
Print Assumptions decide_add_stream.
Print Assumptions decide_remove_stream.
Print Assumptions decide_change_stream.
