(** * ELECTRE III: a declarative statement of the two distillations, and the proof that the
    executable model ([Model/Electre.v]) and the checker ([Check/C05.v]) compute it (property C05).

    Part A  the vocabulary: relations over finite sets of indices (duplicate-free lists read as
            sets), a credibility matrix [m] (read with [sig m i j]) and a distillation function
            [f] (threshold s(x) = [dist_value f x]).
    Part B  the model computes it ([next_class_is_class_at], [distill_is_distillation],
            [rank_ascending_spec], [rank_descending_spec]) and the relations determine their result
            ([class_at_deterministic], [distillation_deterministic]).
    Part C  the credibility matrix in closed form on exact rationals ([credibility_spec_Qc]).
    Part D  a passed check [C05_ok st obs = true] yields the property ([C05_ok_sound]).
    Part E  examples.

    NAMING.  In this code base [asc = true] selects the alternatives of MAXIMAL qualification
    (see [best_value]: [if b <? v then v else b]) and numbers the classes 1, 2, ... in the order
    of extraction: [rank_ascending] is therefore the distillation that extracts the best
    alternatives first (the text-book "descending distillation").  [asc = false] selects the
    alternatives of MINIMAL qualification, i.e. [rank_descending] extracts the worst alternatives
    first (the text-book "ascending distillation") and then reverses the numbering (class k of K
    is reported as K + 1 - k), so that in both reported indices 1 = best.

    The generic theorems hold for every carrier with order laws; the side conditions are the ones
    of [ElectreEquivFacts]: [neqb_eq] (numeric equality is Leibniz equality), [okv_zero] and
    [okv_on m D] (every credibility read on [D] is an ordinary value).  All are discharged on
    [NumQc] ([_Qc] corollaries). *)
From Coq Require Import ZArith Bool List String Permutation Lia.
From RDM Require Import Base.Num Base.Util Model.Data Model.Electre Check.C04 Check.C05
  Proofs.RankFacts Proofs.ElectreFacts Proofs.ElectreEquivFacts.
Import ListNotations.
Local Open Scope string_scope.
Local Open Scope list_scope.

(** * Part A: vocabulary *)

(** two lists read as sets have the same members *)
Definition eqset (D D' : list nat) : Prop := forall i, In i D <-> In i D'.

(** [n] is the number of elements of the (finite) set [P] *)
Definition card (P : nat -> Prop) (n : nat) : Prop :=
  exists l, NoDup l /\ (forall j, In j l <-> P j) /\ List.length l = n.

Section Vocabulary.
  Context {N : Num}.

  (** the order of the carrier as propositions *)
  Definition num_lt (x y : num) : Prop := nltb x y = true.
  Definition num_le (x y : num) : Prop := nleb x y = true.

  (** [x] is the credibility of some ordered pair of [D].  The pairs (i, i) take part, exactly as
      in [entries]; the diagonal of a credibility matrix is 0 ([cred_matrix]) and every value
      below is compared with 0 anyway, so this changes nothing for credibility matrices. *)
  Definition cred_in (m : list (list num)) (D : list nat) (x : num) : Prop :=
    exists i j, In i D /\ In j D /\ x = sig m i j.

  (** [lam] is the largest credibility among the pairs of [D], and 0 if [D] is empty or no
      credibility exceeds 0 (this is what [max_cred] does: it starts from 0). *)
  Definition is_max_cred (m : list (list num)) (D : list nat) (lam : num) : Prop :=
    num_le nzero lam /\
    (forall x, cred_in m D x -> num_le x lam) /\
    (lam = nzero \/ cred_in m D lam).

  (** [lam'] is the largest credibility among the pairs of [D] that is strictly below
      [lam - s(lam)], and 0 if there is none (or none above 0: [min_cred] starts from 0). *)
  Definition is_next_cut (m : list (list num)) (f : linfun) (lam : num) (D : list nat) (lam' : num) : Prop :=
    let thr := nsub lam (dist_value f lam) in
    num_le nzero lam' /\
    (forall x, cred_in m D x -> num_lt x thr -> num_le x lam') /\
    (lam' = nzero \/ (cred_in m D lam' /\ num_lt lam' thr)).

  (** i outranks j at cut level [lam']:
      sigma(i,j) > lam'  /\  sigma(i,j) > sigma(j,i) + s(sigma(i,j))  /\  sigma(i,j) > 0 *)
  Definition outranks_at (m : list (list num)) (f : linfun) (lam' : num) (i j : nat) : Prop :=
    num_lt lam' (sig m i j) /\
    num_lt (nadd (sig m j i) (dist_value f (sig m i j))) (sig m i j) /\
    num_lt nzero (sig m i j).

  (** strength: how many members of [D] does [i] outrank; weakness: how many outrank [i];
      qualification = strength - weakness *)
  Definition has_strength m f lam' (D : list nat) (i : nat) (n : nat) : Prop :=
    card (fun j => In j D /\ outranks_at m f lam' i j) n.
  Definition has_weakness m f lam' (D : list nat) (i : nat) (n : nat) : Prop :=
    card (fun j => In j D /\ outranks_at m f lam' j i) n.
  Definition has_qualification m f lam' (D : list nat) (i : nat) (q : Z) : Prop :=
    exists s w, has_strength m f lam' D i s /\ has_weakness m f lam' D i w /\
                q = (Z.of_nat s - Z.of_nat w)%Z.

  (** [B] is exactly the set of the members of [D] whose qualification is
      maximal among [D] when [asc = true], minimal among [D] when [asc = false]
      (see NAMING above: this is the reading of [best_value]). *)
  Definition best_qualified (asc : bool) m f lam' (D B : list nat) : Prop :=
    NoDup B /\
    forall i, In i B <->
      (In i D /\ exists q, has_qualification m f lam' D i q /\
         forall j q', In j D -> has_qualification m f lam' D j q' ->
                      if asc then (q' <= q)%Z else (q <= q')%Z).

  (** the class extracted from [D] when the distillation arrives at cut level [lam]:
      - [lam = 0]: the whole of [D];
      - otherwise let [lam'] be the next cut level and [B] the best qualified members of [D]
        at [lam']: if [B] has more than one member and [lam' > 0], the class is the one
        extracted from [B] at [lam'] (inner distillation), else it is [B]. *)
  Inductive class_at (m : list (list num)) (f : linfun) (asc : bool) : num -> list nat -> list nat -> Prop :=
  | class_stop : forall lam D,
      lam = nzero -> class_at m f asc lam D D
  | class_last : forall lam D lam' B,
      lam <> nzero -> is_next_cut m f lam D lam' -> best_qualified asc m f lam' D B ->
      ~ (1 < List.length B /\ num_lt nzero lam') ->
      class_at m f asc lam D B
  | class_inner : forall lam D lam' B C,
      lam <> nzero -> is_next_cut m f lam D lam' -> best_qualified asc m f lam' D B ->
      1 < List.length B -> num_lt nzero lam' ->
      class_at m f asc lam' B C ->
      class_at m f asc lam D C.

  (** the classes of [D] in the order of extraction: nothing for the empty set; otherwise the
      class extracted from [D] at the largest credibility of [D], followed by the distillation
      of the rest [D1] = [D] minus that class. *)
  Inductive distillation (m : list (list num)) (f : linfun) (asc : bool) : list nat -> list (list nat) -> Prop :=
  | dist_nil : distillation m f asc [] []
  | dist_cons : forall D lam C D1 rest,
      D <> [] -> is_max_cred m D lam -> class_at m f asc lam D C ->
      NoDup D1 -> (forall i, In i D1 <-> (In i D /\ ~ In i C)) ->
      distillation m f asc D1 rest ->
      distillation m f asc D (C :: rest).
End Vocabulary.

(** the (1-based) number of the first class that contains [i] *)
Inductive has_class_number (i : nat) : list (list nat) -> Z -> Prop :=
| cn_here : forall C rest, In i C -> has_class_number i (C :: rest) 1%Z
| cn_later : forall C rest k, ~ In i C -> has_class_number i rest k -> has_class_number i (C :: rest) (k + 1)%Z.

(** the assignment index |-> number the model builds from a list of classes, first number [pos] *)
Fixpoint number_from (pos : Z) (classes : list (list nat)) : list (nat * Z) :=
  match classes with
  | [] => []
  | C :: rest => map (fun i => (i, pos)) C ++ number_from (pos + 1)%Z rest
  end.

(** ** facts about [card], [eqset], [has_class_number] that need no arithmetic *)
Lemma eqset_refl D : eqset D D.
Proof. intros i. reflexivity. Qed.

Lemma eqset_sym D D' : eqset D D' -> eqset D' D.
Proof. intros H i. symmetry. apply H. Qed.

Lemma eqset_perm D D' : NoDup D -> NoDup D' -> eqset D D' -> Permutation D D'.
Proof. intros H1 H2 H. now apply NoDup_Permutation. Qed.

Lemma perm_eqset D D' : Permutation D D' -> eqset D D'.
Proof. intros P i. split; apply Permutation_in; [|symmetry]; assumption. Qed.

Lemma card_unique (P : nat -> Prop) n n' : card P n -> card P n' -> n = n'.
Proof.
  intros (l & ND & Hl & <-) (l' & ND' & Hl' & <-).
  apply Permutation_length. apply NoDup_Permutation; try assumption.
  intros j. rewrite Hl, Hl'. reflexivity.
Qed.

Lemma card_ext (P Q : nat -> Prop) n : (forall j, P j <-> Q j) -> card P n -> card Q n.
Proof.
  intros H (l & ND & Hl & E). exists l. split; [exact ND|]. split; [|exact E].
  intros j. rewrite Hl. apply H.
Qed.

Lemma card_filter (p : nat -> bool) (P : nat -> Prop) D :
  NoDup D -> (forall j, In j D -> (p j = true <-> P j)) ->
  card (fun j => In j D /\ P j) (List.length (filter p D)).
Proof.
  intros ND H. exists (filter p D). split; [now apply NoDup_filter|]. split; [|reflexivity].
  intros j. rewrite filter_In. split; intros [A B]; (split; [exact A|]); now apply (H j A).
Qed.

Lemma class_number_unique i classes k k' :
  has_class_number i classes k -> has_class_number i classes k' -> k = k'.
Proof.
  intros H. revert k'. induction H as [C rest Hin|C rest k Hn H IH]; intros k' H'; inversion H'; subst.
  - reflexivity.
  - contradiction.
  - contradiction.
  - f_equal. now apply IH.
Qed.

Lemma class_number_range i classes k :
  has_class_number i classes k -> (1 <= k <= Z.of_nat (List.length classes))%Z.
Proof.
  induction 1 as [C rest Hin|C rest k Hn H IH]; cbn [List.length]; lia.
Qed.

(** ... it is the position of a class that contains [i] *)
Lemma class_number_nth i classes k :
  has_class_number i classes k ->
  exists C, nth_error classes (Z.to_nat (k - 1)) = Some C /\ In i C.
Proof.
  induction 1 as [C rest Hin|C rest k Hn H IH].
  - exists C. split; [reflexivity|exact Hin].
  - destruct IH as (C' & E & Hin). exists C'. split; [|exact Hin].
    pose proof (class_number_range _ _ _ H) as R.
    replace (Z.to_nat (k + 1 - 1)) with (S (Z.to_nat (k - 1))) by lia. exact E.
Qed.

Lemma class_number_exists i classes :
  In i (List.concat classes) -> exists k, has_class_number i classes k.
Proof.
  induction classes as [|C rest IH]; cbn [List.concat]; [intros []|]. intros H.
  destruct (in_dec Nat.eq_dec i C) as [Hc|Hc].
  - exists 1%Z. now constructor.
  - apply in_app_or in H as [H|H]; [contradiction|]. destruct (IH H) as (k & Hk).
    exists (k + 1)%Z. now constructor.
Qed.

Lemma nodup_app_inv {A} (l l' : list A) :
  NoDup (l ++ l') -> NoDup l' /\ (forall x, In x l -> ~ In x l').
Proof.
  induction l as [|a l IH]; cbn [app]; intros ND; [split; [exact ND|intros x []]|].
  inversion ND as [|? ? Hn ND']; subst. destruct (IH ND') as [H1 H2]. split; [exact H1|].
  intros x [->|Hx]; [|now apply H2]. intros Hc. apply Hn. apply in_or_app. now right.
Qed.

(** when the classes are pairwise disjoint, every member of the class at position k0 (0-based)
    has class number k0 + 1 *)
Lemma class_number_of_nth classes : NoDup (List.concat classes) ->
  forall k0 C i, nth_error classes k0 = Some C -> In i C ->
  has_class_number i classes (Z.of_nat k0 + 1)%Z.
Proof.
  induction classes as [|C0 rest IH]; intros ND k0 C i E Hi; [destruct k0; discriminate|].
  cbn [List.concat] in ND. destruct (nodup_app_inv _ _ ND) as [ND2 Hdis].
  destruct k0 as [|k0]; cbn [nth_error] in E.
  - injection E as ->. now constructor.
  - replace (Z.of_nat (S k0) + 1)%Z with ((Z.of_nat k0 + 1) + 1)%Z by lia. constructor.
    + intros Hc. apply (Hdis i Hc). apply nth_error_In in E. apply in_concat. now exists C.
    + now apply IH with C.
Qed.

Lemma forall2_impl {A B} (R R' : A -> B -> Prop) l l' :
  (forall x y, R x y -> R' x y) -> Forall2 R l l' -> Forall2 R' l l'.
Proof. intros H. induction 1; constructor; auto. Qed.

Lemma forall2_length {A B} (R : A -> B -> Prop) l l' : Forall2 R l l' -> List.length l = List.length l'.
Proof. induction 1; cbn [List.length]; congruence. Qed.

(** class numbers only depend on the classes as sets *)
Lemma class_number_perm i cl cl' k :
  Forall2 (@Permutation nat) cl cl' -> has_class_number i cl k -> has_class_number i cl' k.
Proof.
  intros F. revert k. induction F as [|C C' r r' P F IH]; intros k H; inversion H; subst.
  - constructor. eapply Permutation_in; eassumption.
  - constructor; [|now apply IH]. intros Hc. apply H2. eapply Permutation_in; [symmetry|]; eassumption.
Qed.

(** what the assignment built by the model gives to an index: [class_of] is what [positions] reads *)
Lemma class_of_app_l i a b : In i (map fst a) -> class_of i (a ++ b) = class_of i a.
Proof.
  unfold class_of. induction a as [|[j z] a IH]; cbn [map fst In app find]; [intros []|].
  intros H. destruct (Nat.eqb j i) eqn:E; [reflexivity|].
  apply IH. destruct H as [H|H]; [|exact H]. subst. now rewrite Nat.eqb_refl in E.
Qed.

Lemma class_of_app_r i a b : ~ In i (map fst a) -> class_of i (a ++ b) = class_of i b.
Proof.
  unfold class_of. induction a as [|[j z] a IH]; cbn [map fst In app find]; [reflexivity|].
  intros H. destruct (Nat.eqb j i) eqn:E.
  - apply Nat.eqb_eq in E. exfalso. apply H. now left.
  - apply IH. intros Hc. apply H. now right.
Qed.

Lemma class_of_const i pos C : In i C -> class_of i (map (fun j => (j, pos)) C) = pos.
Proof.
  unfold class_of. induction C as [|c C IH]; cbn [map In find fst]; [intros []|].
  intros H. destruct (Nat.eqb c i) eqn:E; [reflexivity|].
  apply IH. destruct H as [H|H]; [|exact H]. subst. now rewrite Nat.eqb_refl in E.
Qed.

Lemma map_fst_const (pos : Z) (C : list nat) : map fst (map (fun j => (j, pos)) C) = C.
Proof. rewrite map_map. cbn [fst]. apply map_id. Qed.

Lemma class_of_number_from i classes k : has_class_number i classes k ->
  forall pos, class_of i (number_from pos classes) = (pos + k - 1)%Z.
Proof.
  induction 1 as [C rest Hin|C rest k Hn H IH]; intros pos; cbn [number_from].
  - rewrite class_of_app_l by now rewrite map_fst_const.
    rewrite class_of_const by assumption. lia.
  - rewrite class_of_app_r by now rewrite map_fst_const.
    rewrite IH. lia.
Qed.

Lemma map_fst_number_from classes : forall pos, map fst (number_from pos classes) = List.concat classes.
Proof.
  induction classes as [|C rest IH]; intros pos; cbn [number_from List.concat]; [reflexivity|].
  now rewrite map_app, map_fst_const, IH.
Qed.

(** * Part B: the model computes the declarative distillation *)
Section Model.
  Context {N : Num} {L : OrdLaws N}.
  Hypothesis neqb_eq : forall x y : num, neqb x y = true -> x = y.
  Hypothesis okv_zero : okv nzero.

  Lemma le_antisym (x y : num) : okv x -> okv y -> num_le x y -> num_le y x -> x = y.
  Proof.
    intros Hx Hy A B. apply neqb_eq. rewrite eqb_leb by assumption.
    unfold num_le in *. now rewrite A, B.
  Qed.

  Lemma cred_in_entries m D x : cred_in m D x <-> In x (entries m D).
  Proof. symmetry. apply entries_in. Qed.

  Lemma cred_in_okv m D x : okv_on m D -> cred_in m D x -> okv x.
  Proof. intros Hok (i & j & Hi & Hj & ->). now apply Hok. Qed.

  Lemma cred_in_eqset m D D' x : eqset D D' -> cred_in m D x -> cred_in m D' x.
  Proof. intros H (i & j & Hi & Hj & E). exists i, j. split; [now apply H|]. split; [now apply H|exact E]. Qed.

  Lemma okv_on_eqset m D D' : eqset D D' -> okv_on m D -> okv_on m D'.
  Proof. intros H Hok i j Hi Hj. apply Hok; now apply H. Qed.

  (** ** the two cut levels *)
  Theorem max_cred_is_max_cred m D : okv_on m D -> is_max_cred m D (max_cred m D).
  Proof.
    intros Hok. unfold max_cred. change (fun best x : num => if nltb best x then x else best) with maxstep.
    destruct (fold_max_spec (entries m D) nzero okv_zero (okv_on_entries m D Hok)) as (_ & B & C & E).
    split; [exact C|]. split.
    - intros x Hx. apply E. now apply cred_in_entries.
    - destruct B as [B|B]; [now left|right; now apply cred_in_entries].
  Qed.

  Theorem min_cred_is_next_cut m f lam D : okv_on m D -> is_next_cut m f lam D (min_cred m f lam D).
  Proof.
    intros Hok. unfold min_cred, is_next_cut. cbv zeta. rewrite fold_min_as_max.
    set (thr := nsub lam (dist_value f lam)).
    assert (Forall okv (filter (fun x => nltb x thr) (entries m D))) as HF.
    { apply Forall_forall. intros x Hx. apply filter_In in Hx as [Hx _].
      pose proof (okv_on_entries m D Hok) as F. rewrite Forall_forall in F. now apply F. }
    destruct (fold_max_spec _ nzero okv_zero HF) as (_ & B & C & E).
    split; [exact C|]. split.
    - intros x Hx Hlt. apply E. apply filter_In. split; [now apply cred_in_entries|exact Hlt].
    - destruct B as [B|B]; [now left|right]. apply filter_In in B as [B1 B2].
      split; [now apply cred_in_entries|exact B2].
  Qed.

  Lemma is_max_cred_okv m D lam : okv_on m D -> is_max_cred m D lam -> okv lam.
  Proof. intros Hok (_ & _ & [->|H]); [exact okv_zero|now apply cred_in_okv with m D]. Qed.

  Lemma is_next_cut_okv m f lam D lam' : okv_on m D -> is_next_cut m f lam D lam' -> okv lam'.
  Proof. intros Hok (_ & _ & [->|[H _]]); [exact okv_zero|now apply cred_in_okv with m D]. Qed.

  Theorem is_max_cred_unique m D D' a b :
    okv_on m D -> eqset D D' -> is_max_cred m D a -> is_max_cred m D' b -> a = b.
  Proof.
    intros Hok HS HA HB.
    pose proof (okv_on_eqset m D D' HS Hok) as Hok'.
    pose proof (is_max_cred_okv _ _ _ Hok HA) as Oa. pose proof (is_max_cred_okv _ _ _ Hok' HB) as Ob.
    destruct HA as (A1 & A2 & A3), HB as (B1 & B2 & B3).
    apply le_antisym; try assumption.
    - destruct A3 as [->|A3]; [exact B1|]. apply B2. now apply cred_in_eqset with D.
    - destruct B3 as [->|B3]; [exact A1|]. apply A2. apply cred_in_eqset with D'; [now apply eqset_sym|exact B3].
  Qed.

  Theorem is_next_cut_unique m f lam D D' a b :
    okv_on m D -> eqset D D' -> is_next_cut m f lam D a -> is_next_cut m f lam D' b -> a = b.
  Proof.
    intros Hok HS HA HB.
    pose proof (okv_on_eqset m D D' HS Hok) as Hok'.
    pose proof (is_next_cut_okv _ _ _ _ _ Hok HA) as Oa. pose proof (is_next_cut_okv _ _ _ _ _ Hok' HB) as Ob.
    destruct HA as (A1 & A2 & A3), HB as (B1 & B2 & B3).
    apply le_antisym; try assumption.
    - destruct A3 as [->|[A3 A4]]; [exact B1|]. apply B2; [now apply cred_in_eqset with D|exact A4].
    - destruct B3 as [->|[B3 B4]]; [exact A1|]. apply A2; [|exact B4].
      apply cred_in_eqset with D'; [now apply eqset_sym|exact B3].
  Qed.

  (** ** the diagonal does not matter when it is 0 (as in every [cred_matrix]): the two cut
      levels are then the text-book ones, taken over the pairs of distinct members of [D] *)
  Definition cred_in_off (m : list (list num)) (D : list nat) (x : num) : Prop :=
    exists i j, In i D /\ In j D /\ i <> j /\ x = sig m i j.

  Theorem is_max_cred_offdiag m D lam :
    (forall i, In i D -> sig m i i = nzero) ->
    (is_max_cred m D lam <->
     num_le nzero lam /\ (forall x, cred_in_off m D x -> num_le x lam) /\ (lam = nzero \/ cred_in_off m D lam)).
  Proof.
    intros Hd. split.
    - intros (A1 & A2 & A3). split; [exact A1|]. split.
      + intros x (i & j & Hi & Hj & _ & E). apply A2. now exists i, j.
      + destruct A3 as [A3|(i & j & Hi & Hj & E)]; [now left|].
        destruct (Nat.eq_dec i j) as [<-|Hne]; [left; now rewrite E, Hd|right; now exists i, j].
    - intros (A1 & A2 & A3). split; [exact A1|]. split.
      + intros x (i & j & Hi & Hj & E).
        destruct (Nat.eq_dec i j) as [<-|Hne]; [now rewrite E, Hd|apply A2; now exists i, j].
      + destruct A3 as [A3|(i & j & Hi & Hj & _ & E)]; [now left|right; now exists i, j].
  Qed.

  Theorem is_next_cut_offdiag m f lam D lam' :
    (forall i, In i D -> sig m i i = nzero) ->
    (is_next_cut m f lam D lam' <->
     num_le nzero lam' /\
     (forall x, cred_in_off m D x -> num_lt x (nsub lam (dist_value f lam)) -> num_le x lam') /\
     (lam' = nzero \/ (cred_in_off m D lam' /\ num_lt lam' (nsub lam (dist_value f lam))))).
  Proof.
    intros Hd. unfold is_next_cut. cbv zeta. split.
    - intros (A1 & A2 & A3). split; [exact A1|]. split.
      + intros x (i & j & Hi & Hj & _ & E). apply A2. now exists i, j.
      + destruct A3 as [A3|[(i & j & Hi & Hj & E) A4]]; [now left|].
        destruct (Nat.eq_dec i j) as [<-|Hne]; [left; now rewrite E, Hd|right; split; [now exists i, j|exact A4]].
    - intros (A1 & A2 & A3). split; [exact A1|]. split.
      + intros x (i & j & Hi & Hj & E).
        destruct (Nat.eq_dec i j) as [<-|Hne]; [intros _; now rewrite E, Hd|apply A2; now exists i, j].
      + destruct A3 as [A3|[(i & j & Hi & Hj & _ & E) A4]]; [now left|right; split; [now exists i, j|exact A4]].
  Qed.

  Lemma cred_matrix_diag alts cs ecs (m : list (list num)) i :
    cred_matrix alts cs ecs = Ok m -> sig m i i = nzero.
  Proof.
    intros H. destruct (nth_opt i alts) as [a|] eqn:Ea.
    - pose proof (sig_cred_gen alts cs ecs m i i a a H Ea Ea) as E. rewrite Nat.eqb_refl in E.
      now injection E as <-.
    - unfold sig. destruct (nth_opt i m) as [row|] eqn:Er; [|reflexivity]. exfalso.
      assert (forall (A : Type) (l : list A) k, nth_opt k l = None <-> List.length l <= k) as Hn.
      { induction l as [|x l IHl]; intros [|k]; cbn [nth_opt List.length]; split; intros; try lia; try reflexivity; try discriminate.
        - apply IHl in H0. lia.
        - apply IHl. lia. }
      apply Hn in Ea. rewrite <- (cred_matrix_length _ _ _ _ H) in Ea. apply Hn in Ea. congruence.
  Qed.

  (** ** outranking, qualification, best qualified *)
  Lemma outranks_iff m f mc i j : okv mc -> okv (sig m i j) ->
    outranks m f mc i j = true <-> outranks_at m f mc i j.
  Proof.
    intros Hm Hv. unfold outranks, outranks_at, num_lt. cbv zeta.
    rewrite (ltb_leb mc (sig m i j)) by assumption. rewrite !andb_true_iff. tauto.
  Qed.

  Theorem quality_is_qualification m f mc D i :
    NoDup D -> okv mc -> okv_on m D -> In i D -> has_qualification m f mc D i (quality m f mc D i).
  Proof.
    intros ND Hm Hok Hi. unfold quality, count.
    exists (List.length (filter (fun j => outranks m f mc i j) D)),
           (List.length (filter (fun j => outranks m f mc j i) D)).
    split; [|split; [|reflexivity]].
    - apply card_filter; [exact ND|]. intros j Hj. apply outranks_iff; [exact Hm|now apply Hok].
    - apply card_filter; [exact ND|]. intros j Hj. apply outranks_iff; [exact Hm|now apply Hok].
  Qed.

  Theorem qualification_unique m f lam' D i q q' :
    has_qualification m f lam' D i q -> has_qualification m f lam' D i q' -> q = q'.
  Proof.
    intros (s & w & S & W & ->) (s' & w' & S' & W' & ->).
    rewrite (card_unique _ _ _ S S'), (card_unique _ _ _ W W'). reflexivity.
  Qed.

  Lemma has_qualification_eqset m f lam' D D' i q :
    eqset D D' -> has_qualification m f lam' D i q -> has_qualification m f lam' D' i q.
  Proof.
    intros HS (s & w & S & W & E). exists s, w. split; [|split; [|exact E]].
    - eapply card_ext; [|exact S]. intros j. cbv beta. now rewrite (HS j).
    - eapply card_ext; [|exact W]. intros j. cbv beta. now rewrite (HS j).
  Qed.

  Theorem best_set_is_best_qualified m f mc asc D :
    NoDup D -> okv mc -> okv_on m D -> best_qualified asc m f mc D (best_set m f mc asc D).
  Proof.
    intros ND Hm Hok. rewrite best_set_eq.
    set (bv := best_value asc (map (quality m f mc D) D)).
    split; [now apply NoDup_filter|]. intros i. rewrite filter_In. split.
    - intros [Hi E]. apply Z.eqb_eq in E. split; [exact Hi|].
      exists (quality m f mc D i). split; [now apply quality_is_qualification|].
      intros j q' Hj Hq'.
      rewrite (qualification_unique _ _ _ _ _ _ _ Hq' (quality_is_qualification m f mc D j ND Hm Hok Hj)).
      rewrite E. apply best_value_bound. now apply in_map.
    - intros [Hi (q & Hq & Hall)]. split; [exact Hi|]. apply Z.eqb_eq.
      rewrite (qualification_unique _ _ _ _ _ _ _ Hq (quality_is_qualification m f mc D i ND Hm Hok Hi)) in Hall.
      assert (In bv (map (quality m f mc D) D)) as Hb.
      { apply best_value_in. destruct D; [destruct Hi|discriminate]. }
      apply in_map_iff in Hb as (j & Ej & Hj).
      pose proof (Hall j _ Hj (quality_is_qualification m f mc D j ND Hm Hok Hj)) as H1.
      pose proof (best_value_bound asc (map (quality m f mc D) D) (quality m f mc D i)
                    (in_map _ _ _ Hi)) as H2.
      fold bv in H2. rewrite Ej in H1. destruct asc; lia.
  Qed.

  Theorem best_qualified_eqset asc m f lam' D D' B B' :
    eqset D D' -> best_qualified asc m f lam' D B -> best_qualified asc m f lam' D' B' -> eqset B B'.
  Proof.
    assert (forall D D' B B', eqset D D' -> best_qualified asc m f lam' D B ->
              best_qualified asc m f lam' D' B' -> forall i, In i B -> In i B') as Half.
    { intros D0 D0' B0 B0' HS [_ HB] [_ HB'] i Hi. apply HB in Hi as [Hi (q & Hq & Hall)].
      apply HB'. split; [now apply HS|]. exists q. split; [now apply has_qualification_eqset with D0|].
      intros j q' Hj Hq'. apply (Hall j q'); [now apply HS|].
      apply has_qualification_eqset with D0'; [now apply eqset_sym|exact Hq']. }
    intros HS HB HB' i. split.
    - apply (Half D D' B B'); assumption.
    - apply (Half D' D B' B); try assumption. now apply eqset_sym.
  Qed.

  Lemma best_qualified_incl asc m f lam' D B : best_qualified asc m f lam' D B -> incl B D.
  Proof. intros [_ H] i Hi. now apply H in Hi. Qed.

  (** ** B1. the inner distillation of the model extracts the declarative class (exactly, as the
      same list: the model lists a class in the order of [D]) *)
  Theorem next_class_is_class_at : forall fuel m f asc lam D C,
    NoDup D -> okv_on m D ->
    next_class fuel m f asc lam D = Ok C -> class_at m f asc lam D C.
  Proof.
    induction fuel as [|fu IH]; intros m f asc lam D C ND Hok H; cbn [next_class] in H; [discriminate|].
    destruct (neqb lam nzero) eqn:E0.
    { injection H as <-. apply class_stop. now apply neqb_eq. }
    assert (lam <> nzero) as Hne.
    { intros ->. rewrite eqb_refl in E0 by exact okv_zero. discriminate. }
    set (mc := min_cred m f lam D) in *.
    pose proof (min_cred_is_next_cut m f lam D Hok) as Hcut. fold mc in Hcut.
    pose proof (is_next_cut_okv _ _ _ _ _ Hok Hcut) as Hmc.
    pose proof (best_set_is_best_qualified m f mc asc D ND Hmc Hok) as HB.
    destruct (Nat.ltb 1 (List.length (best_set m f mc asc D)) && nltb nzero mc) eqn:Ec.
    - apply andb_true_iff in Ec as [E1 E2]. apply Nat.ltb_lt in E1.
      apply class_inner with mc (best_set m f mc asc D); try assumption.
      apply IH; [apply HB| |exact H].
      eapply okv_on_incl; [apply best_set_incl|exact Hok].
    - injection H as <-. apply class_last with mc; try assumption.
      intros [A B]. apply Nat.ltb_lt in A. unfold num_lt in B. rewrite A, B in Ec. discriminate.
  Qed.

  (** ** B2. determinism of the declarative class *)
  Theorem class_at_deterministic_gen m f asc : forall lam D C,
    class_at m f asc lam D C -> forall D' C', class_at m f asc lam D' C' ->
    NoDup D -> NoDup D' -> eqset D D' -> okv_on m D -> Permutation C C'.
  Proof.
    induction 1 as [lam D E0|lam D lam1 B Hne Hcut HB Hstop|lam D lam1 B C Hne Hcut HB Hlen Hpos Hrec IH];
      intros D' C' H' ND ND' HS Hok.
    - inversion H' as [? ? E0'|? ? lam2 B' Hne'|? ? lam2 B' ? Hne']; subst; try congruence.
      now apply eqset_perm.
    - inversion H' as [? ? E0'|? ? lam2 B' Hne' Hcut' HB' Hstop'|? ? lam2 B' ? Hne' Hcut' HB' Hlen' Hpos' Hrec']; subst;
        try congruence.
      + assert (lam1 = lam2) as <- by (eapply is_next_cut_unique; eassumption).
        apply eqset_perm; [apply HB|apply HB'|]. eapply best_qualified_eqset; eassumption.
      + assert (lam1 = lam2) as <- by (eapply is_next_cut_unique; eassumption).
        exfalso. apply Hstop. split; [|exact Hpos'].
        assert (Permutation B B') as P.
        { apply eqset_perm; [apply HB|apply HB'|]. eapply best_qualified_eqset; eassumption. }
        now rewrite (Permutation_length P).
    - inversion H' as [? ? E0'|? ? lam2 B' Hne' Hcut' HB' Hstop'|? ? lam2 B' ? Hne' Hcut' HB' Hlen' Hpos' Hrec']; subst;
        try congruence.
      + assert (lam1 = lam2) as <- by (eapply is_next_cut_unique; eassumption).
        exfalso. apply Hstop'. split; [|exact Hpos].
        assert (Permutation B C') as P.
        { apply eqset_perm; [apply HB|apply HB'|]. eapply best_qualified_eqset; eassumption. }
        now rewrite <- (Permutation_length P).
      + assert (lam1 = lam2) as <- by (eapply is_next_cut_unique; eassumption).
        apply IH with B'; try assumption; [apply HB|apply HB'| |].
        * eapply best_qualified_eqset; eassumption.
        * eapply okv_on_incl; [|exact Hok]. eapply best_qualified_incl; eassumption.
  Qed.

  Theorem class_at_deterministic m f asc lam D C C' :
    NoDup D -> okv_on m D ->
    class_at m f asc lam D C -> class_at m f asc lam D C' -> Permutation C C'.
  Proof.
    intros ND Hok H H'. eapply class_at_deterministic_gen; try eassumption. apply eqset_refl.
  Qed.

  Lemma class_at_incl m f asc : forall lam D C, class_at m f asc lam D C -> incl C D.
  Proof.
    induction 1 as [lam D E0|lam D lam1 B Hne Hcut HB Hstop|lam D lam1 B C Hne Hcut HB Hlen Hpos Hrec IH].
    - apply incl_refl.
    - eapply best_qualified_incl; eassumption.
    - eapply incl_tran; [exact IH|]. eapply best_qualified_incl; eassumption.
  Qed.

  (** ** B3. determinism of the declarative distillation *)
  Theorem distillation_deterministic_gen m f asc : forall D cl,
    distillation m f asc D cl -> forall D' cl', distillation m f asc D' cl' ->
    NoDup D -> NoDup D' -> eqset D D' -> okv_on m D -> Forall2 (@Permutation nat) cl cl'.
  Proof.
    induction 1 as [|D lam C D1 rest HD Hmax Hcl ND1 HD1 Hrest IH]; intros D' cl' H' ND ND' HS Hok.
    - inversion H' as [|D0 lam' C' D1' rest' HD' Hmax' Hcl' ND1' HD1' Hrest']; subst; [constructor|].
      exfalso. destruct D' as [|d D']; [congruence|]. apply (HS d). now left.
    - inversion H' as [|D0 lam' C' D1' rest' HD' Hmax' Hcl' ND1' HD1' Hrest']; subst.
      { exfalso. destruct D as [|d D]; [congruence|]. apply (HS d). now left. }
      assert (lam = lam') as <- by (eapply is_max_cred_unique; eassumption).
      assert (Permutation C C') as PC by (eapply class_at_deterministic_gen; eassumption).
      constructor; [exact PC|].
      apply IH with D1'; try assumption.
      + intros i. rewrite HD1, HD1', (HS i). pose proof (perm_eqset _ _ PC i) as Q. tauto.
      + eapply okv_on_incl; [|exact Hok]. intros i Hi. now apply HD1 in Hi.
  Qed.

  Theorem distillation_deterministic m f asc D cl cl' :
    NoDup D -> okv_on m D ->
    distillation m f asc D cl -> distillation m f asc D cl' -> Forall2 (@Permutation nat) cl cl'.
  Proof.
    intros ND Hok H H'. eapply distillation_deterministic_gen; try eassumption. apply eqset_refl.
  Qed.

  (** ** B4. the outer loop of the model builds the declarative distillation *)
  Lemma distill_classes : forall fuel m f asc D pos a,
    NoDup D -> okv_on m D -> distill fuel m f asc D pos = Ok a ->
    exists classes,
      distillation m f asc D classes /\ a = number_from pos classes /\
      Forall (fun C => C <> []) classes /\ Permutation (List.concat classes) D.
  Proof.
    induction fuel as [|fu IH]; intros m f asc D pos a ND Hok H; [discriminate|].
    destruct D as [|d D0].
    { cbn [distill] in H. injection H as <-. exists []. repeat split; constructor. }
    apply distill_step in H as (p & rest & EC & Hne & ER & ->).
    set (D := d :: D0) in *.
    assert (class_at m f asc (max_cred m D) D (filter p D)) as Hcl.
    { apply next_class_is_class_at with class_fuel; [exact ND|exact Hok|exact EC]. }
    clear EC.
    assert (okv_on m (filter (fun i => negb (p i)) D)) as Hok'.
    { eapply okv_on_incl; [|exact Hok]. intros i Hi. apply filter_In in Hi. apply Hi. }
    apply IH in ER as (cl & HD & -> & HF & HP); [|apply NoDup_filter; exact ND|exact Hok'].
    exists (filter p D :: cl). split; [|split; [reflexivity|split]].
    - apply dist_cons with (max_cred m D) (filter (fun i => negb (p i)) D).
      + discriminate.
      + apply max_cred_is_max_cred. exact Hok.
      + exact Hcl.
      + apply NoDup_filter. exact ND.
      + intros i. rewrite !filter_In. destruct (p i); cbn [negb]; intuition congruence.
      + exact HD.
    - constructor; assumption.
    - cbn [List.concat]. rewrite HP. apply filter_partition_perm.
  Qed.

  Theorem distill_is_distillation : forall fuel m f asc D pos a,
    NoDup D -> okv_on m D -> distill fuel m f asc D pos = Ok a ->
    exists classes,
      distillation m f asc D classes /\
      Permutation (List.concat classes) D /\
      (forall i k, has_class_number i classes k -> class_of i a = (pos + k - 1)%Z) /\
      (forall i, In i D -> exists k, has_class_number i classes k).
  Proof.
    intros fuel m f asc D pos a ND Hok H.
    destruct (distill_classes _ _ _ _ _ _ _ ND Hok H) as (cl & HD & -> & _ & HP).
    exists cl. split; [exact HD|]. split; [exact HP|]. split.
    - intros i k Hk. now apply class_of_number_from.
    - intros i Hi. apply class_number_exists. eapply Permutation_in; [symmetry; exact HP|exact Hi].
  Qed.

  (** ** B5. the two rankings *)
  Lemma positions_classes n pos cl :
    Permutation (List.concat cl) (seq 0 n) -> Forall (fun C => C <> []) cl ->
    (forall i, i < n -> has_class_number i cl (nth i (positions n (number_from pos cl)) 0%Z - pos + 1)%Z) /\
    (forall z, In z (positions n (number_from pos cl)) <-> (pos <= z <= pos + Z.of_nat (List.length cl) - 1)%Z).
  Proof.
    intros HP HF.
    assert (forall i, i < n -> exists k, has_class_number i cl k /\
              nth i (positions n (number_from pos cl)) 0%Z = (pos + k - 1)%Z) as Hk.
    { intros i Hi. destruct (class_number_exists i cl) as (k & Hk).
      { eapply Permutation_in; [symmetry; exact HP|]. apply in_seq. lia. }
      exists k. split; [exact Hk|]. rewrite positions_nth by exact Hi. now apply class_of_number_from. }
    split.
    - intros i Hi. destruct (Hk i Hi) as (k & H1 & ->). now replace (pos + k - 1 - pos + 1)%Z with k by lia.
    - intros z. split.
      + intros Hz. rewrite positions_eq in Hz. apply in_map_iff in Hz as (i & <- & Hi). apply in_seq in Hi.
        destruct (Hk i) as (k & H1 & H2); [lia|]. rewrite positions_nth in H2 by lia. rewrite H2.
        pose proof (class_number_range _ _ _ H1). lia.
      + intros Hz. set (k0 := Z.to_nat (z - pos)).
        destruct (nth_error cl k0) as [C|] eqn:EC.
        2:{ apply nth_error_None in EC. lia. }
        assert (C <> []) as HC.
        { rewrite Forall_forall in HF. apply HF. eapply nth_error_In. exact EC. }
        destruct C as [|i C]; [congruence|].
        assert (NoDup (List.concat cl)) as NDc.
        { eapply Permutation_NoDup; [symmetry; exact HP|apply seq_NoDup]. }
        pose proof (class_number_of_nth cl NDc k0 (i :: C) i EC (or_introl eq_refl)) as Hi.
        assert (i < n) as Hlt.
        { assert (In i (seq 0 n)) as Hs.
          { eapply Permutation_in; [exact HP|]. apply in_concat. exists (i :: C).
            split; [eapply nth_error_In; exact EC|now left]. }
          apply in_seq in Hs. lia. }
        rewrite positions_eq. apply in_map_iff. exists i. split; [|apply in_seq; lia].
        rewrite (class_of_number_from i cl _ Hi). lia.
  Qed.

  Theorem rank_ascending_spec : forall m f a,
    okv_on m (seq 0 (List.length m)) -> rank_ascending m f = Ok a ->
    exists classes,
      distillation m f true (seq 0 (List.length m)) classes /\
      List.length a = List.length m /\
      (forall i, i < List.length m -> has_class_number i classes (nth i a 0%Z)) /\
      (forall z, In z a <-> (1 <= z <= Z.of_nat (List.length classes))%Z).
  Proof.
    intros m f a Hok H. unfold rank_ascending in H.
    destruct (Nat.eqb (List.length m) 0); [discriminate|].
    set (n := List.length m) in *.
    destruct (distill (S n) m f true (seq 0 n) 1%Z) as [x|] eqn:E; cbn [bind] in H; [|discriminate].
    injection H as <-.
    destruct (distill_classes _ _ _ _ _ _ _ (seq_NoDup n 0) Hok E) as (cl & HD & -> & HF & HP).
    destruct (positions_classes n 1%Z cl HP HF) as [P1 P2].
    exists cl. split; [exact HD|]. split; [apply positions_length|]. split.
    - intros i Hi. specialize (P1 i Hi).
      now replace (nth i (positions n (number_from 1 cl)) 0 - 1 + 1)%Z
        with (nth i (positions n (number_from 1 cl)) 0%Z) in P1 by lia.
    - intros z. rewrite P2. lia.
  Qed.

  (** the descending ranking: class k of the K classes of the [asc = false] distillation is
      reported as K + 1 - k *)
  Theorem rank_descending_spec : forall m f d,
    okv_on m (seq 0 (List.length m)) -> rank_descending m f = Ok d ->
    exists classes,
      distillation m f false (seq 0 (List.length m)) classes /\
      List.length d = List.length m /\
      (forall i, i < List.length m -> exists k,
          has_class_number i classes k /\ nth i d 0%Z = (Z.of_nat (List.length classes) + 1 - k)%Z) /\
      (forall z, In z d <-> (1 <= z <= Z.of_nat (List.length classes))%Z).
  Proof.
    intros m f d Hok H. unfold rank_descending in H.
    destruct (Nat.eqb (List.length m) 0) eqn:En; [discriminate|]. apply Nat.eqb_neq in En.
    set (n := List.length m) in *.
    destruct (distill (S n) m f false (seq 0 n) 1%Z) as [x|] eqn:E; cbn [bind] in H; [|discriminate].
    cbv zeta in H. injection H as <-.
    destruct (distill_classes _ _ _ _ _ _ _ (seq_NoDup n 0) Hok E) as (cl & HD & -> & HF & HP).
    destruct (positions_classes n 1%Z cl HP HF) as [P1 P2].
    set (ps := positions n (number_from 1 cl)) in *.
    set (K := Z.of_nat (List.length cl)) in *.
    assert (forall z, In z ps <-> (1 <= z <= K)%Z) as P2' by (intros z; rewrite P2; lia).
    assert (List.length ps = n) as HL by apply positions_length.
    assert (fold_left Z.max ps 0%Z = K) as Hmx.
    { destruct (ElectreFacts.fold_max_spec ps 0%Z) as (A & B & C).
      assert (1 <= K)%Z as HK.
      { destruct ps as [|z ps']; [cbn [List.length] in HL; lia|].
        pose proof (proj1 (P2' z) (or_introl eq_refl)). lia. }
      assert (In K ps) as IK by (apply P2'; lia). apply B in IK.
      destruct C as [C|C]; [lia|]. apply P2' in C. lia. }
    rewrite Hmx.
    exists cl. split; [exact HD|]. split; [now rewrite map_length|]. split.
    - intros i Hi. exists (nth i ps 0 - 1 + 1)%Z. split; [now apply P1|].
      rewrite (nth_indep _ 0%Z (K + 1 - 0)%Z) by (rewrite map_length; lia).
      rewrite (map_nth (fun p => (K + 1 - p)%Z)). lia.
    - intros z. rewrite in_map_iff. split.
      + intros (p & <- & Hp). apply P2' in Hp. lia.
      + intros Hz. exists (K + 1 - z)%Z. split; [lia|]. apply P2'. lia.
  Qed.

  (** the specification determines the indices: whatever distillations one derives from the
      declarative rules, the model reports exactly their class numbers *)
  Theorem rank_ascending_determined : forall m f a classes,
    okv_on m (seq 0 (List.length m)) -> rank_ascending m f = Ok a ->
    distillation m f true (seq 0 (List.length m)) classes ->
    forall i, i < List.length m -> has_class_number i classes (nth i a 0%Z).
  Proof.
    intros m f a cl Hok H HD i Hi.
    destruct (rank_ascending_spec m f a Hok H) as (cl0 & HD0 & _ & P & _).
    apply class_number_perm with cl0; [|now apply P].
    eapply distillation_deterministic; try eassumption. apply seq_NoDup.
  Qed.

  Theorem rank_descending_determined : forall m f d classes,
    okv_on m (seq 0 (List.length m)) -> rank_descending m f = Ok d ->
    distillation m f false (seq 0 (List.length m)) classes ->
    forall i, i < List.length m -> exists k,
      has_class_number i classes k /\ nth i d 0%Z = (Z.of_nat (List.length classes) + 1 - k)%Z.
  Proof.
    intros m f d cl Hok H HD i Hi.
    destruct (rank_descending_spec m f d Hok H) as (cl0 & HD0 & _ & P & _).
    assert (Forall2 (@Permutation nat) cl0 cl) as F.
    { eapply distillation_deterministic; try eassumption. apply seq_NoDup. }
    destruct (P i Hi) as (k & Hk & E). exists k. split; [now apply class_number_perm with cl0|].
    now rewrite <- (forall2_length _ _ _ F).
  Qed.
End Model.

(** * Part C: the credibility matrix in closed form (exact rationals) *)
From Coq Require Import QArith Qcanon Lqa.
From RDM Require Import Base.NumQc.
From RDM Require Proofs.ElectreOrderFacts.
Local Open Scope Qc_scope.

Ltac qcring := change (@Base.Num.num NumQc) with Qc in *;
  cbn [nadd nsub nmul ndiv none nzero NumQc]; ring.

Section CredSpec.
  Notation altQ := (@alt NumQc).
  Notation critQ := (@crit NumQc).
  Notation ecritQ := (@ecrit NumQc).
  Notation linfunQ := (@linfun NumQc).

  (** A threshold is a linear function a*x + b of a criterion value; the function with
      a = 0 and b = 0 stands for "no threshold given" ([lf_eval] answers [(0, false)]). *)
  Definition absent (t : linfunQ) : Prop := lf_a t = 0 /\ lf_b t = 0.

  Definition absent_dec (t : linfunQ) : {absent t} + {~ absent t}.
  Proof.
    unfold absent. destruct (Qc_eq_dec (lf_a t) 0) as [A|A]; [|right; tauto].
    destruct (Qc_eq_dec (lf_b t) 0) as [B|B]; [left; tauto|right; tauto].
  Defined.

  Definition threshold (t : linfunQ) (x : Qc) : option Qc :=
    if absent_dec t then None else Some (lf_a t * x + lf_b t).

  (** the value the formulas use for a threshold that is not given, and "d is beyond t" *)
  Definition tval (o : option Qc) : Qc := match o with Some y => y | None => 0 end.
  Definition beyond (o : option Qc) (d : Qc) : Prop := match o with Some y => y < d | None => True end.

  (** Partial concordance c and partial discordance D of "a is at least as good as b" on one
      criterion, as a function of d = g(b) - g(a) (how much a is worse) and of the indifference,
      preference and veto thresholds q, p, v:
      - a not worse (d <= 0), or d within q:            c = 1, D = 0
      - beyond q, within p:                              c = 1 - (d - q)/(p - q), D = 0
      - beyond q and p, within v:                        c = 0, D = (d - p)/(v - p)
      - beyond v:                                        c = 0, D = 1
      - beyond q and p, no veto threshold:               c = 0, D = 0
      A threshold that is not given counts as exceeded ("beyond") and enters the two linear
      formulas with the value 0 -- this is literally what [electre_pair] does (after parameter
      validation q <= p <= v holds for the thresholds that are given). *)
  Inductive pair_spec (q p v : option Qc) (d : Qc) : Qc -> Qc -> Prop :=
  | ps_not_worse : d <= 0 -> pair_spec q p v d 1 0
  | ps_indifferent : forall qv, 0 < d -> q = Some qv -> d <= qv -> pair_spec q p v d 1 0
  | ps_weak : forall pv, 0 < d -> beyond q d -> p = Some pv -> d <= pv ->
      pair_spec q p v d (1 - (d - tval q) / (pv - tval q)) 0
  | ps_discordant : forall vv, 0 < d -> beyond q d -> beyond p d -> v = Some vv -> d <= vv ->
      pair_spec q p v d 0 ((d - tval p) / (vv - tval p))
  | ps_veto : forall vv, 0 < d -> beyond q d -> beyond p d -> v = Some vv -> vv < d ->
      pair_spec q p v d 0 1
  | ps_no_veto : 0 < d -> beyond q d -> beyond p d -> v = None -> pair_spec q p v d 0 0.

  Lemma lf_eval_threshold (t : linfunQ) (x : Qc) :
    lf_eval t x = (tval (threshold t x), match threshold t x with Some _ => true | None => false end).
  Proof.
    unfold lf_eval, threshold.
    destruct (absent_dec t) as [[A B]|HA]; cbn [tval].
    - rewrite A, B. assert (@neqb NumQc 0 nzero = true) as -> by now apply neqb_iff. reflexivity.
    - destruct (@neqb NumQc (lf_a t) nzero && @neqb NumQc (lf_b t) nzero) eqn:E; [|reflexivity].
      apply andb_true_iff in E as [A B]. apply neqb_iff in A, B. exfalso. apply HA. split; assumption.
  Qed.

  Lemma beyond_of_false (o : option Qc) (d : Qc) :
    (match o with Some _ => true | None => false end) && @nleb NumQc d (tval o) = false -> beyond o d.
  Proof.
    destruct o as [y|]; cbn [andb tval beyond]; [|trivial]. intros H. now apply nleb_false in H.
  Qed.

  (** C1. the per-criterion pair of the model, in this vocabulary.  [c1], [c2] are the criterion
      values of the two alternatives with the sign of the criterion applied (a cost criterion is
      negated, see [crit_value]); the thresholds are evaluated at [sgn c c1], which is the
      value of the first alternative as given in the request ([sgn_sgn_Qc]). *)
  Theorem electre_pair_spec_Qc (c1 c2 : Qc) (c : critQ) (t : ecritQ) :
    let x := sgn c c1 in
    pair_spec (threshold (ec_q t) x) (threshold (ec_p t) x) (threshold (ec_v t) x) (c2 - c1)
              (fst (electre_pair c1 c2 c t)) (snd (electre_pair c1 c2 c t)).
  Proof.
    cbv zeta. unfold electre_pair.
    destruct (@nleb NumQc c2 c1) eqn:E0.
    { cbn [fst snd]. apply ps_not_worse. apply nleb_iff in E0. qc2q. lra. }
    assert (0 < c2 - c1) as Hd by (apply nleb_false in E0; qc2q; lra).
    rewrite !lf_eval_threshold.
    set (q := threshold (ec_q t) (sgn c c1)). set (p := threshold (ec_p t) (sgn c c1)).
    set (v := threshold (ec_v t) (sgn c c1)).
    change (@nsub NumQc c2 c1) with (c2 - c1). set (d := c2 - c1) in *.
    destruct ((match q with Some _ => true | None => false end) && @nleb NumQc d (tval q)) eqn:E1.
    { cbn [fst snd]. apply andb_true_iff in E1 as [A B]. destruct q as [qv|]; [|discriminate].
      apply ps_indifferent with qv; [exact Hd|reflexivity|now apply nleb_iff in B]. }
    apply beyond_of_false in E1.
    destruct ((match p with Some _ => true | None => false end) && @nleb NumQc d (tval p)) eqn:E2.
    { cbn [fst snd]. apply andb_true_iff in E2 as [A B]. destruct p as [pv|]; [|discriminate].
      apply (ps_weak q (Some pv) v d pv); [exact Hd|exact E1|reflexivity|now apply nleb_iff in B]. }
    apply beyond_of_false in E2.
    destruct ((match v with Some _ => true | None => false end) && @nleb NumQc d (tval v)) eqn:E3.
    { cbn [fst snd]. apply andb_true_iff in E3 as [A B]. destruct v as [vv|]; [|discriminate].
      apply (ps_discordant q p (Some vv) d vv); [exact Hd|exact E1|exact E2|reflexivity|now apply nleb_iff in B]. }
    destruct v as [vv|]; cbn [andb tval] in *.
    - apply nleb_false in E3. assert (@nltb NumQc vv d = true) as -> by now apply nltb_iff.
      cbn [fst snd]. now apply ps_veto with vv.
    - cbn [fst snd]. now apply ps_no_veto.
  Qed.

  Lemma sgn_sgn_Qc (c : critQ) (x : Qc) : sgn c (sgn c x) = x.
  Proof. unfold sgn. destruct (is_cost c); [|reflexivity]. exact (Qcopp_involutive x). Qed.

  (** the six cases exclude each other: the pair is determined *)
  Theorem pair_spec_deterministic q p v d c1 D1 c2 D2 :
    pair_spec q p v d c1 D1 -> pair_spec q p v d c2 D2 -> c1 = c2 /\ D1 = D2.
  Proof.
    assert (forall x y : Qc, x < y -> y <= x -> False) as K.
    { intros x y A B. unfold Qclt, Qcle in *. lra. }
    intros H1 H2; inversion H1; inversion H2; subst; cbn [beyond] in *;
      repeat match goal with
             | H : Some _ = Some _ |- _ => injection H as ?; subst
             | H : Some _ = None |- _ => discriminate H
             | H : None = Some _ |- _ => discriminate H
             end;
      try (split; reflexivity); exfalso; eauto using K.
  Qed.

  (** ** the aggregation *)
  Fixpoint qsum (l : list Qc) : Qc := match l with [] => 0 | x :: r => x + qsum r end.
  Fixpoint qprod (l : list Qc) : Qc := match l with [] => 1 | x :: r => x * qprod r end.

  (** one row per criterion: (weight k, (partial concordance c, partial discordance D)) *)
  Definition crow := (Qc * (Qc * Qc))%type.
  Definition row_k (r : crow) : Qc := fst r.
  Definition row_c (r : crow) : Qc := fst (snd r).
  Definition row_D (r : crow) : Qc := snd (snd r).

  (** global concordance C = (sum_j k_j c_j) / (sum_j k_j)   (x / 0 = 0 on [Qc]) *)
  Definition concordance (rs : list crow) : Qc :=
    qsum (map (fun r => row_k r * row_c r) rs) / qsum (map row_k rs).

  Definition exceeds (C : Qc) (r : crow) : bool := if Qclt_le_dec C (row_D r) then true else false.

  (** credibility = C * product over the criteria with D_j > C of (1 - D_j)/(1 - C) *)
  Definition credibility_formula (rs : list crow) : Qc :=
    let C := concordance rs in
    C * qprod (map (fun r => (1 - row_D r) / (1 - C)) (filter (exceeds C) rs)).

  (** the row of criterion [c] for "a outranks b": raw values ra, rb as given in the request,
      g = value with the sign of the criterion, thresholds evaluated at ra *)
  Definition criterion_row (a b : altQ) (ecs : smap ecritQ) (c : critQ) (r : crow) : Prop :=
    exists ra rb t,
      raw_value a c = Ok ra /\ raw_value b c = Ok rb /\ mget (c_id c) ecs = Some t /\
      row_k r = ec_k t /\
      pair_spec (threshold (ec_q t) ra) (threshold (ec_p t) ra) (threshold (ec_v t) ra)
                (sgn c rb - sgn c ra) (row_c r) (row_D r).

  Definition credibility_is (a b : altQ) (cs : list critQ) (ecs : smap ecritQ) (x : Qc) : Prop :=
    exists rs, Forall2 (criterion_row a b ecs) cs rs /\ x = credibility_formula rs.

  Lemma mapM_Forall2_ok {A B} (F : A -> res B) l : forall rs,
    mapM F l = Ok rs -> Forall2 (fun x y => F x = Ok y) l rs.
  Proof.
    induction l as [|x l IH]; intros rs H; cbn [mapM] in H.
    - injection H as <-. constructor.
    - destruct (F x) as [y|] eqn:Ey; cbn [bind] in H; [|discriminate].
      destruct (mapM F l) as [ys|] eqn:El; cbn [bind] in H; [|discriminate].
      injection H as <-. constructor; [exact Ey|now apply IH].
  Qed.

  Lemma wsum_fold (rs : list crow) : forall acc : Qc,
    fold_left (fun acc (r : crow) => @nadd NumQc acc (fst r)) rs acc = acc + qsum (map row_k rs).
  Proof.
    induction rs as [|r rs IH]; intros acc; cbn [fold_left map qsum]; [qcring|].
    rewrite IH. unfold row_k. qcring.
  Qed.

  Lemma tot_fold (rs : list crow) : forall acc : Qc,
    fold_left (fun acc (r : crow) => @nadd NumQc acc (@nmul NumQc (fst r) (fst (snd r)))) rs acc
    = acc + qsum (map (fun r => row_k r * row_c r) rs).
  Proof.
    induction rs as [|r rs IH]; intros acc; cbn [fold_left map qsum]; [qcring|].
    rewrite IH. unfold row_k, row_c. qcring.
  Qed.

  Lemma exceeds_nltb (C : Qc) (r : crow) : @nltb NumQc C (snd (snd r)) = exceeds C r.
  Proof.
    unfold exceeds, row_D. destruct (Qclt_le_dec C (snd (snd r))) as [A|A].
    - now apply nltb_iff.
    - now apply nltb_false.
  Qed.

  Lemma cred_fold (C : Qc) (rs : list crow) : forall x : Qc,
    fold_left (fun cred (r : crow) =>
                 let D := snd (snd r) in
                 if @nltb NumQc C D then @nmul NumQc cred (@ndiv NumQc (@nsub NumQc none D) (@nsub NumQc none C))
                 else cred) rs x
    = x * qprod (map (fun r => (1 - row_D r) / (1 - C)) (filter (exceeds C) rs)).
  Proof.
    induction rs as [|r rs IH]; intros x; cbn [fold_left filter]; [cbn [map qprod]; qcring|].
    rewrite IH. cbv zeta. rewrite exceeds_nltb. destruct (exceeds C r); [|reflexivity].
    cbn [map qprod]. unfold row_D. qcring.
  Qed.

  (** C2. the credibility of the model is the closed formula over the rows of the criteria *)
  Theorem credibility_spec_Qc : forall (a b : altQ) (cs : list critQ) (ecs : smap ecritQ) (x : Qc),
    credibility a b cs ecs = Ok x -> credibility_is a b cs ecs x.
  Proof.
    intros a b cs ecs x H. unfold credibility in H.
    match type of H with bind (mapM ?F cs) _ = _ => set (F0 := F) in H end.
    destruct (mapM F0 cs) as [rs|] eqn:ER; cbn [bind] in H; [|discriminate].
    injection H as <-. exists rs. split.
    - apply mapM_Forall2_ok in ER. revert ER. apply forall2_impl. intros c r Hr. unfold F0 in Hr.
      unfold crit_value in Hr.
      destruct (raw_value a c) as [ra|] eqn:Ea; cbn [bind] in Hr; [|discriminate].
      destruct (raw_value b c) as [rb|] eqn:Eb; cbn [bind] in Hr; [|discriminate].
      destruct (mget (c_id c) ecs) as [t|] eqn:Et; cbn [of_option bind] in Hr; [|discriminate].
      injection Hr as <-. exists ra, rb, t.
      split; [exact Ea|]. split; [exact Eb|]. split; [exact Et|]. split; [reflexivity|].
      unfold row_c, row_D. cbn [fst snd].
      pose proof (electre_pair_spec_Qc (sgn c ra) (sgn c rb) c t) as P. cbv zeta in P.
      rewrite sgn_sgn_Qc in P. exact P.
    - unfold credibility_formula, concordance. cbv zeta.
      rewrite cred_fold, tot_fold, wsum_fold. change (@nzero NumQc) with 0.
      cbn [ndiv NumQc]. rewrite !Qcplus_0_l. reflexivity.
  Qed.

  (** ... and the declarative relation determines the value *)
  Theorem credibility_is_deterministic a b cs ecs x y :
    credibility_is a b cs ecs x -> credibility_is a b cs ecs y -> x = y.
  Proof.
    intros (rs & F & ->) (rs' & F' & ->). f_equal.
    revert rs' F'. induction F as [|c r cs rs Hr F IH]; intros rs' F'; inversion F'; subst; [reflexivity|].
    f_equal; [|now apply IH].
    destruct Hr as (ra & rb & t & A1 & A2 & A3 & A4 & A5).
    match goal with H : criterion_row _ _ _ c ?r' |- _ => destruct H as (ra' & rb' & t' & B1 & B2 & B3 & B4 & B5) end.
    rewrite A1 in B1. injection B1 as <-. rewrite A2 in B2. injection B2 as <-.
    rewrite A3 in B3. injection B3 as <-.
    destruct (pair_spec_deterministic _ _ _ _ _ _ _ _ A5 B5) as [E1 E2].
    unfold row_k, row_c, row_D in *. destruct r as [k [cc dd]], y as [k' [cc' dd']]. cbn [fst snd] in *. congruence.
  Qed.

  (** the matrix of a list of alternatives: 0 on the diagonal, the credibility elsewhere *)
  Definition is_cred_matrix (alts : list altQ) (cs : list critQ) (ecs : smap ecritQ) (m : list (list Qc)) : Prop :=
    List.length m = List.length alts /\
    forall i j a b, nth_opt i alts = Some a -> nth_opt j alts = Some b ->
      (i = j -> @sig NumQc m i j = 0) /\
      (i <> j -> credibility_is a b cs ecs (@sig NumQc m i j)).

  Theorem cred_matrix_spec_Qc alts cs ecs (m : list (list Qc)) :
    @cred_matrix NumQc alts cs ecs = Ok m -> is_cred_matrix alts cs ecs m.
  Proof.
    intros H. split; [now apply (@cred_matrix_length NumQc) with cs ecs|].
    intros i j a b Ha Hb. pose proof (@sig_cred_gen NumQc alts cs ecs m i j a b H Ha Hb) as E.
    split.
    - intros ->. rewrite Nat.eqb_refl in E. now injection E as <-.
    - intros Hne. apply Nat.eqb_neq in Hne. rewrite Hne in E. now apply credibility_spec_Qc.
  Qed.
End CredSpec.

(** * Part D: a passed check yields the property *)
Local Close Scope Qc_scope.
Local Close Scope Q_scope.

Lemma list_eqb_Z_eq : forall l l' : list Z, list_eqb Z.eqb l l' = true -> l = l'.
Proof.
  induction l as [|x l IH]; intros [|y l'] H; cbn [list_eqb] in H; try discriminate; [reflexivity|].
  apply andb_true_iff in H as [A B]. apply Z.eqb_eq in A. subst y. f_equal. now apply IH.
Qed.

Lemma list_eqb_string_eq : forall l l' : list string, list_eqb String.eqb l l' = true -> l = l'.
Proof.
  induction l as [|x l IH]; intros [|y l'] H; cbn [list_eqb] in H; try discriminate; [reflexivity|].
  apply andb_true_iff in H as [A B]. apply String.eqb_eq in A. subst y. f_equal. now apply IH.
Qed.

Lemma nth_opt_nth_map {A B} (g : A -> B) (d : B) (l : list A) : forall i e,
  nth_opt i l = Some e -> i < List.length l /\ nth i (map g l) d = g e.
Proof.
  induction l as [|x l IH]; intros i e H; [destruct i; discriminate|].
  destruct i as [|i]; cbn [nth_opt map nth List.length] in *.
  - injection H as ->. split; [lia|reflexivity].
  - destruct (IH i e H) as [H1 H2]. split; [lia|exact H2].
Qed.

Section Sound.
  Context {N : Num} {L : OrdLaws N}.
  Hypothesis neqb_eq : forall x y : @Base.Num.num N, neqb x y = true -> x = y.
  Hypothesis okv_zero : okv nzero.

  (** the links of [e]: the ids of the entries [x] of [obs] (in the order of [obs]) other than
      [e] whose two indices are both not smaller *)
  Definition links_spec (obs : list entry) (e : entry) : Prop :=
    e_links e =
    map eid (filter (fun x => negb (String.eqb (eid x) (eid e))
                              && (asc_of e <=? asc_of x)%Z && (desc_of e <=? desc_of x)%Z) obs).

  Lemma links_spec_In obs e : links_spec obs e ->
    forall s, In s (e_links e) <->
      exists x, In x obs /\ eid x = s /\ eid x <> eid e /\
                (asc_of e <= asc_of x)%Z /\ (desc_of e <= desc_of x)%Z.
  Proof.
    intros H s. rewrite H, in_map_iff. split.
    - intros (x & Ex & Hx). apply filter_In in Hx as [Hx Hc].
      apply andb_true_iff in Hc as [Hc H3]. apply andb_true_iff in Hc as [H1 H2].
      apply negb_true_iff, String.eqb_neq in H1. apply Z.leb_le in H2, H3. exists x. auto.
    - intros (x & Hx & Ex & H1 & H2 & H3). exists x. split; [exact Ex|]. apply filter_In. split; [exact Hx|].
      apply String.eqb_neq in H1. apply Z.leb_le in H2, H3. now rewrite H1, H2, H3.
  Qed.

  (** The statement of C05 for the observed entries [obs] (the alternatives in the order of the
      output) under the final state [st]:
      there are the ELECTRE parameters, the credibility matrix [m] of the alternatives of [obs],
      a distillation [classes_asc] (best first, [asc = true]) and a distillation [classes_desc]
      (worst first, [asc = false]) of all indices such that every entry reports as ascendingIndex
      its class number in [classes_asc] and as descendingIndex K + 1 - its class number in
      [classes_desc] (K = number of classes), both index lists are exactly 1..K, and the links
      are as in [links_spec].  By [distillation_deterministic] the two distillations, hence the
      indices, are determined by [m] and [f]. *)
  Definition C05_spec (st : state) (obs : list entry) : Prop :=
    exists ecs f m classes_asc classes_desc,
      st_params st = PElectre ecs f /\
      cred_matrix (map e_alt obs) (st_crits st) ecs = Ok m /\
      distillation m f true (seq 0 (List.length obs)) classes_asc /\
      distillation m f false (seq 0 (List.length obs)) classes_desc /\
      (forall i e, nth_opt i obs = Some e ->
         exists a d kd,
           e_eval e = EElectre a d /\
           has_class_number i classes_asc a /\
           has_class_number i classes_desc kd /\
           d = (Z.of_nat (List.length classes_desc) + 1 - kd)%Z) /\
      (forall z, In z (map asc_of obs) <-> (1 <= z <= Z.of_nat (List.length classes_asc))%Z) /\
      (forall z, In z (map desc_of obs) <-> (1 <= z <= Z.of_nat (List.length classes_desc))%Z) /\
      (forall e, In e obs -> links_spec obs e).

  Theorem C05_ok_sound : forall st obs,
    (forall ecs f m, st_params st = PElectre ecs f ->
       cred_matrix (map e_alt obs) (st_crits st) ecs = Ok m -> okv_on m (seq 0 (List.length m))) ->
    C05_ok st obs = true -> C05_spec st obs.
  Proof.
    intros st obs Hokv H. unfold C05_ok in H. apply andb_true_iff in H as [HS H].
    destruct (st_params st) as [| | |ecs f| | |] eqn:Ep; try discriminate.
    destruct (cred_matrix (map e_alt obs) (st_crits st) ecs) as [m|] eqn:Em; [|discriminate].
    destruct (rank_ascending m f) as [a|] eqn:Ea; [|discriminate].
    destruct (rank_descending m f) as [d|] eqn:Ed; [|discriminate].
    apply andb_true_iff in H as [H1 H2]. apply list_eqb_Z_eq in H1, H2. subst a d.
    pose proof (Hokv ecs f m eq_refl Em) as Hok.
    pose proof (cred_matrix_length _ _ _ _ Em) as Lm. rewrite map_length in Lm.
    rewrite Lm in Hok.
    destruct (rank_ascending_spec neqb_eq okv_zero m f _ (eq_ind_r (fun k => okv_on m (seq 0 k)) Hok Lm) Ea)
      as (cla & HDa & _ & Pa & Ra).
    destruct (rank_descending_spec neqb_eq okv_zero m f _ (eq_ind_r (fun k => okv_on m (seq 0 k)) Hok Lm) Ed)
      as (cld & HDd & _ & Pd & Rd).
    rewrite Lm in HDa, HDd, Pa, Pd.
    unfold C05_struct_ok in HS.
    apply andb_true_iff in HS as [HS HL]. apply andb_true_iff in HS as [HS _].
    apply andb_true_iff in HS as [HE _].
    rewrite forallb_forall in HE, HL.
    exists ecs, f, m, cla, cld.
    split; [exact Ep|]. split; [exact Em|]. split; [exact HDa|]. split; [exact HDd|].
    split; [|split; [exact Ra|split; [exact Rd|]]].
    - intros i e Hi.
      destruct (nth_opt_nth_map asc_of 0%Z obs i e Hi) as [Hlt Ha].
      destruct (nth_opt_nth_map desc_of 0%Z obs i e Hi) as [_ Hd].
      pose proof (HE e (nth_opt_in _ _ _ Hi)) as He.
      destruct (e_eval e) as [?|x y|? ? ?|? ?|? ?] eqn:Ee; try discriminate.
      destruct (Pd i Hlt) as (kd & Hkd & Ekd).
      exists x, y, kd. split; [reflexivity|].
      unfold asc_of in Ha. unfold desc_of in Hd. rewrite Ee in Ha, Hd.
      split; [|split; [exact Hkd|]].
      + rewrite <- Ha. now apply Pa.
      + rewrite <- Hd. exact Ekd.
    - intros e He. unfold links_spec. apply list_eqb_string_eq. exact (HL e He).
  Qed.
End Sound.

(** * Corollaries on the exact rationals (no side conditions) *)
Corollary next_class_is_class_at_Qc : forall fuel (m : list (list (@Base.Num.num NumQc))) f asc lam D C,
  NoDup D -> next_class fuel m f asc lam D = Ok C -> class_at m f asc lam D C.
Proof.
  intros fuel m f asc lam D C ND H.
  exact (@next_class_is_class_at NumQc OrdQc neqb_eq_Qc okv_zero_Qc fuel m f asc lam D C ND (okv_on_Qc m D) H).
Qed.

Corollary class_at_deterministic_Qc : forall (m : list (list (@Base.Num.num NumQc))) f asc lam D C C',
  NoDup D -> class_at m f asc lam D C -> class_at m f asc lam D C' -> Permutation C C'.
Proof.
  intros m f asc lam D C C' ND.
  exact (@class_at_deterministic NumQc OrdQc neqb_eq_Qc okv_zero_Qc m f asc lam D C C' ND (okv_on_Qc m D)).
Qed.

Corollary distillation_deterministic_Qc : forall (m : list (list (@Base.Num.num NumQc))) f asc D cl cl',
  NoDup D -> distillation m f asc D cl -> distillation m f asc D cl' -> Forall2 (@Permutation nat) cl cl'.
Proof.
  intros m f asc D cl cl' ND.
  exact (@distillation_deterministic NumQc OrdQc neqb_eq_Qc okv_zero_Qc m f asc D cl cl' ND (okv_on_Qc m D)).
Qed.

Corollary distill_is_distillation_Qc : forall fuel (m : list (list (@Base.Num.num NumQc))) f asc D pos a,
  NoDup D -> distill fuel m f asc D pos = Ok a ->
  exists classes,
    distillation m f asc D classes /\
    Permutation (List.concat classes) D /\
    (forall i k, has_class_number i classes k -> class_of i a = (pos + k - 1)%Z) /\
    (forall i, In i D -> exists k, has_class_number i classes k).
Proof.
  intros fuel m f asc D pos a ND H.
  exact (@distill_is_distillation NumQc OrdQc neqb_eq_Qc okv_zero_Qc fuel m f asc D pos a ND (okv_on_Qc m D) H).
Qed.

Corollary rank_ascending_spec_Qc : forall (m : list (list (@Base.Num.num NumQc))) f a,
  rank_ascending m f = Ok a ->
  exists classes,
    distillation m f true (seq 0 (List.length m)) classes /\
    List.length a = List.length m /\
    (forall i, i < List.length m -> has_class_number i classes (nth i a 0%Z)) /\
    (forall z, In z a <-> (1 <= z <= Z.of_nat (List.length classes))%Z).
Proof.
  intros m f a. exact (@rank_ascending_spec NumQc OrdQc neqb_eq_Qc okv_zero_Qc m f a (okv_on_Qc m _)).
Qed.

Corollary rank_descending_spec_Qc : forall (m : list (list (@Base.Num.num NumQc))) f d,
  rank_descending m f = Ok d ->
  exists classes,
    distillation m f false (seq 0 (List.length m)) classes /\
    List.length d = List.length m /\
    (forall i, i < List.length m -> exists k,
        has_class_number i classes k /\ nth i d 0%Z = (Z.of_nat (List.length classes) + 1 - k)%Z) /\
    (forall z, In z d <-> (1 <= z <= Z.of_nat (List.length classes))%Z).
Proof.
  intros m f d. exact (@rank_descending_spec NumQc OrdQc neqb_eq_Qc okv_zero_Qc m f d (okv_on_Qc m _)).
Qed.

Corollary rank_ascending_determined_Qc : forall (m : list (list (@Base.Num.num NumQc))) f a classes,
  rank_ascending m f = Ok a -> distillation m f true (seq 0 (List.length m)) classes ->
  forall i, i < List.length m -> has_class_number i classes (nth i a 0%Z).
Proof.
  intros m f a cl. exact (@rank_ascending_determined NumQc OrdQc neqb_eq_Qc okv_zero_Qc m f a cl (okv_on_Qc m _)).
Qed.

Corollary rank_descending_determined_Qc : forall (m : list (list (@Base.Num.num NumQc))) f d classes,
  rank_descending m f = Ok d -> distillation m f false (seq 0 (List.length m)) classes ->
  forall i, i < List.length m -> exists k,
    has_class_number i classes k /\ nth i d 0%Z = (Z.of_nat (List.length classes) + 1 - k)%Z.
Proof.
  intros m f d cl. exact (@rank_descending_determined NumQc OrdQc neqb_eq_Qc okv_zero_Qc m f d cl (okv_on_Qc m _)).
Qed.

(** the property on exact rationals, with the credibility matrix in declarative form too *)
Definition C05_spec_Qc (st : @state NumQc) (obs : list (@entry NumQc)) : Prop :=
  exists ecs f m classes_asc classes_desc,
    st_params st = PElectre ecs f /\
    is_cred_matrix (map e_alt obs) (st_crits st) ecs m /\
    distillation m f true (seq 0 (List.length obs)) classes_asc /\
    distillation m f false (seq 0 (List.length obs)) classes_desc /\
    (forall i e, nth_opt i obs = Some e ->
       exists a d kd,
         e_eval e = EElectre a d /\
         has_class_number i classes_asc a /\
         has_class_number i classes_desc kd /\
         d = (Z.of_nat (List.length classes_desc) + 1 - kd)%Z) /\
    (forall z, In z (map asc_of obs) <-> (1 <= z <= Z.of_nat (List.length classes_asc))%Z) /\
    (forall z, In z (map desc_of obs) <-> (1 <= z <= Z.of_nat (List.length classes_desc))%Z) /\
    (forall e, In e obs -> links_spec obs e).

Corollary C05_ok_sound_Qc : forall (st : @state NumQc) (obs : list (@entry NumQc)),
  C05_ok st obs = true -> C05_spec_Qc st obs.
Proof.
  intros st obs H.
  destruct (@C05_ok_sound NumQc OrdQc neqb_eq_Qc okv_zero_Qc st obs (fun _ _ m _ _ => okv_on_Qc m _) H)
    as (ecs & f & m & cla & cld & H1 & H2 & H3).
  exists ecs, f, m, cla, cld. split; [exact H1|]. split; [|exact H3].
  now apply cred_matrix_spec_Qc.
Qed.

(** the model itself satisfies the property (via [electre_passes_checker]) *)
Corollary electre_evaluate_spec_Qc : forall (s : @state NumQc) r,
  NoDup (map a_id (st_cons s)) -> electre_evaluate s = Ok r -> C05_spec_Qc s r.
Proof. intros s r ND H. apply C05_ok_sound_Qc. now apply electre_passes_checker. Qed.

Corollary max_cred_is_max_cred_Qc : forall (m : list (list (@Base.Num.num NumQc))) D,
  is_max_cred m D (max_cred m D).
Proof. intros m D. exact (@max_cred_is_max_cred NumQc OrdQc okv_zero_Qc m D (okv_on_Qc m D)). Qed.

Corollary min_cred_is_next_cut_Qc : forall (m : list (list (@Base.Num.num NumQc))) f lam D,
  is_next_cut m f lam D (min_cred m f lam D).
Proof. intros m f lam D. exact (@min_cred_is_next_cut NumQc OrdQc okv_zero_Qc m f lam D (okv_on_Qc m D)). Qed.

Corollary quality_is_qualification_Qc : forall (m : list (list (@Base.Num.num NumQc))) f mc D i,
  NoDup D -> In i D -> has_qualification m f mc D i (quality m f mc D i).
Proof.
  intros m f mc D i ND Hi.
  exact (@quality_is_qualification NumQc OrdQc m f mc D i ND I (okv_on_Qc m D) Hi).
Qed.

Corollary best_set_is_best_qualified_Qc : forall (m : list (list (@Base.Num.num NumQc))) f mc asc D,
  NoDup D -> best_qualified asc m f mc D (best_set m f mc asc D).
Proof.
  intros m f mc asc D ND.
  exact (@best_set_is_best_qualified NumQc OrdQc m f mc asc D ND I (okv_on_Qc m D)).
Qed.

(** * Part E: an example.  Five alternatives, the default distillation function
    s(x) = 0.3 - 0.15 x.  The largest credibility is 0.9, the next cut level is 0.6; at 0.6 the
    qualifications are 1, 1, -1, -1, 0, so 0 and 1 are ex aequo best and an inner distillation of
    {0, 1} is needed: its next cut level is 0.1, where 0 outranks 1 (0.6 > 0.1 + s(0.6)), and the
    first class is {0}. *)
Definition exq (a b : Z) : Qc := Q2Qc (Qmake a (Z.to_pos b)).
Definition ex_f : @linfun NumQc := {| lf_a := exq (-15) 100; lf_b := exq 30 100 |}.
Definition ex_m : list (list Qc) :=
  [[exq 0 1;    exq 60 100; exq 90 100; exq 20 100; exq 40 100];
   [exq 10 100; exq 0 1;    exq 20 100; exq 90 100; exq 40 100];
   [exq 10 100; exq 20 100; exq 0 1;    exq 50 100; exq 30 100];
   [exq 20 100; exq 10 100; exq 10 100; exq 0 1;    exq 30 100];
   [exq 30 100; exq 30 100; exq 30 100; exq 50 100; exq 0 1]].
Definition ex_D : list nat := [0; 1; 2; 3; 4].
Definition ex_lam0 : Qc := @max_cred NumQc ex_m ex_D.
Definition ex_lam1 : Qc := @min_cred NumQc ex_m ex_f ex_lam0 ex_D.
Definition ex_lam2 : Qc := @min_cred NumQc ex_m ex_f ex_lam1 [0; 1].

Ltac ex_nodup := repeat (apply NoDup_cons; [cbn [In]; lia|]); apply NoDup_nil.

Example ex_cut_levels :
  (this ex_lam0 == 9 # 10)%Q /\ (this ex_lam1 == 6 # 10)%Q /\ (this ex_lam2 == 1 # 10)%Q /\
  is_max_cred ex_m ex_D ex_lam0 /\
  is_next_cut ex_m ex_f ex_lam0 ex_D ex_lam1 /\
  is_next_cut ex_m ex_f ex_lam1 [0; 1] ex_lam2.
Proof.
  split; [vm_compute; reflexivity|]. split; [vm_compute; reflexivity|]. split; [vm_compute; reflexivity|].
  split; [apply max_cred_is_max_cred_Qc|]. split; apply min_cred_is_next_cut_Qc.
Qed.

Example ex_qualifications :
  Forall2 (has_qualification ex_m ex_f ex_lam1 ex_D) ex_D [1; 1; -1; -1; 0]%Z.
Proof.
  assert (forall i q, In i ex_D -> @quality NumQc ex_m ex_f ex_lam1 ex_D i = q ->
            has_qualification ex_m ex_f ex_lam1 ex_D i q) as H.
  { intros i q Hi <-. apply quality_is_qualification_Qc; [unfold ex_D; ex_nodup|exact Hi]. }
  repeat (constructor; [apply H; [unfold ex_D; cbn [In]; lia|vm_compute; reflexivity]|]). constructor.
Qed.

Example ex_best_qualified :
  best_qualified true ex_m ex_f ex_lam1 ex_D [0; 1] /\
  best_qualified false ex_m ex_f ex_lam1 ex_D [2; 3] /\
  best_qualified true ex_m ex_f ex_lam2 [0; 1] [0].
Proof.
  split; [|split].
  - replace [0; 1] with (@best_set NumQc ex_m ex_f ex_lam1 true ex_D) by (vm_compute; reflexivity).
    apply best_set_is_best_qualified_Qc. unfold ex_D. ex_nodup.
  - replace [2; 3] with (@best_set NumQc ex_m ex_f ex_lam1 false ex_D) by (vm_compute; reflexivity).
    apply best_set_is_best_qualified_Qc. unfold ex_D. ex_nodup.
  - replace [0] with (@best_set NumQc ex_m ex_f ex_lam2 true [0; 1]) by (vm_compute; reflexivity).
    apply best_set_is_best_qualified_Qc. ex_nodup.
Qed.

(** the first class, derived step by step from the rules of [class_at] (not from the model) *)
Example ex_first_class : class_at ex_m ex_f true ex_lam0 ex_D [0].
Proof.
  destruct ex_cut_levels as (_ & _ & _ & _ & C1 & C2).
  destruct ex_best_qualified as (B1 & _ & B2).
  assert (forall x : Qc, (0 < this x)%Q -> x <> @nzero NumQc) as Hnz.
  { intros x Hx E. rewrite E in Hx. vm_compute in Hx. discriminate. }
  apply class_inner with ex_lam1 [0; 1].
  - apply Hnz. vm_compute. reflexivity.
  - exact C1.
  - exact B1.
  - cbn [List.length]. lia.
  - vm_compute. reflexivity.
  - apply class_last with ex_lam2.
    + apply Hnz. vm_compute. reflexivity.
    + exact C2.
    + exact B2.
    + cbn [List.length]. lia.
Qed.

(** ... and the model extracts the same class *)
Example ex_first_class_model : @next_class NumQc 10 ex_m ex_f true ex_lam0 ex_D = Ok [0].
Proof. vm_compute. reflexivity. Qed.

Ltac ex_dist_step cls rst :=
  match goal with |- distillation _ _ _ ?D0 _ =>
    apply dist_cons with (lam := @max_cred NumQc ex_m D0) (C := cls) (D1 := rst) end;
  [ discriminate
  | apply max_cred_is_max_cred_Qc
  | apply next_class_is_class_at_Qc with (fuel := 10); [ex_nodup|vm_compute; reflexivity]
  | ex_nodup
  | intros i; cbn [In]; lia
  | ].

(** the distillation that extracts the best first ([asc = true]) and the one that extracts the
    worst first ([asc = false]) *)
Example ex_distillation_asc : distillation ex_m ex_f true ex_D [[0]; [1]; [2]; [3; 4]].
Proof.
  unfold ex_D.
  ex_dist_step [0] [1; 2; 3; 4].
  ex_dist_step [1] [2; 3; 4].
  ex_dist_step [2] [3; 4].
  ex_dist_step [3; 4] (@nil nat).
  apply dist_nil.
Qed.

Example ex_distillation_desc : distillation ex_m ex_f false ex_D [[3]; [2]; [1]; [0; 4]].
Proof.
  unfold ex_D.
  ex_dist_step [3] [0; 1; 2; 4].
  ex_dist_step [2] [0; 1; 4].
  ex_dist_step [1] [0; 4].
  ex_dist_step [0; 4] (@nil nat).
  apply dist_nil.
Qed.

Example ex_rank_ascending : @rank_ascending NumQc ex_m ex_f = Ok [1; 2; 3; 4; 4]%Z.
Proof. vm_compute. reflexivity. Qed.

Example ex_rank_descending : @rank_descending NumQc ex_m ex_f = Ok [1; 2; 3; 4; 1]%Z.
Proof. vm_compute. reflexivity. Qed.

(** the reported indices are the class numbers of these distillations: directly ... *)
Example ex_class_numbers :
  Forall2 (fun i k => has_class_number i [[0]; [1]; [2]; [3; 4]] k) ex_D [1; 2; 3; 4; 4]%Z /\
  Forall2 (fun i k => has_class_number i [[3]; [2]; [1]; [0; 4]] (4 + 1 - k)%Z) ex_D [1; 2; 3; 4; 1]%Z.
Proof.
  assert (forall i C r, In i C -> has_class_number i (C :: r) 1%Z) as H1 by (intros; now constructor).
  assert (forall i C r k, ~ In i C -> has_class_number i r (k - 1)%Z -> has_class_number i (C :: r) k) as H2.
  { intros i C r k Hn H. replace k with (k - 1 + 1)%Z by lia. now constructor. }
  split; repeat (constructor;
    [cbn [Z.add Z.sub Z.opp Z.pos_sub Pos.add Pos.succ Pos.pred_double];
     repeat (first [apply H1; cbn [In]; lia | apply H2; [cbn [In]; lia|cbn [Z.sub Z.add Z.opp Z.pos_sub Pos.pred_double]]])|]);
    constructor.
Qed.

(** ... and through the theorems: any declarative distillation gives the reported indices *)
Example ex_agreement :
  (forall i, i < 5 -> has_class_number i [[0]; [1]; [2]; [3; 4]] (nth i [1; 2; 3; 4; 4]%Z 0%Z)) /\
  (forall i, i < 5 -> exists k, has_class_number i [[3]; [2]; [1]; [0; 4]] k /\
                                nth i [1; 2; 3; 4; 1]%Z 0%Z = (4 + 1 - k)%Z).
Proof.
  split.
  - exact (rank_ascending_determined_Qc ex_m ex_f _ _ ex_rank_ascending ex_distillation_asc).
  - exact (rank_descending_determined_Qc ex_m ex_f _ _ ex_rank_descending ex_distillation_desc).
Qed.

(** * Assumptions *)
Print Assumptions next_class_is_class_at.
Print Assumptions class_at_deterministic.
Print Assumptions distillation_deterministic.
Print Assumptions distill_is_distillation.
Print Assumptions rank_ascending_spec.
Print Assumptions rank_descending_spec.
Print Assumptions rank_ascending_determined.
Print Assumptions rank_descending_determined.
Print Assumptions is_max_cred_offdiag.
Print Assumptions is_next_cut_offdiag.
Print Assumptions cred_matrix_diag.
Print Assumptions electre_pair_spec_Qc.
Print Assumptions pair_spec_deterministic.
Print Assumptions credibility_spec_Qc.
Print Assumptions credibility_is_deterministic.
Print Assumptions cred_matrix_spec_Qc.
Print Assumptions C05_ok_sound.
Print Assumptions C05_ok_sound_Qc.
Print Assumptions electre_evaluate_spec_Qc.
Print Assumptions next_class_is_class_at_Qc.
Print Assumptions class_at_deterministic_Qc.
Print Assumptions distillation_deterministic_Qc.
Print Assumptions distill_is_distillation_Qc.
Print Assumptions rank_ascending_spec_Qc.
Print Assumptions rank_descending_spec_Qc.
Print Assumptions rank_ascending_determined_Qc.
Print Assumptions rank_descending_determined_Qc.
Print Assumptions ex_first_class.
Print Assumptions ex_distillation_asc.
Print Assumptions ex_distillation_desc.
Print Assumptions ex_agreement.
