(** * C06, soundness of the checker: what a passed check [C06_ok st obs = true] guarantees.

    Property text (C06): "If alternative a is at least as good as alternative b on every criterion, b is
    never placed in a better class than a in either distillation and a lists b in [betterThanOrSameAs];
    alternatives with identical criteria values receive identical indices and list each other. All
    indices are unchanged when the alternatives are listed in another order, and when every weight [k]
    is multiplied by the same power of two."

    The checker ([Check/C06.v]) is evaluated on data observed from the running program, so nothing is
    assumed about [st] and [obs] beyond what the checker tests.

    Contents
    - A. generic carrier: [at_least_as_good], the specification [C06_dom_spec] (dominance clause), the
         theorems [C06_ok_sound_dom] and [C06_dom_spec_complete] (the checker decides EXACTLY this
         specification: [C06_ok_iff_dom_spec]); with order laws, the clause about identical values
         ([C06_equal_spec], [C06_ok_sound_equal]).
    - B. exact rationals [NumQc]: the specification [C06_spec] stated with [<=] on [Qc] separately for
         gain and cost criteria, [C06_ok_sound], [C06_spec_complete], and the reading on entries whose
         evaluation is an ELECTRE pair ([C06_ok_sound_electre]).
    - C. examples (non-vacuity).

    What the checker does NOT test (see the report at the end of the file). *)
From Coq Require Import ZArith QArith Qcanon Bool List String Lia.
From RDM Require Import Base.Num Base.NumQc Base.Util Model.Data Model.Electre Check.C04 Check.C05 Check.C06
  Proofs.WfFacts Proofs.LevelFacts.
Import ListNotations.
Local Open Scope string_scope.
Local Open Scope list_scope.

(** * Part A: generic carrier *)
Section Generic.
  Context {N : Num}.

  (** [a] is at least as good as [b] on criterion [c]: both carry a value for [c] and the signed value
      of [b] (value for a gain criterion, opposite for a cost criterion) is below-or-equal the one of [a] *)
  Definition at_least_as_good_on (c : crit) (a b : alt) : Prop :=
    exists va vb, mget (c_id c) (a_vals a) = Some va /\ mget (c_id c) (a_vals b) = Some vb /\
                  nleb (sgn c vb) (sgn c va) = true.

  (** ... on every criterion of the list *)
  Definition at_least_as_good (cs : list crit) (a b : alt) : Prop :=
    forall c, In c cs -> at_least_as_good_on c a b.

  (** [a] and [b] carry the same value on every criterion of the list *)
  Definition identical_values (cs : list crit) (a b : alt) : Prop :=
    forall c, In c cs -> exists v, mget (c_id c) (a_vals a) = Some v /\ mget (c_id c) (a_vals b) = Some v.

  (** The dominance clause, for two returned entries with different identifiers. *)
  Record C06_dom_spec (st : state) (obs : list entry) : Prop := {
    (* b is not placed in a better (smaller) class than a by the first distillation *)
    dom_asc_not_better : forall ea eb, In ea obs -> In eb obs -> eid ea <> eid eb ->
        at_least_as_good (st_crits st) (e_alt ea) (e_alt eb) -> (asc_of ea <= asc_of eb)%Z;
    (* ... nor by the second distillation *)
    dom_desc_not_better : forall ea eb, In ea obs -> In eb obs -> eid ea <> eid eb ->
        at_least_as_good (st_crits st) (e_alt ea) (e_alt eb) -> (desc_of ea <= desc_of eb)%Z;
    (* a lists b in betterThanOrSameAs *)
    dom_listed : forall ea eb, In ea obs -> In eb obs -> eid ea <> eid eb ->
        at_least_as_good (st_crits st) (e_alt ea) (e_alt eb) -> In (eid eb) (e_links ea);
  }.

  (** The clause about identical values (a consequence of the dominance clause applied both ways). *)
  Record C06_equal_spec (P : crit -> num -> Prop) (st : state) (obs : list entry) : Prop := {
    equal_same_asc : forall ea eb, In ea obs -> In eb obs -> eid ea <> eid eb ->
        identical_values (st_crits st) (e_alt ea) (e_alt eb) ->
        (forall c v, In c (st_crits st) -> mget (c_id c) (a_vals (e_alt ea)) = Some v -> P c v) ->
        asc_of ea = asc_of eb;
    equal_same_desc : forall ea eb, In ea obs -> In eb obs -> eid ea <> eid eb ->
        identical_values (st_crits st) (e_alt ea) (e_alt eb) ->
        (forall c v, In c (st_crits st) -> mget (c_id c) (a_vals (e_alt ea)) = Some v -> P c v) ->
        desc_of ea = desc_of eb;
    equal_list_each_other : forall ea eb, In ea obs -> In eb obs -> eid ea <> eid eb ->
        identical_values (st_crits st) (e_alt ea) (e_alt eb) ->
        (forall c v, In c (st_crits st) -> mget (c_id c) (a_vals (e_alt ea)) = Some v -> P c v) ->
        In (eid eb) (e_links ea) /\ In (eid ea) (e_links eb);
  }.

  (** ** the boolean test [dominates] decides [at_least_as_good] *)
  Lemma dominates_iff cs a b : dominates cs a b = true <-> at_least_as_good cs a b.
  Proof.
    unfold dominates, at_least_as_good, at_least_as_good_on. rewrite forallb_forall. split.
    - intros H c Hc. specialize (H c Hc).
      destruct (mget (c_id c) (a_vals a)) as [va|]; [|discriminate].
      destruct (mget (c_id c) (a_vals b)) as [vb|]; [|discriminate].
      exists va, vb. repeat split; assumption.
    - intros H c Hc. destruct (H c Hc) as (va & vb & Ea & Eb & Hle). rewrite Ea, Eb. exact Hle.
  Qed.

  (** ** one pair *)
  Lemma pair_ok_sound cs ea eb :
    pair_ok cs ea eb = true -> eid ea <> eid eb -> at_least_as_good cs (e_alt ea) (e_alt eb) ->
    (asc_of ea <= asc_of eb)%Z /\ (desc_of ea <= desc_of eb)%Z /\ In (eid eb) (e_links ea).
  Proof.
    intros H Hne Hd. unfold pair_ok in H.
    destruct (String.eqb (eid ea) (eid eb)) eqn:Eid; [apply String.eqb_eq in Eid; contradiction|].
    apply dominates_iff in Hd. rewrite Hd in H.
    rewrite !andb_true_iff in H. destruct H as [[H1 H2] H3].
    split; [apply Z.leb_le, H1|]. split; [apply Z.leb_le, H2|]. apply mem_str_In, H3.
  Qed.

  Lemma pair_ok_complete cs ea eb :
    (eid ea <> eid eb -> at_least_as_good cs (e_alt ea) (e_alt eb) ->
     (asc_of ea <= asc_of eb)%Z /\ (desc_of ea <= desc_of eb)%Z /\ In (eid eb) (e_links ea)) ->
    pair_ok cs ea eb = true.
  Proof.
    intros H. unfold pair_ok.
    destruct (String.eqb (eid ea) (eid eb)) eqn:Eid; [reflexivity|]. apply String.eqb_neq in Eid.
    destruct (dominates cs (e_alt ea) (e_alt eb)) eqn:Ed; [|reflexivity].
    apply dominates_iff in Ed. destruct (H Eid Ed) as (H1 & H2 & H3).
    apply Z.leb_le in H1, H2. apply mem_str_In in H3. now rewrite H1, H2, H3.
  Qed.

  Lemma C06_ok_pairs st obs :
    C06_ok st obs = true <-> (forall ea eb, In ea obs -> In eb obs -> pair_ok (st_crits st) ea eb = true).
  Proof.
    unfold C06_ok. rewrite forallb_forall. split.
    - intros H ea eb Ha Hb. specialize (H ea Ha). rewrite forallb_forall in H. now apply H.
    - intros H ea Ha. apply forallb_forall. intros eb Hb. now apply H.
  Qed.

  (** ** soundness and completeness of the checker for the dominance clause *)
  Theorem C06_ok_sound_dom : forall (st : state) (obs : list entry),
    C06_ok st obs = true -> C06_dom_spec st obs.
  Proof.
    intros st obs H. rewrite C06_ok_pairs in H.
    split; intros ea eb Ha Hb Hne Hd; destruct (pair_ok_sound _ _ _ (H ea eb Ha Hb) Hne Hd) as (H1 & H2 & H3);
      assumption.
  Qed.

  Theorem C06_dom_spec_complete : forall (st : state) (obs : list entry),
    C06_dom_spec st obs -> C06_ok st obs = true.
  Proof.
    intros st obs [S1 S2 S3]. apply C06_ok_pairs. intros ea eb Ha Hb. apply pair_ok_complete.
    intros Hne Hd. split; [now apply S1|]. split; [now apply S2|now apply S3].
  Qed.

  Corollary C06_ok_iff_dom_spec : forall (st : state) (obs : list entry),
    C06_ok st obs = true <-> C06_dom_spec st obs.
  Proof. intros st obs. split; [apply C06_ok_sound_dom|apply C06_dom_spec_complete]. Qed.

  (** ** identical values: needs reflexivity of [nleb] on the compared (signed) values *)
  Lemma identical_at_least_as_good cs a b :
    identical_values cs a b ->
    (forall c v, In c cs -> mget (c_id c) (a_vals a) = Some v -> nleb (sgn c v) (sgn c v) = true) ->
    at_least_as_good cs a b /\ at_least_as_good cs b a.
  Proof.
    intros Hi Hr. split; intros c Hc; destruct (Hi c Hc) as (v & Ea & Eb); exists v, v;
      (split; [assumption|]); (split; [assumption|]); now apply (Hr c v Hc).
  Qed.

  Theorem C06_dom_equal_spec : forall (st : state) (obs : list entry),
    C06_dom_spec st obs -> C06_equal_spec (fun c v => nleb (sgn c v) (sgn c v) = true) st obs.
  Proof.
    intros st obs [S1 S2 S3].
    split; intros ea eb Ha Hb Hne Hi Hr;
      destruct (identical_at_least_as_good _ _ _ Hi Hr) as [D1 D2];
      assert (Hne' : eid eb <> eid ea) by (intros E; apply Hne; now symmetry).
    - apply Z.le_antisymm; now apply S1.
    - apply Z.le_antisymm; now apply S2.
    - split; now apply S3.
  Qed.

  (** with order laws the side condition is [okv] of the signed values *)
  Theorem C06_ok_sound_equal {L : OrdLaws N} : forall (st : state) (obs : list entry),
    C06_ok st obs = true -> C06_equal_spec (fun c v => okv (sgn c v)) st obs.
  Proof.
    intros st obs H. apply C06_ok_sound_dom, C06_dom_equal_spec in H. destruct H as [S1 S2 S3].
    split; intros ea eb Ha Hb Hne Hi Hr;
      [apply S1|apply S2|apply S3]; try assumption;
      intros c v Hc Hv; apply leb_refl; now apply (Hr c v).
  Qed.
End Generic.

(** * Part B: exact rationals *)
Section OnQc.
  Local Open Scope Qc_scope.

  (** [va] is at least as good as [vb] on criterion [c]: not above for a cost criterion, not below for
      every other criterion (type "gain", and any other type string, which the program treats as gain) *)
  Definition value_at_least_as_good (c : crit) (va vb : Qc) : Prop :=
    (c_type c = TCost -> va <= vb) /\ (c_type c <> TCost -> vb <= va).

  Definition at_least_as_good_Qc (cs : list (@crit NumQc)) (a b : @alt NumQc) : Prop :=
    forall c, In c cs ->
      exists va vb, mget (c_id c) (a_vals a) = Some va /\ mget (c_id c) (a_vals b) = Some vb /\
                    value_at_least_as_good c va vb.

  Record C06_spec (st : @state NumQc) (obs : list (@entry NumQc)) : Prop := {
    (* dominance: b is never placed in a better class than a in either distillation ... *)
    spec_dom_asc : forall ea eb, In ea obs -> In eb obs -> eid ea <> eid eb ->
        at_least_as_good_Qc (st_crits st) (e_alt ea) (e_alt eb) -> (asc_of ea <= asc_of eb)%Z;
    spec_dom_desc : forall ea eb, In ea obs -> In eb obs -> eid ea <> eid eb ->
        at_least_as_good_Qc (st_crits st) (e_alt ea) (e_alt eb) -> (desc_of ea <= desc_of eb)%Z;
    (* ... and a lists b *)
    spec_dom_listed : forall ea eb, In ea obs -> In eb obs -> eid ea <> eid eb ->
        at_least_as_good_Qc (st_crits st) (e_alt ea) (e_alt eb) -> In (eid eb) (e_links ea);
    (* identical criteria values: identical indices ... *)
    spec_equal_asc : forall ea eb, In ea obs -> In eb obs -> eid ea <> eid eb ->
        identical_values (st_crits st) (e_alt ea) (e_alt eb) -> asc_of ea = asc_of eb;
    spec_equal_desc : forall ea eb, In ea obs -> In eb obs -> eid ea <> eid eb ->
        identical_values (st_crits st) (e_alt ea) (e_alt eb) -> desc_of ea = desc_of eb;
    (* ... and they list each other *)
    spec_equal_listed : forall ea eb, In ea obs -> In eb obs -> eid ea <> eid eb ->
        identical_values (st_crits st) (e_alt ea) (e_alt eb) ->
        In (eid eb) (e_links ea) /\ In (eid ea) (e_links eb);
  }.

  Lemma qc_opp_le_iff (x y : Qc) : - y <= - x <-> x <= y.
  Proof.
    split; intros H.
    - apply Qcopp_le_compat in H. now rewrite !Qcopp_involutive in H.
    - now apply Qcopp_le_compat.
  Qed.

  Lemma sgn_le_iff (c : @crit NumQc) (va vb : Qc) :
    @nleb NumQc (sgn c vb) (sgn c va) = true <-> value_at_least_as_good c va vb.
  Proof.
    rewrite nleb_iff. unfold value_at_least_as_good, sgn, is_cost.
    destruct (c_type c) eqn:Et.
    - split; [intros H; split; [discriminate|intros _; exact H]|intros [_ H]; apply H; discriminate].
    - change (@nopp NumQc) with Qcopp. rewrite qc_opp_le_iff.
      split; [intros H; split; [intros _; exact H|intros E; now elim E]|intros [H _]; now apply H].
    - split; [intros H; split; [discriminate|intros _; exact H]|intros [_ H]; apply H; discriminate].
  Qed.

  Lemma at_least_as_good_Qc_iff cs a b : at_least_as_good_Qc cs a b <-> @at_least_as_good NumQc cs a b.
  Proof.
    unfold at_least_as_good_Qc, at_least_as_good, at_least_as_good_on.
    split; intros H c Hc; destruct (H c Hc) as (va & vb & Ea & Eb & Hle); exists va, vb;
      (split; [assumption|]); (split; [assumption|]); now apply sgn_le_iff.
  Qed.

  Theorem C06_ok_sound : forall (st : @state NumQc) (obs : list (@entry NumQc)),
    C06_ok st obs = true -> C06_spec st obs.
  Proof.
    intros st obs H.
    pose proof (C06_ok_sound_dom st obs H) as [D1 D2 D3].
    pose proof (@C06_ok_sound_equal NumQc OrdQc st obs H) as [E1 E2 E3].
    split; intros ea eb Ha Hb Hne Hd.
    - apply D1; try assumption. now apply at_least_as_good_Qc_iff.
    - apply D2; try assumption. now apply at_least_as_good_Qc_iff.
    - apply D3; try assumption. now apply at_least_as_good_Qc_iff.
    - apply E1; try assumption. intros; exact I.
    - apply E2; try assumption. intros; exact I.
    - apply E3; try assumption. intros; exact I.
  Qed.

  (** conversely the specification implies that the check passes: on [NumQc] the checker decides
      exactly [C06_spec] (whose last three fields follow from the first three) *)
  Theorem C06_spec_complete : forall (st : @state NumQc) (obs : list (@entry NumQc)),
    C06_spec st obs -> C06_ok st obs = true.
  Proof.
    intros st obs [S1 S2 S3 _ _ _]. apply C06_dom_spec_complete.
    split; intros ea eb Ha Hb Hne Hd; [apply S1|apply S2|apply S3]; try assumption;
      now apply at_least_as_good_Qc_iff.
  Qed.

  (** the same on entries that do carry a pair of ELECTRE indices ([asc_of]/[desc_of] read 0 from any
      other kind of evaluation; the kind is tested by C05, not by C06) *)
  Corollary C06_ok_sound_electre : forall (st : @state NumQc) (obs : list (@entry NumQc)),
    C06_ok st obs = true ->
    forall ea eb xa ya xb yb, In ea obs -> In eb obs -> a_id (e_alt ea) <> a_id (e_alt eb) ->
      e_eval ea = EElectre xa ya -> e_eval eb = EElectre xb yb ->
      (at_least_as_good_Qc (st_crits st) (e_alt ea) (e_alt eb) ->
         (xa <= xb)%Z /\ (ya <= yb)%Z /\ In (a_id (e_alt eb)) (e_links ea)) /\
      (identical_values (st_crits st) (e_alt ea) (e_alt eb) ->
         xa = xb /\ ya = yb /\ In (a_id (e_alt eb)) (e_links ea) /\ In (a_id (e_alt ea)) (e_links eb)).
  Proof.
    intros st obs H ea eb xa ya xb yb Ha Hb Hne Eva Evb.
    destruct (C06_ok_sound st obs H) as [S1 S2 S3 S4 S5 S6].
    specialize (S1 ea eb Ha Hb Hne). specialize (S2 ea eb Ha Hb Hne). specialize (S3 ea eb Ha Hb Hne).
    specialize (S4 ea eb Ha Hb Hne). specialize (S5 ea eb Ha Hb Hne). specialize (S6 ea eb Ha Hb Hne).
    unfold asc_of, desc_of, eid in *. rewrite Eva, Evb in *.
    split; intros Hd.
    - split; [now apply S1|]. split; [now apply S2|now apply S3].
    - split; [now apply S4|]. split; [now apply S5|now apply S6].
  Qed.
End OnQc.

(** * Part C: examples on [NumQc] (the hypothesis of the theorems is satisfiable, and the check can fail) *)
Module Examples.
  Definition qz (z : Z) : Qc := Q2Qc (inject_Z z).
  Definition cg : @crit NumQc := {| c_id := "g"; c_type := TGain; c_range := None |}.
  Definition cc : @crit NumQc := {| c_id := "p"; c_type := TCost; c_range := None |}.
  Definition mk_alt (id : string) (g p : Z) : @alt NumQc := {| a_id := id; a_vals := [("g", qz g); ("p", qz p)] |}.
  (* constant thresholds q = 1, p = 2, v = 4 *)
  Definition ths : @ecrit NumQc :=
    {| ec_k := qz 1;
       ec_q := {| lf_a := qz 0; lf_b := qz 1 |};
       ec_p := {| lf_a := qz 0; lf_b := qz 2 |};
       ec_v := {| lf_a := qz 0; lf_b := qz 4 |} |}.
  (* A dominates B (more gain, less cost); C has the values of B; D is incomparable with A *)
  Definition ex_state : @state NumQc :=
    {| st_notcons := [];
       st_cons := [mk_alt "B" 5 7; mk_alt "A" 9 3; mk_alt "C" 5 7; mk_alt "D" 12 9];
       st_crits := [cg; cc];
       st_params := PElectre [("g", ths); ("p", ths)] default_dist |}.

  Definition show (e : @entry NumQc) := (eid e, asc_of e, desc_of e, e_links e).

  (** the model's answer on this state, and the checker accepts it *)
  Example ex_model :
    match electre_evaluate ex_state with
    | Ok r => Some (map show r, C06_ok ex_state r)
    | Err _ => None
    end = Some ([("B", 3, 3, ["C"]); ("A", 1, 1, ["B"; "C"; "D"]); ("C", 3, 3, ["B"]); ("D", 2, 2, ["B"; "C"])]%Z, true).
  Proof. vm_compute. reflexivity. Qed.

  Definition mk_entry (id : string) (g p : Z) (x y : Z) (l : list string) : @entry NumQc :=
    {| e_alt := mk_alt id g p; e_eval := EElectre x y; e_links := l |}.
  Definition ex_obs : list (@entry NumQc) :=
    [mk_entry "B" 5 7 3 3 ["C"]; mk_entry "A" 9 3 1 1 ["B"; "C"; "D"];
     mk_entry "C" 5 7 3 3 ["B"]; mk_entry "D" 12 9 2 2 ["B"; "C"]].

  Example ex_obs_is_model : electre_evaluate ex_state = Ok ex_obs.
  Proof. vm_compute. reflexivity. Qed.

  Example ex_ok : C06_ok ex_state ex_obs = true.
  Proof. vm_compute. reflexivity. Qed.

  (** the premises of the clauses are met by pairs of this instance *)
  Example ex_A_dominates_B : at_least_as_good_Qc (st_crits ex_state) (mk_alt "A" 9 3) (mk_alt "B" 5 7).
  Proof.
    intros c [<-|[<-|[]]].
    - exists (qz 9), (qz 5). split; [reflexivity|]. split; [reflexivity|]. split.
      + intros E; discriminate E.
      + intros _. apply nleb_iff. vm_compute. reflexivity.
    - exists (qz 3), (qz 7). split; [reflexivity|]. split; [reflexivity|]. split.
      + intros _. apply nleb_iff. vm_compute. reflexivity.
      + intros E. now elim E.
  Qed.

  Example ex_B_C_identical : identical_values (st_crits ex_state) (mk_alt "B" 5 7) (mk_alt "C" 5 7).
  Proof. intros c [<-|[<-|[]]]; [exists (qz 5)|exists (qz 7)]; split; reflexivity. Qed.

  (** so the theorem yields, for this response: A is not behind B and lists it; B and C agree *)
  Example ex_consequences :
    (1 <= 3)%Z /\ In "B" ["B"; "C"; "D"] /\ In "C" ["C"] /\ In "B" ["B"].
  Proof.
    pose proof (C06_ok_sound ex_state ex_obs ex_ok) as [S1 _ S3 _ _ S6].
    split; [|split].
    - apply (S1 (mk_entry "A" 9 3 1 1 ["B"; "C"; "D"]) (mk_entry "B" 5 7 3 3 ["C"]));
        [cbn; tauto|cbn; tauto|discriminate|exact ex_A_dominates_B].
    - apply (S3 (mk_entry "A" 9 3 1 1 ["B"; "C"; "D"]) (mk_entry "B" 5 7 3 3 ["C"]));
        [cbn; tauto|cbn; tauto|discriminate|exact ex_A_dominates_B].
    - apply (S6 (mk_entry "B" 5 7 3 3 ["C"]) (mk_entry "C" 5 7 3 3 ["B"]));
        [cbn; tauto|cbn; tauto|discriminate|exact ex_B_C_identical].
  Qed.

  (** the check is not trivially true: three corrupted responses are rejected *)
  Example ex_rejects_better_class :      (* B placed before A by the first distillation *)
    C06_ok ex_state [mk_entry "B" 5 7 1 3 ["C"]; mk_entry "A" 9 3 2 1 ["B"; "C"; "D"];
                     mk_entry "C" 5 7 3 3 ["B"]; mk_entry "D" 12 9 2 2 ["B"; "C"]] = false.
  Proof. vm_compute. reflexivity. Qed.

  Example ex_rejects_missing_link :      (* A does not list B *)
    C06_ok ex_state [mk_entry "B" 5 7 3 3 ["C"]; mk_entry "A" 9 3 1 1 ["C"; "D"];
                     mk_entry "C" 5 7 3 3 ["B"]; mk_entry "D" 12 9 2 2 ["B"; "C"]] = false.
  Proof. vm_compute. reflexivity. Qed.

  Example ex_rejects_unequal_twins :     (* B and C have identical values but different second indices *)
    C06_ok ex_state [mk_entry "B" 5 7 3 3 ["C"]; mk_entry "A" 9 3 1 1 ["B"; "C"; "D"];
                     mk_entry "C" 5 7 3 4 ["B"]; mk_entry "D" 12 9 2 2 ["B"; "C"]] = false.
  Proof. vm_compute. reflexivity. Qed.

  (** LIMITS of the checker (each accepted although the property text, read literally, is violated):
      1. two entries with the SAME identifier are never compared;
      2. a pair is skipped as soon as one of the two lacks a value for some criterion of the state. *)
  Example ex_limit_same_id :             (* two entries "B" with identical values and different indices *)
    C06_ok ex_state [mk_entry "B" 5 7 1 1 []; mk_entry "B" 5 7 2 2 []] = true.
  Proof. vm_compute. reflexivity. Qed.

  Example ex_limit_missing_value :       (* B' lacks the value for "p": nothing is required of (A, B') *)
    C06_ok ex_state [{| e_alt := {| a_id := "B"; a_vals := [("g", qz 5)] |}; e_eval := EElectre 1 1; e_links := [] |};
                     mk_entry "A" 9 3 2 2 []] = true.
  Proof. vm_compute. reflexivity. Qed.
End Examples.

Print Assumptions dominates_iff.
Print Assumptions C06_ok_sound_dom.
Print Assumptions C06_dom_spec_complete.
Print Assumptions C06_ok_iff_dom_spec.
Print Assumptions C06_dom_equal_spec.
Print Assumptions C06_ok_sound_equal.
Print Assumptions C06_ok_sound.
Print Assumptions C06_spec_complete.
Print Assumptions C06_ok_sound_electre.
Print Assumptions Examples.ex_ok.
Print Assumptions Examples.ex_consequences.

(** REPORT.
    Covered by the checker (and by [C06_ok_sound]): for every two returned entries with DIFFERENT
    identifiers such that both carry a value for every criterion of the state and a's values are at
    least as good (gain and any non-"cost" type: >=, cost: <=): asc a <= asc b, desc a <= desc b, and
    b's identifier occurs in a's links; for identical values on the criteria of the state: equal
    indices and mutual listing (by applying the first clause both ways; [nleb] must be reflexive on the
    values, which holds on [NumQc] and on [okv] values of any carrier with order laws).
    NOT tested by C06: (i) entries with equal identifiers (skipped; distinctness of identifiers is not
    tested here); (ii) pairs in which a value is missing for some criterion of the state (skipped);
    (iii) that evaluations are ELECTRE pairs ([asc_of]/[desc_of] read 0 otherwise; tested by C05);
    (iv) values on criteria that are not in the state (ignored: "identical values" means identical on
    the criteria of the state); (v) invariance under listing order and under scaling of the weights
    (metamorphic relations, checked elsewhere). *)
