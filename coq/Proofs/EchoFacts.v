(** * C08: bias switches and apply-probabilities behave as documented.
    Facts about [process_biases] (one draw per enabled bias, fired iff applyProbability > draw),
    the echoes of a response, the checker [C08_ok], and the firing frequency on the grid
    [math/rand.Float64] draws from. *)
From Coq Require Import ZArith QArith Qcanon Qround Bool List String Lia Lqa.
From RDM Require Import Base.Num Base.NumQc Base.Util Model.Data Model.Rank Model.Utility Model.Levels
     Model.Heuristics Model.Electre Model.Listeners Model.Biases Model.Anchoring Model.Pipeline Check.C08.
From RDM Require Import Proofs.LevelFacts.
Import ListNotations.
Local Open Scope string_scope.
Local Open Scope list_scope.

(** ** Inversion of the result monad *)
Lemma bind_ok {A B} (r : res A) (f : A -> res B) (y : B) :
  bind r f = Ok y -> exists a, r = Ok a /\ f a = Ok y.
Proof. destruct r as [a|err]; cbn [bind]; intros H; [exists a; auto | discriminate]. Qed.

Ltac inv_res H :=
  match type of H with
  | bind ?r _ = Ok _ =>
      let a := fresh "a" in let E := fresh "E" in
      apply bind_ok in H; destruct H as [a [E H]]; clear E
  | (if ?c then _ else _) = Ok _ => destruct c; [try discriminate H | try discriminate H]
  | (let '(_, _) := ?x in _) = Ok _ => destruct x
  | Err _ = Ok _ => discriminate H
  end.

(** ** Only criteria mixing can report nothing *)
Section OnlyMixing.
  Context {N : Num}.

  Lemma omission_reports e cur p st r : apply_omission e cur p = Ok (st, r) -> r <> RNone.
  Proof.
    unfold apply_omission. intros H. repeat inv_res H.
    inversion H; discriminate.
  Qed.

  Lemma reversal_reports e cur p st r : apply_reversal e cur p = Ok (st, r) -> r <> RNone.
  Proof.
    unfold apply_reversal. intros H. repeat inv_res H.
    inversion H; discriminate.
  Qed.

  Lemma fatigue_reports e cur p st r : apply_fatigue e cur p = Ok (st, r) -> r <> RNone.
  Proof.
    unfold apply_fatigue. intros H. repeat inv_res H.
    inversion H; discriminate.
  Qed.

  Lemma concealment_reports e cur p st r : apply_concealment e cur p = Ok (st, r) -> r <> RNone.
  Proof.
    unfold apply_concealment. intros H. repeat inv_res H.
    inversion H; discriminate.
  Qed.

  Lemma anchoring_reports e cur p st r : apply_anchoring e cur p = Ok (st, r) -> r <> RNone.
  Proof.
    unfold apply_anchoring. intros H.
    destruct (bp_anch_alts p); [discriminate H|].
    repeat inv_res H.
    inversion H; discriminate.
  Qed.

  (* the only [RNone] of mixing is the early return, which hands the state on unchanged *)
  Lemma mixing_none e cur p st : apply_mixing e cur p = Ok (st, RNone) ->
    Nat.ltb (List.length (st_crits cur)) 2 = true /\ st = cur.
  Proof.
    unfold apply_mixing. intros H.
    destruct (Nat.ltb (List.length (st_crits cur)) 2) eqn:E.
    - inversion H. auto.
    - repeat inv_res H. inversion H.
  Qed.

  Theorem apply_bias_RNone e name cur p st :
    apply_bias e name cur p = Ok (st, RNone) -> name = b_mixing.
  Proof.
    unfold apply_bias. intros H.
    destruct (String.eqb name b_omission); [exfalso; eapply omission_reports; eauto|].
    destruct (String.eqb name b_reversal); [exfalso; eapply reversal_reports; eauto|].
    destruct (String.eqb name b_fatigue); [exfalso; eapply fatigue_reports; eauto|].
    destruct (String.eqb name b_concealment); [exfalso; eapply concealment_reports; eauto|].
    destruct (String.eqb name b_mixing) eqn:E; [now apply String.eqb_eq in E|].
    destruct (String.eqb name b_anchoring); [exfalso; eapply anchoring_reports; eauto|].
    discriminate H.
  Qed.

  (* moreover the state is unchanged in that case *)
  Theorem apply_bias_RNone_state e name cur p st :
    apply_bias e name cur p = Ok (st, RNone) -> st = cur.
  Proof.
    intros H. pose proof (apply_bias_RNone _ _ _ _ _ H) as ->.
    unfold apply_bias in H. cbn in H. now apply mixing_none in H.
  Qed.
End OnlyMixing.

(** ** 1./2. [process_biases]: one draw per enabled bias, position by position *)
Section Draws.
  Context {N : Num}.

  (** what the echo at an enabled position says, given the bias [b] and the draw [d] of that position *)
  Definition echo_spec (b : biasreq) (d : num) (ec : echo) : Prop :=
    ec_name ec = b_name b /\ ec_prob ec = b_prob b /\
    (ec_fired ec = true -> nltb d (b_prob b) = true) /\
    (nltb d (b_prob b) = false -> ec_fired ec = false /\ ec_report ec = RNone) /\
    (* the only way not to be echoed as fired although the probability exceeds the draw *)
    (nltb d (b_prob b) = true -> ec_fired ec = false -> b_name b = b_mixing /\ ec_report ec = RNone) /\
    (ec_fired ec = true <-> ec_report ec <> RNone).

  Lemma process_biases_cons e b rest cur g st echoes :
    process_biases e (b :: rest) cur g = Ok (st, echoes) ->
    exists d g' ec echoes' cur',
      g = d :: g' /\ echoes = ec :: echoes' /\ echo_spec b d ec /\
      process_biases e rest cur' g' = Ok (st, echoes') /\
      (ec_fired ec = false -> cur' = cur).
  Proof.
    cbn [process_biases]. intros H.
    destruct g as [|d g']; [discriminate H|]. cbn [draw bind fst snd] in H.
    destruct (nltb d (b_prob b)) eqn:Ed.
    - apply bind_ok in H. destruct H as [[cur' rep] [Ea H]].
      apply bind_ok in H. destruct H as [[st' echoes'] [Er H]].
      cbn [fst snd] in *. inversion H; subst st echoes; clear H.
      eexists d, g', _, echoes', cur'. split; [reflexivity|]. split; [reflexivity|].
      split; [|split; [exact Er|]].
      + unfold echo_spec; cbn [ec_name ec_prob ec_fired ec_report].
        repeat split; try reflexivity; try congruence.
        * destruct rep; try discriminate. eapply apply_bias_RNone; eauto.
        * destruct rep; try discriminate. reflexivity.
        * destruct rep; congruence.
        * destruct rep; congruence.
      + cbn [ec_fired]. destruct rep; try discriminate. intros _.
        eapply apply_bias_RNone_state; eauto.
    - apply bind_ok in H. destruct H as [[st' echoes'] [Er H]].
      cbn [fst snd] in *. inversion H; subst st echoes; clear H.
      eexists d, g', _, echoes', cur. split; [reflexivity|]. split; [reflexivity|].
      split; [|split; [exact Er|reflexivity]].
      unfold echo_spec; cbn [ec_name ec_prob ec_fired ec_report].
      repeat split; try reflexivity; try congruence.
  Qed.

  (** [Forall2] form: the echoes are position-wise determined by (bias, draw) *)
  Theorem process_biases_draws_Forall2 e bs cur g st echoes :
    process_biases e bs cur g = Ok (st, echoes) ->
    (List.length bs <= List.length g)%nat /\
    Forall2 (fun bd ec => echo_spec (fst bd) (snd bd) ec) (combine bs g) echoes.
  Proof.
    revert cur g st echoes. induction bs as [|b rest IH]; intros cur g st echoes H.
    - cbn in H. inversion H; subst. split; [cbn; lia|constructor].
    - apply process_biases_cons in H.
      destruct H as (d & g' & ec & echoes' & cur' & -> & -> & Hs & Hr & _).
      apply IH in Hr. destruct Hr as [Hl Hf]. split; [cbn [List.length]; lia|].
      cbn [combine]. constructor; [exact Hs|exact Hf].
  Qed.

  (** [nth_error] form *)
  Theorem process_biases_draws e bs cur g st echoes :
    process_biases e bs cur g = Ok (st, echoes) ->
    (List.length bs <= List.length g)%nat /\
    List.length echoes = List.length bs /\
    forall i b, nth_error bs i = Some b ->
      exists d ec, nth_error g i = Some d /\ nth_error echoes i = Some ec /\
        ec_name ec = b_name b /\ ec_prob ec = b_prob b /\
        (ec_fired ec = true -> nltb d (b_prob b) = true) /\
        (nltb d (b_prob b) = false -> ec_fired ec = false /\ ec_report ec = RNone).
  Proof.
    revert cur g st echoes. induction bs as [|b rest IH]; intros cur g st echoes H.
    - cbn in H. inversion H; subst. split; [cbn; lia|]. split; [reflexivity|].
      intros [|i] b Hb; discriminate Hb.
    - apply process_biases_cons in H.
      destruct H as (d & g' & ec & echoes' & cur' & -> & -> & Hs & Hr & _).
      apply IH in Hr. destruct Hr as (Hl & Hn & Hi).
      split; [cbn [List.length]; lia|]. split; [cbn [List.length]; lia|].
      intros [|i] b0 Hb; cbn [nth_error] in *.
      + inversion Hb; subst b0. exists d, ec.
        destruct Hs as (A & B & C & D & _). repeat split; auto; apply D; assumption.
      + apply Hi; assumption.
  Qed.

  (** the complete position-wise statement (with the mixing exception), [nth_error] form *)
  Theorem process_biases_nth e bs cur g st echoes :
    process_biases e bs cur g = Ok (st, echoes) ->
    forall i b, nth_error bs i = Some b ->
      exists d ec, nth_error g i = Some d /\ nth_error echoes i = Some ec /\ echo_spec b d ec.
  Proof.
    revert cur g st echoes. induction bs as [|b rest IH]; intros cur g st echoes H.
    - intros [|i] b Hb; discriminate Hb.
    - apply process_biases_cons in H.
      destruct H as (d & g' & ec & echoes' & cur' & -> & -> & Hs & Hr & _).
      intros [|i] b0 Hb; cbn [nth_error] in *.
      + inversion Hb; subst b0. exists d, ec. auto.
      + eapply IH; eauto.
  Qed.

  (** 2. a bias whose probability does not exceed its draw changes nothing *)
  Theorem not_fired_changes_nothing e b rest cur d g :
    nltb d (b_prob b) = false ->
    process_biases e (b :: rest) cur (d :: g) =
    (do r <- process_biases e rest cur g;
     Ok (fst r, {| ec_name := b_name b; ec_prob := b_prob b; ec_fired := false; ec_report := RNone |} :: snd r)).
  Proof. intros H. cbn [process_biases draw bind fst snd]. rewrite H. reflexivity. Qed.

  (** more generally, a position echoed as not fired hands the state on unchanged: the run equals
      the run without that bias and without its draw *)
  Theorem unfired_position_skipped e b rest cur d g st ec echoes :
    process_biases e (b :: rest) cur (d :: g) = Ok (st, ec :: echoes) ->
    ec_fired ec = false ->
    process_biases e rest cur g = Ok (st, echoes).
  Proof.
    intros H Hf. apply process_biases_cons in H.
    destruct H as (d' & g' & ec' & echoes' & cur' & Eg & Ee & _ & Hr & Hc).
    inversion Eg; inversion Ee; subst. rewrite <- (Hc Hf). exact Hr.
  Qed.
End Draws.

(** ** 3. Probability laws *)
Section ProbGeneric.
  Context {N : Num} {L : OrdLaws N}.

  (* carrier-generic monotonicity: a larger probability fires whenever a smaller one does *)
  Theorem fires_monotone_gen (d p p' : num) : okv d -> okv p -> okv p' ->
    nleb p p' = true -> nltb d p = true -> nltb d p' = true.
  Proof. intros Hd Hp Hp' Hle Hlt. eapply ltb_leb_trans with (y := p); eassumption. Qed.
End ProbGeneric.

Section ProbQc.
  Local Open Scope Qc_scope.

  Theorem prob_one_always (b : @biasreq NumQc) (d : Qc) :
    0 <= d -> d < 1 -> b_prob b = 1 -> @nltb NumQc d (b_prob b) = true.
  Proof. intros _ H1 ->. now apply nltb_iff. Qed.

  Theorem prob_zero_never (b : @biasreq NumQc) (d : Qc) :
    0 <= d -> d < 1 -> b_prob b = 0 -> @nltb NumQc d (b_prob b) = false.
  Proof. intros H0 _ ->. now apply nltb_false_iff. Qed.

  Theorem fires_monotone (d p p' : Qc) :
    p <= p' -> @nltb NumQc d p = true -> @nltb NumQc d p' = true.
  Proof.
    intros Hle Hlt. apply nltb_iff in Hlt. apply nltb_iff.
    eapply Qclt_le_trans; eassumption.
  Qed.

  (* outside [0,1] the probability saturates *)
  Theorem prob_ge_one_always (p d : Qc) : d < 1 -> 1 <= p -> @nltb NumQc d p = true.
  Proof. intros H1 Hp. apply nltb_iff. eapply Qclt_le_trans; eassumption. Qed.

  Theorem prob_le_zero_never (p d : Qc) : 0 <= d -> p <= 0 -> @nltb NumQc d p = false.
  Proof. intros H0 Hp. apply nltb_false_iff. eapply Qcle_trans; eassumption. Qed.

  (** on the level of the run: with probability 1 the head bias is applied (the run continues from the
      state [apply_bias] returns), with probability 0 it is skipped *)
  Theorem prob_one_head_applied e (b : @biasreq NumQc) rest cur (d : Qc) g :
    0 <= d -> d < 1 -> b_prob b = 1 ->
    process_biases e (b :: rest) cur (d :: g) =
    (do sr <- apply_bias e (b_name b) cur (b_props b);
     do r <- process_biases e rest (fst sr) g;
     Ok (fst r, {| ec_name := b_name b; ec_prob := b_prob b;
                   ec_fired := match snd sr with RNone => false | _ => true end; ec_report := snd sr |} :: snd r)).
  Proof.
    intros H0 H1 Hp. cbn [process_biases draw bind fst snd].
    rewrite (prob_one_always b d H0 H1 Hp). reflexivity.
  Qed.

  Theorem prob_zero_head_skipped e (b : @biasreq NumQc) rest cur (d : Qc) g :
    0 <= d -> d < 1 -> b_prob b = 0 ->
    process_biases e (b :: rest) cur (d :: g) =
    (do r <- process_biases e rest cur g;
     Ok (fst r, {| ec_name := b_name b; ec_prob := b_prob b; ec_fired := false; ec_report := RNone |} :: snd r)).
  Proof. intros H0 H1 Hp. apply not_fired_changes_nothing. now apply prob_zero_never. Qed.
End ProbQc.

(** ** 4. The model passes the checker C08 *)
Section Checker.
  Context {N : Num} {L : OrdLaws N}.

  Definition obs_of (ec : echo) : oecho := (ec_name ec, ec_prob ec, ec_fired ec).

  Lemma echo_spec_ok b d ec : echo_spec b d ec ->
    String.eqb (ec_name ec) (b_name b) && nsame (ec_prob ec) (b_prob b)
    && (Bool.eqb (ec_fired ec) (nltb d (b_prob b))
        || (String.eqb (ec_name ec) b_mixing && negb (ec_fired ec) && nltb d (b_prob b))) = true.
  Proof.
    intros (Hn & Hp & Hf & Hnf & Hmix & _).
    rewrite Hn, Hp, String.eqb_refl, same_refl. cbn [andb].
    destruct (nltb d (b_prob b)) eqn:Ed.
    - destruct (ec_fired ec) eqn:Ef; [reflexivity|].
      destruct (Hmix eq_refl eq_refl) as [Hm _]. rewrite Hm, String.eqb_refl. reflexivity.
    - destruct (Hnf eq_refl) as [Ef _]. rewrite Ef. reflexivity.
  Qed.

  Theorem process_biases_echoes_ok e bs cur g st echoes :
    process_biases e bs cur g = Ok (st, echoes) ->
    echoes_ok bs g (map obs_of echoes) = true.
  Proof.
    revert cur g st echoes. induction bs as [|b rest IH]; intros cur g st echoes H.
    - cbn in H. inversion H; subst. reflexivity.
    - apply process_biases_cons in H.
      destruct H as (d & g' & ec & echoes' & cur' & -> & -> & Hs & Hr & _).
      cbn [map echoes_ok]. unfold obs_of at 1.
      rewrite (echo_spec_ok _ _ _ Hs). cbn [andb]. eapply IH; eassumption.
  Qed.

  Lemma biased_state_echoes_ok e req st echoes :
    biased_state e req = Ok (st, echoes) ->
    C08_ok e req (map obs_of echoes) = true.
  Proof.
    unfold biased_state, C08_ok. intros H.
    apply bind_ok in H. destruct H as [st0 [_ H]].
    destruct (negb (forallb (fun b => mem_str (b_name b) bias_names) (enabled_biases req)));
      [discriminate H|].
    destruct (enabled_biases req) as [|b rest] eqn:Eb.
    - inversion H; subst. reflexivity.
    - eapply process_biases_echoes_ok; eassumption.
  Qed.

  Theorem model_passes_C08_gen e req resp :
    decide e req = Ok resp ->
    C08_ok e req (map (fun ec => (ec_name ec, ec_prob ec, ec_fired ec)) (resp_biases resp)) = true.
  Proof.
    unfold decide. intros H.
    apply bind_ok in H. destruct H as [[st echoes] [Hb H]].
    apply bind_ok in H. destruct H as [r [_ H]].
    inversion H; subst resp; clear H. cbn [resp_biases snd].
    exact (biased_state_echoes_ok _ _ _ _ Hb).
  Qed.
End Checker.

Theorem model_passes_C08 (e : @env NumQc) (req : @request NumQc) (resp : @response NumQc) :
  decide e req = Ok resp ->
  C08_ok e req (map (fun ec => (ec_name ec, ec_prob ec, ec_fired ec)) (resp_biases resp)) = true.
Proof. apply (@model_passes_C08_gen NumQc OrdQc). Qed.

(** ** 5. Independence: whether position [i] fires depends only on the stream, [i] and its own probability *)
Section Independence.
  Context {N : Num}.

  Theorem fires_independent e e' bs bs' cur cur' g st st' ecs ecs' i b b' ec ec' :
    process_biases e bs cur g = Ok (st, ecs) ->
    process_biases e' bs' cur' g = Ok (st', ecs') ->
    nth_error bs i = Some b -> nth_error bs' i = Some b' ->
    b_prob b = b_prob b' ->
    nth_error ecs i = Some ec -> nth_error ecs' i = Some ec' ->
    ec_prob ec = ec_prob ec' /\
    ((b_name b = b_mixing /\ ec_report ec = RNone) \/
     (b_name b' = b_mixing /\ ec_report ec' = RNone) \/
     ec_fired ec = ec_fired ec').
  Proof.
    intros H H' Hb Hb' Hp He He'.
    destruct (process_biases_nth _ _ _ _ _ _ H i b Hb) as (d & ec0 & Hd & He0 & Hs).
    destruct (process_biases_nth _ _ _ _ _ _ H' i b' Hb') as (d' & ec0' & Hd' & He0' & Hs').
    rewrite He in He0. rewrite He' in He0'. rewrite Hd in Hd'.
    inversion He0; inversion He0'; inversion Hd'; subst ec0 ec0' d'. clear He0 He0' Hd'.
    destruct Hs as (_ & P & F & NF & MX & _). destruct Hs' as (_ & P' & F' & NF' & MX' & _).
    split; [congruence|]. rewrite <- Hp in *.
    destruct (nltb d (b_prob b)) eqn:Ed.
    - destruct (ec_fired ec) eqn:Ef; destruct (ec_fired ec') eqn:Ef'; auto.
    - destruct (NF eq_refl) as [-> _]. destruct (NF' eq_refl) as [-> _]. auto.
  Qed.

  (* the version with the bias lists of the same length, as in the description of C08 *)
  Corollary fires_independent_same_length e bs bs' cur g st st' ecs ecs' i b b' ec ec' :
    List.length bs = List.length bs' ->
    process_biases e bs cur g = Ok (st, ecs) ->
    process_biases e bs' cur g = Ok (st', ecs') ->
    nth_error bs i = Some b -> nth_error bs' i = Some b' ->
    b_prob b = b_prob b' ->
    nth_error ecs i = Some ec -> nth_error ecs' i = Some ec' ->
    ec_prob ec = ec_prob ec' /\
    ((b_name b = b_mixing /\ ec_report ec = RNone) \/
     (b_name b' = b_mixing /\ ec_report ec' = RNone) \/
     ec_fired ec = ec_fired ec').
  Proof. intros _. apply fires_independent. Qed.
End Independence.

(** ** 6. Frequency on the grid of [math/rand.Float64]: draws are [k / 2^53], [0 <= k < 2^53] *)
Section Frequency.
  Local Open Scope Q_scope.

  Lemma lt_ceiling_iff (k : Z) (x : Q) : inject_Z k < x <-> (k < Qceiling x)%Z.
  Proof.
    split; intros H.
    - rewrite Zlt_Qlt. eapply Qlt_le_trans; [exact H|apply Qle_ceiling].
    - assert (A : (k <= Qceiling x - 1)%Z) by lia.
      rewrite Zle_Qle in A. eapply Qle_lt_trans; [exact A|apply Qceiling_lt].
  Qed.

  Lemma grid_lt_iff (m k : Z) (p : Q) : (0 < m)%Z ->
    (inject_Z k / inject_Z m < p <-> inject_Z k < p * inject_Z m).
  Proof.
    intros Hm. assert (HM : 0 < inject_Z m) by (change 0 with (inject_Z 0); rewrite <- Zlt_Qlt; exact Hm).
    assert (HM0 : ~ inject_Z m == 0) by (intros A; rewrite A in HM; now apply Qlt_irrefl in HM).
    rewrite <- (Qmult_lt_r (inject_Z k / inject_Z m) p (inject_Z m) HM).
    assert (E : inject_Z k / inject_Z m * inject_Z m == inject_Z k) by (field; exact HM0).
    rewrite E. reflexivity.
  Qed.

  (** for every grid point: it lies below [p] iff its index is below [ceil (p * m)] *)
  Theorem grid_fires_iff (m k : Z) (p : Q) : (0 < m)%Z ->
    (inject_Z k / inject_Z m < p <-> (k < Qceiling (p * inject_Z m))%Z).
  Proof. intros Hm. rewrite (grid_lt_iff m k p Hm). apply lt_ceiling_iff. Qed.

  (** the requested characterisation on the 2^53 grid *)
  Theorem count_fires_char (p : Q) : 0 <= p <= 1 ->
    forall k : Z, (0 <= k < 2 ^ 53)%Z ->
      (inject_Z k / inject_Z (2 ^ 53) < p <-> (k < Qceiling (p * inject_Z (2 ^ 53)))%Z).
  Proof. intros _ k _. apply grid_fires_iff. reflexivity. Qed.

  Lemma ceiling_grid_range (m : Z) (p : Q) : (0 < m)%Z -> 0 <= p <= 1 ->
    (0 <= Qceiling (p * inject_Z m) <= m)%Z.
  Proof.
    intros Hm [H0 H1].
    assert (HM : 0 <= inject_Z m) by (change 0 with (inject_Z 0); rewrite <- Zle_Qle; lia).
    split.
    - change 0%Z with (Qceiling 0). apply Qceiling_resp_le. now apply Qmult_le_0_compat.
    - rewrite <- (Qceiling_Z m) at 2. apply Qceiling_resp_le.
      setoid_replace (inject_Z m) with (1 * inject_Z m) at 2 by ring.
      now apply Qmult_le_compat_r.
  Qed.

  (** counting without enumeration: number of [k] in [0 .. n-1] satisfying [f] *)
  Fixpoint count_below (f : Z -> bool) (n : nat) : nat :=
    match n with
    | O => O
    | S n' => ((if f (Z.of_nat n') then 1 else 0) + count_below f n')%nat
    end.

  Lemma count_below_ext (f f' : Z -> bool) (n : nat) :
    (forall k, (0 <= k < Z.of_nat n)%Z -> f k = f' k) -> count_below f n = count_below f' n.
  Proof.
    induction n as [|n IH]; intros H; [reflexivity|].
    cbn [count_below]. rewrite (H (Z.of_nat n)) by lia. rewrite IH; [reflexivity|].
    intros k Hk. apply H. lia.
  Qed.

  Lemma count_below_threshold (c : Z) (n : nat) : (0 <= c)%Z ->
    count_below (fun k => (k <? c)%Z) n = Z.to_nat (Z.min (Z.of_nat n) c).
  Proof.
    intros Hc. induction n as [|n IH]; [cbn [count_below]; lia|].
    cbn [count_below]. rewrite IH. destruct (Z.ltb_spec (Z.of_nat n) c); lia.
  Qed.

  (** the model's comparison on grid points *)
  Definition grid_point (m : positive) (k : Z) : Qc := Q2Qc (inject_Z k / inject_Z (Z.pos m)).
  Definition fires_on_grid (m : positive) (p : Qc) (k : Z) : bool := @nltb NumQc (grid_point m k) p.

  Lemma fires_on_grid_iff m (p : Qc) k :
    fires_on_grid m p k = true <-> (k < Qceiling (this p * inject_Z (Z.pos m)))%Z.
  Proof.
    unfold fires_on_grid, grid_point. rewrite nltb_iff. unfold Qclt. cbn [this Q2Qc].
    rewrite Qred_correct. apply grid_fires_iff. reflexivity.
  Qed.

  Theorem count_fires_grid (m : positive) (p : Qc) : (0 <= p)%Qc -> (p <= 1)%Qc ->
    count_below (fires_on_grid m p) (Pos.to_nat m) = Z.to_nat (Qceiling (this p * inject_Z (Z.pos m))).
  Proof.
    intros H0 H1.
    assert (R : (0 <= Qceiling (this p * inject_Z (Z.pos m)) <= Z.pos m)%Z)
      by (apply ceiling_grid_range; [reflexivity|split; [exact H0|exact H1]]).
    rewrite (count_below_ext _ (fun k => (k <? Qceiling (this p * inject_Z (Z.pos m)))%Z)).
    - rewrite count_below_threshold by lia. rewrite positive_nat_Z. f_equal. lia.
    - intros k _. destruct (Z.ltb_spec k (Qceiling (this p * inject_Z (Z.pos m)))) as [A|A].
      + now apply fires_on_grid_iff.
      + destruct (fires_on_grid m p k) eqn:E; [|reflexivity].
        apply fires_on_grid_iff in E. lia.
  Qed.

  (** the bias fires for exactly ceil(p * 2^53) of the 2^53 equally spaced draws *)
  Theorem count_fires (p : Qc) : (0 <= p)%Qc -> (p <= 1)%Qc ->
    count_below (fires_on_grid (2 ^ 53) p) (Pos.to_nat (2 ^ 53))
    = Z.to_nat (Qceiling (this p * inject_Z (Z.pos (2 ^ 53)))).
  Proof. exact (count_fires_grid (2 ^ 53)%positive p). Qed.
End Frequency.

(** ** The mixing exception is real: with fewer than two criteria a criteria-mixing bias whose probability
    exceeds its draw is echoed as not fired (so "fired iff probability > draw" is false without the
    exception, and so is independence of [ec_fired] from the other biases, which may remove criteria). *)
Section MixingWitness.
  Let z : Qc := 0%Qc.
  Let fp0 : @fparams NumQc := {| fp_name := ""; fp_a := z; fp_b := z; fp_alpha := z; fp_mult := z |}.
  Let props0 : @bprops NumQc :=
    {| bp_ordering := ""; bp_ratio := z; bp_min := 0; bp_max := 0; bp_seed := 0; bp_scaling := z; bp_nonneg := false;
       bp_ref_type := ""; bp_ref_importance := z; bp_ref_seed := 0; bp_new_scaling := z; bp_mix_ratio := z;
       bp_fat_function := ""; bp_fat_value := z; bp_fat_alpha := z; bp_fat_mult := z; bp_fat_query := 0;
       bp_anch_alts := []; bp_anch_loss := fp0; bp_anch_gain := fp0; bp_anch_ref := ""; bp_anch_applier := "";
       bp_anch_not_considered := false |}.
  Let st0 : @state NumQc := {| st_notcons := []; st_cons := []; st_crits := []; st_params := PWs [] |}.
  Let mix : @biasreq NumQc := {| b_name := b_mixing; b_disabled := false; b_prob := 1%Qc; b_props := props0 |}.
  Let env0 : @env NumQc := {| env_streams := []; env_exp := [] |}.

  Example mixing_fires_but_echoes_unfired :
    @nltb NumQc z (b_prob mix) = true /\
    match process_biases env0 [mix] st0 [z] with
    | Ok (_, [ec]) => ec_fired ec = false /\ ec_report ec = RNone
    | _ => False
    end.
  Proof. vm_compute. auto. Qed.
End MixingWitness.

Print Assumptions apply_bias_RNone.
Print Assumptions apply_bias_RNone_state.
Print Assumptions process_biases_draws.
Print Assumptions process_biases_draws_Forall2.
Print Assumptions process_biases_nth.
Print Assumptions not_fired_changes_nothing.
Print Assumptions unfired_position_skipped.
Print Assumptions prob_one_always.
Print Assumptions prob_zero_never.
Print Assumptions fires_monotone.
Print Assumptions fires_monotone_gen.
Print Assumptions prob_one_head_applied.
Print Assumptions prob_zero_head_skipped.
Print Assumptions model_passes_C08.
Print Assumptions model_passes_C08_gen.
Print Assumptions fires_independent.
Print Assumptions count_fires_char.
Print Assumptions grid_fires_iff.
Print Assumptions count_fires_grid.
Print Assumptions count_fires.
