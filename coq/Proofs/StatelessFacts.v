(** * Model-level part of C09: what a bias reports is a function of the states up to that bias only;
    later stages and the method do not rewrite it. (That the Go code has no hidden state is checked by
    the history correspondence, not proved.) *)
From Coq Require Import ZArith Bool List String.
From RDM Require Import Base.Num Base.Util Model.Data Model.Listeners Model.Biases Model.Anchoring Model.Pipeline.
Import ListNotations.

Section Stateless.
  Context {N : Num}.

  (** running a sequence of biases = running a prefix, then the rest from the state and the
      generator position the prefix left; the echoes of the prefix are exactly those of running the
      prefix alone *)
  Lemma process_biases_app : forall e bs1 bs2 cur g st echoes,
    process_biases e (bs1 ++ bs2) cur g = Ok (st, echoes) ->
    exists st1 ech1 ech2,
      process_biases e bs1 cur g = Ok (st1, ech1) /\
      process_biases e bs2 st1 (skipn (List.length bs1) g) = Ok (st, ech2) /\
      echoes = ech1 ++ ech2.
  Proof.
    intros e bs1. induction bs1 as [|b r IH]; intros bs2 cur g st echoes H.
    - cbn [app] in H. exists cur, [], echoes. cbn. auto.
    - cbn [app process_biases] in H.
      destruct g as [|d g']; cbn [draw bind] in H; [discriminate|].
      cbn [fst snd] in H.
      destruct (nltb d (b_prob b)) eqn:F.
      + destruct (apply_bias e (b_name b) cur (b_props b)) as [[s1 rep]|] eqn:A; cbn [bind fst snd] in H; [|discriminate].
        destruct (process_biases e (r ++ bs2) s1 g') as [[s2 ec]|] eqn:P; cbn [bind fst snd] in H; [|discriminate].
        injection H as <- <-.
        destruct (IH _ _ _ _ _ P) as (st1 & ech1 & ech2 & P1 & P2 & ->).
        exists st1, ({| ec_name := b_name b; ec_prob := b_prob b;
                        ec_fired := match rep with RNone => false | _ => true end; ec_report := rep |} :: ech1), ech2.
        cbn [process_biases draw bind fst snd List.length skipn]. rewrite F, A. cbn [bind fst snd]. rewrite P1. cbn [bind fst snd].
        auto.
      + destruct (process_biases e (r ++ bs2) cur g') as [[s2 ec]|] eqn:P; cbn [bind fst snd] in H; [|discriminate].
        injection H as <- <-.
        destruct (IH _ _ _ _ _ P) as (st1 & ech1 & ech2 & P1 & P2 & ->).
        exists st1, ({| ec_name := b_name b; ec_prob := b_prob b; ec_fired := false; ec_report := RNone |} :: ech1), ech2.
        cbn [process_biases draw bind fst snd List.length skipn]. rewrite F. rewrite P1. cbn [bind fst snd]. auto.
  Qed.

  (** the report of the i-th bias is fixed by the first i+1 biases: whatever follows (other
      biases, the method) cannot alter it *)
  Theorem later_stages_do_not_rewrite : forall e bs1 bs2 bs2' cur g st echoes st' echoes',
    process_biases e (bs1 ++ bs2) cur g = Ok (st, echoes) ->
    process_biases e (bs1 ++ bs2') cur g = Ok (st', echoes') ->
    firstn (List.length bs1) echoes = firstn (List.length bs1) echoes'.
  Proof.
    intros e bs1 bs2 bs2' cur g st echoes st' echoes' H H'.
    destruct (process_biases_app _ _ _ _ _ _ _ H) as (s1 & e1 & e2 & P1 & _ & ->).
    destruct (process_biases_app _ _ _ _ _ _ _ H') as (s1' & e1' & e2' & P1' & _ & ->).
    rewrite P1 in P1'. injection P1' as <- <-.
    assert (L : List.length e1 = List.length bs1).
    { clear -P1. revert cur g s1 e1 P1. induction bs1 as [|b r IH]; intros cur g s1 e1 P1.
      - cbn in P1. now injection P1 as <- <-.
      - cbn [process_biases] in P1. destruct g as [|d g']; cbn [draw bind fst snd] in P1; [discriminate|].
        destruct (nltb d (b_prob b)).
        + destruct (apply_bias e (b_name b) cur (b_props b)) as [[s rep]|]; cbn [bind fst snd] in P1; [|discriminate].
          destruct (process_biases e r s g') as [[s2 ec]|] eqn:P; cbn [bind fst snd] in P1; [|discriminate].
          injection P1 as <- <-. cbn [List.length]. f_equal. eapply IH; exact P.
        + destruct (process_biases e r cur g') as [[s2 ec]|] eqn:P; cbn [bind fst snd] in P1; [|discriminate].
          injection P1 as <- <-. cbn [List.length]. f_equal. eapply IH; exact P. }
    rewrite <- L. now rewrite !firstn_app, !firstn_all, Nat.sub_diag, !firstn_O, !app_nil_r.
  Qed.

  (** the decision is a function of the request and of the oracles (streams of the seeds, exp):
      no other input exists in the model; stated as congruence for use by other files *)
  Theorem decide_is_a_function : forall e e' req req', e = e' -> req = req' -> decide e req = decide e' req'.
  Proof. intros; subst; reflexivity. Qed.
End Stateless.
Print Assumptions later_stages_do_not_rewrite.
Print Assumptions process_biases_app.
