(** * C12: a declarative specification of the aspect-elimination walk.

    Property text: "The aspect-elimination heuristic walks through the aspiration levels and, within a level,
    through the criteria from the heaviest weight down, eliminating every remaining alternative whose value is
    worse than the level's threshold on that criterion, and stops as soon as one alternative is left.
    Survivors are ranked first and eliminated alternatives below them in reverse order of elimination, each
    reporting the level index, criterion and threshold it actually failed - having passed every check made
    before that one."

    Contents
    - A. [elimination]: the walk as an inductive relation over lists (readable without the executable model).
    - B. [aspect_is_elimination]: every successful run of the model [aspect_evaluate] is such a walk;
         [passed_all_before]: every eliminated alternative passed every check made before the one it failed;
         [elimination_deterministic]: the relation has at most one outcome.
    - C. [C12_ok_sound]: what the boolean checker [C12_ok] guarantees about the list it accepts.
    - D. examples on exact rationals. *)
From Coq Require Import ZArith Bool List String Permutation Sorted Lia.
From RDM Require Import Base.Num Base.Util Model.Data Model.Rank Model.Utility Model.Levels Model.Heuristics
  Check.C04 Check.C12 Proofs.SortFacts Proofs.RankFacts Proofs.AspectFacts.
Import ListNotations.
Local Open Scope string_scope.
Local Open Scope list_scope.

(** ** A. The specification *)
Section Spec.
  Context {N : Num}.

  (** an aspiration level: one threshold per criterion id *)
  Definition level := smap num.

  (** the value of [a] on [c] is worse than [th]: below it on a gain criterion, above it on a cost criterion
      (the signed comparison of the program: on a cost criterion both sides are negated) *)
  Definition worse (c : crit) (th : num) (a : alt) : Prop :=
    exists v, mget (c_id c) (a_vals a) = Some v /\ nltb (sgn c v) (sgn c th) = true.
  Definition not_worse (c : crit) (th : num) (a : alt) : Prop :=
    exists v, mget (c_id c) (a_vals a) = Some v /\ nltb (sgn c v) (sgn c th) = false.

  (** the record of one elimination: who, at which level (index from 0), on which criterion, against which
      threshold *)
  Record eliminated := { el_alt : alt; el_level : nat; el_crit : crit; el_th : num }.

  (** [examined c th l kept out]: every alternative of [l] is compared with the threshold; [kept] are those
      that are not worse, [out] those that are worse, both in the order of [l] *)
  Inductive examined (c : crit) (th : num) : list alt -> list alt -> list alt -> Prop :=
  | ex_nil : examined c th [] [] []
  | ex_keep : forall a r kept out, not_worse c th a -> examined c th r kept out ->
                                   examined c th (a :: r) (a :: kept) out
  | ex_out : forall a r kept out, worse c th a -> examined c th r kept out ->
                                  examined c th (a :: r) kept (a :: out).

  (** The outcome of one check (one criterion of one level) on the remaining alternatives [rem] (at least two):
      [kept] remain, [out] are eliminated, in this order.
      - [cr_some_pass]: at least one alternative is not worse than the threshold: exactly the worse ones are
        eliminated.
      - [cr_all_fail]: the rule for a check that would eliminate everybody.  The program examines the remaining
        alternatives one by one in their current order and stops the moment a single one is left.  So when every
        alternative before the last one is worse, they are all eliminated and THE LAST ONE IN THE CURRENT ORDER
        IS KEPT WITHOUT BEING EXAMINED (whether it is worse or not; its value need not even be known).  It
        neither eliminates everybody nor keeps everybody.
      (If the last one happens to be not worse both rules apply and give the same outcome.) *)
  Inductive check_result (c : crit) (th : num) (rem : list alt) : list alt -> list alt -> Prop :=
  | cr_some_pass : forall kept out, examined c th rem kept out -> kept <> [] -> check_result c th rem kept out
  | cr_all_fail : forall init last, rem = init ++ [last] -> Forall (worse c th) init ->
                                    check_result c th rem [last] init.

  (** a check: level index, level, criterion *)
  Definition check := (nat * level * crit)%type.

  (** the checks in the order in which they are made: level by level and, within a level, the criteria in the
      given order (heaviest weight first); [i] is the index of the first level *)
  Fixpoint checks_from (i : nat) (levels : list level) (crits : list crit) : list check :=
    match levels with
    | [] => []
    | t :: r => map (fun c => (i, t, c)) crits ++ checks_from (S i) r crits
    end.

  (** [elimination todo rem el survivors el']: starting with the alternatives [rem] and the eliminations [el]
      recorded so far (oldest first), making the checks [todo] leaves [survivors] and the record [el'].
      - stop as soon as at most one alternative is left;
      - stop when the levels are exhausted;
      - otherwise make the next check: the level must have a threshold [th] for the criterion, the outcome is
        given by [check_result], every eliminated alternative is recorded with (level index, criterion, [th]). *)
  Inductive elimination : list check -> list alt -> list eliminated -> list alt -> list eliminated -> Prop :=
  | el_one_left : forall todo rem el, List.length rem <= 1 -> elimination todo rem el rem el
  | el_levels_exhausted : forall rem el, elimination [] rem el rem el
  | el_check : forall i t c th todo rem kept out el rem' el',
      2 <= List.length rem ->
      mget (c_id c) t = Some th ->
      check_result c th rem kept out ->
      elimination todo kept (el ++ map (fun a => Build_eliminated a i c th) out) rem' el' ->
      elimination ((i, t, c) :: todo) rem el rem' el'.

  (** the whole walk over the levels [levels] with the criteria [crits] in descending weight order *)
  Definition elimination_run (levels : list level) (crits : list crit) (alts survivors : list alt)
             (elim : list eliminated) : Prop :=
    elimination (checks_from 0 levels crits) alts [] survivors elim.

  (** [sorted] is [cw] in descending weight order *)
  Definition by_descending_weight (cw sorted : list wcrit) : Prop :=
    Permutation sorted cw /\ StronglySorted (fun x y : wcrit => nltb (snd x) (snd y) = false) sorted.
  (** pairwise distinct weights (for [==] of the carrier) *)
  Definition distinct_weights_on (cw : list wcrit) : Prop :=
    forall x y, In x cw -> In y cw -> neqb (snd x) (snd y) = true -> x = y.

  (** *** Facts about one check *)
  Lemma worse_not_worse c th a : worse c th a -> not_worse c th a -> False.
  Proof. intros (v & Hv & H1) (v' & Hv' & H2). rewrite Hv in Hv'. injection Hv' as <-. congruence. Qed.

  Lemma examined_split c th : forall l kept out, examined c th l kept out ->
    Forall (not_worse c th) kept /\ Forall (worse c th) out /\ Permutation (kept ++ out) l.
  Proof.
    induction 1 as [|a r kept out Ha _ (IH1 & IH2 & IH3)|a r kept out Ha _ (IH1 & IH2 & IH3)].
    - repeat split; constructor.
    - repeat split; [now constructor|assumption|]. cbn [app]. now constructor.
    - repeat split; [assumption|now constructor|]. etransitivity; [apply Permutation_sym, Permutation_middle|].
      now constructor.
  Qed.

  Lemma examined_deterministic c th : forall l k1 o1, examined c th l k1 o1 ->
    forall k2 o2, examined c th l k2 o2 -> k1 = k2 /\ o1 = o2.
  Proof.
    induction 1 as [|a r kept out Ha _ IH|a r kept out Ha _ IH]; intros k2 o2 Hx;
      inversion Hx as [|? ? ? ? Ha' Hr|? ? ? ? Ha' Hr]; subst.
    - now split.
    - destruct (IH _ _ Hr) as [-> ->]. now split.
    - exfalso. eapply worse_not_worse; eassumption.
    - exfalso. eapply worse_not_worse; eassumption.
    - destruct (IH _ _ Hr) as [-> ->]. now split.
  Qed.

  Lemma examined_all_worse c th : forall init l kept out, Forall (worse c th) init ->
    examined c th (init ++ l) kept out -> exists out2, out = init ++ out2 /\ examined c th l kept out2.
  Proof.
    induction init as [|a init IH]; intros l kept out Hw H; cbn [app] in *; [now exists out|].
    inversion Hw as [|? ? Ha Hw']; subst. inversion H as [|? ? ? ? Ha' Hr|? ? ? ? Ha' Hr]; subst.
    - exfalso. eapply worse_not_worse; eassumption.
    - destruct (IH _ _ _ Hw' Hr) as (out2 & -> & Hr2). now exists out2.
  Qed.

  Lemma check_result_deterministic c th rem k1 o1 k2 o2 :
    check_result c th rem k1 o1 -> check_result c th rem k2 o2 -> k1 = k2 /\ o1 = o2.
  Proof.
    assert (Hmix : forall kept out init last, examined c th rem kept out -> kept <> [] ->
                     rem = init ++ [last] -> Forall (worse c th) init -> kept = [last] /\ out = init).
    { intros kept out init last He Hne -> Hw. destruct (examined_all_worse _ _ _ _ _ _ Hw He) as (out2 & -> & H2).
      inversion H2 as [|? ? ? ? ? H3|? ? ? ? ? H3]; subst; inversion H3; subst; [|congruence].
      split; [reflexivity|apply app_nil_r]. }
    intros [kept out He Hne|init last Hr Hw] [kept' out' He' Hne'|init' last' Hr' Hw'].
    - eapply examined_deterministic; eassumption.
    - eapply Hmix; eassumption.
    - destruct (Hmix _ _ _ _ He' Hne' Hr Hw) as [-> ->]. now split.
    - rewrite Hr in Hr'. apply app_inj_tail in Hr' as [-> ->]. now split.
  Qed.

  Lemma check_result_perm c th rem kept out : check_result c th rem kept out -> Permutation (kept ++ out) rem.
  Proof.
    intros [k o He _|init last -> _]; [now apply examined_split in He|].
    cbn [app]. apply Permutation_cons_append.
  Qed.

  Lemma check_result_out_worse c th rem kept out : check_result c th rem kept out -> Forall (worse c th) out.
  Proof. intros [k o He _|init last _ Hw]; [now apply examined_split in He|assumption]. Qed.

  Lemma check_result_kept c th rem kept out : check_result c th rem kept out ->
    1 <= List.length kept /\ (2 <= List.length kept -> Forall (not_worse c th) kept).
  Proof.
    intros [k o He Hne|init last _ _].
    - split; [destruct k; [congruence|cbn [List.length]; lia]|]. intros _. now apply examined_split in He.
    - cbn [List.length]. split; lia.
  Qed.

  (** *** Facts about the walk *)
  Lemma elimination_one_inv todo rem el rem' el' :
    List.length rem <= 1 -> elimination todo rem el rem' el' -> rem' = rem /\ el' = el.
  Proof. intros Hl H. inversion H; subst; try (now split). lia. Qed.

  (** the relation determines the outcome *)
  Theorem elimination_deterministic : forall todo rem el r1 e1, elimination todo rem el r1 e1 ->
    forall r2 e2, elimination todo rem el r2 e2 -> r1 = r2 /\ e1 = e2.
  Proof.
    induction 1 as [todo rem el Hl|rem el|i t c th todo rem kept out el rem' el' Hl Ht Hc _ IH]; intros r2 e2 H2.
    - apply (elimination_one_inv _ _ _ _ _ Hl) in H2 as [-> ->]. now split.
    - inversion H2; subst; now split.
    - inversion H2 as [| |? ? ? th2 ? ? kept2 out2 ? ? ? _ Ht2 Hc2 Hrest]; subst; [lia|].
      rewrite Ht in Ht2. injection Ht2 as <-.
      destruct (check_result_deterministic _ _ _ _ _ _ _ Hc Hc2) as [<- <-]. now apply IH.
  Qed.

  (** a finished walk can be continued: with one alternative left nothing more happens *)
  Lemma elimination_trans : forall todo1 rem el rem1 el1, elimination todo1 rem el rem1 el1 ->
    forall todo2 rem2 el2, elimination todo2 rem1 el1 rem2 el2 -> elimination (todo1 ++ todo2) rem el rem2 el2.
  Proof.
    induction 1 as [todo rem el Hl|rem el|i t c th todo rem kept out el rem' el' Hl Ht Hc _ IH]; intros todo2 rem2 el2 H2.
    - apply (elimination_one_inv _ _ _ _ _ Hl) in H2 as [-> ->]. now constructor.
    - exact H2.
    - cbn [app]. econstructor; try eassumption. now apply IH.
  Qed.

  (** once a single alternative is left the remaining levels do not matter *)
  Corollary elimination_more_levels todo rem el rem' el' more :
    elimination todo rem el rem' el' -> List.length rem' <= 1 -> elimination (todo ++ more) rem el rem' el'.
  Proof. intros H Hl. eapply elimination_trans; [exact H|now constructor]. Qed.

  Lemma elimination_extends : forall todo rem el rem' el', elimination todo rem el rem' el' ->
    exists new, el' = el ++ new.
  Proof.
    induction 1 as [todo rem el Hl|rem el|i t c th todo rem kept out el rem' el' Hl Ht Hc _ (new & ->)].
    - exists []. now rewrite app_nil_r.
    - exists []. now rewrite app_nil_r.
    - eexists. rewrite <- app_assoc. reflexivity.
  Qed.

  (** every alternative is either a survivor or recorded exactly once; nobody else appears *)
  Lemma elimination_perm : forall todo rem el rem' el', elimination todo rem el rem' el' ->
    Permutation (rem' ++ map el_alt el') (rem ++ map el_alt el).
  Proof.
    induction 1 as [todo rem el Hl|rem el|i t c th todo rem kept out el rem' el' Hl Ht Hc _ IH];
      [reflexivity|reflexivity|].
    etransitivity; [exact IH|]. rewrite map_app, map_map. cbn [el_alt]. rewrite map_id.
    rewrite (Permutation_app_comm (map el_alt el) out), app_assoc.
    apply Permutation_app_tail. eapply check_result_perm; eassumption.
  Qed.

  (** somebody always survives *)
  Lemma elimination_survivor : forall todo rem el rem' el', elimination todo rem el rem' el' ->
    1 <= List.length rem -> 1 <= List.length rem'.
  Proof.
    induction 1 as [todo rem el Hl|rem el|i t c th todo rem kept out el rem' el' Hl Ht Hc _ IH]; intros H;
      [assumption|assumption|].
    apply IH. now apply check_result_kept in Hc.
  Qed.

  (** *** Every eliminated alternative really failed the check it reports, having passed every check made
      before that one.  General form: for the records added by a walk. *)
  Definition passed_check (a : alt) (k : check) : Prop :=
    exists th, mget (c_id (snd k)) (snd (fst k)) = Some th /\ not_worse (snd k) th a.

  Lemma passed_all_before_gen : forall todo rem el rem' el', elimination todo rem el rem' el' ->
    forall new, el' = el ++ new -> forall x, In x new ->
    exists pre t post,
      todo = pre ++ (el_level x, t, el_crit x) :: post /\ In (el_alt x) rem /\
      mget (c_id (el_crit x)) t = Some (el_th x) /\
      worse (el_crit x) (el_th x) (el_alt x) /\
      forall k, In k pre -> passed_check (el_alt x) k.
  Proof.
    induction 1 as [todo rem el Hl|rem el|i t c th todo rem kept out el rem' el' Hl Ht Hc Hrest IH];
      intros new Hnew x Hx.
    - rewrite <- (app_nil_r el) in Hnew at 1. apply app_inv_head in Hnew. subst new. contradiction.
    - rewrite <- (app_nil_r el) in Hnew at 1. apply app_inv_head in Hnew. subst new. contradiction.
    - destruct (elimination_extends _ _ _ _ _ Hrest) as (new2 & Hnew2).
      rewrite Hnew2, <- app_assoc in Hnew. apply app_inv_head in Hnew. subst new.
      pose proof (check_result_perm _ _ _ _ _ Hc) as Hperm.
      apply in_app_or in Hx as [Hx|Hx].
      + apply in_map_iff in Hx as (a & <- & Ha). cbn [el_alt el_level el_crit el_th].
        exists [], t, todo. split; [reflexivity|]. split.
        { eapply Permutation_in; [exact Hperm|]. apply in_or_app. now right. }
        split; [assumption|]. split; [|intros k []].
        pose proof (check_result_out_worse _ _ _ _ _ Hc) as Hw. rewrite Forall_forall in Hw. now apply Hw.
      + destruct (check_result_kept _ _ _ _ _ Hc) as [_ Hk].
        destruct (Nat.le_gt_cases 2 (List.length kept)) as [H2|H2].
        * destruct (IH new2 Hnew2 x Hx) as (pre & t' & post & -> & Hin & Hm & Hw & Hpre).
          exists ((i, t, c) :: pre), t', post. split; [reflexivity|]. split.
          { eapply Permutation_in; [exact Hperm|]. apply in_or_app. now left. }
          split; [assumption|]. split; [assumption|]. intros k [<-|Hk']; [|now apply Hpre].
          exists th. cbn [fst snd]. split; [assumption|]. specialize (Hk H2). rewrite Forall_forall in Hk. now apply Hk.
        * exfalso. apply elimination_one_inv in Hrest as [_ Hrest]; [|lia]. rewrite Hrest in Hnew2.
          rewrite <- (app_nil_r (el ++ _)) in Hnew2 at 1. apply app_inv_head in Hnew2. subst new2. contradiction.
  Qed.

  (** *** The order of the checks, explicitly *)
  Lemma app_eq_mid {A} : forall (l1 l2 pre : list A) x post, l1 ++ l2 = pre ++ x :: post ->
    (exists l, l1 = pre ++ x :: l /\ post = l ++ l2) \/ (exists l, pre = l1 ++ l /\ l2 = l ++ x :: post).
  Proof.
    induction l1 as [|y l1 IH]; intros l2 pre x post H.
    - right. exists pre. now split.
    - destruct pre as [|z pre]; cbn [app] in H; injection H as -> H.
      + left. exists l1. now split.
      + destruct (IH _ _ _ _ H) as [(l & -> & ->)|(l & -> & ->)]; [left|right]; exists l; now split.
  Qed.

  Lemma checks_level_split (k : nat) (t0 : level) : forall (cr : list crit) (pre0 : list check) i t c l0,
    map (fun c0 => (k, t0, c0)) cr = pre0 ++ (i, t, c) :: l0 ->
    i = k /\ t = t0 /\ exists p, nth_error cr p = Some c /\
      forall q c', q < p -> nth_error cr q = Some c' -> In (i, t, c') pre0.
  Proof.
    induction cr as [|c0 cr IHc]; intros pre0 i t c l0 E; [destruct pre0; discriminate|].
    destruct pre0 as [|y pre0]; cbn [map app] in E.
    - injection E as <- <- <- _. split; [reflexivity|]. split; [reflexivity|]. exists 0.
      split; [reflexivity|]. intros q c' Hq. lia.
    - injection E as <- E. destruct (IHc _ _ _ _ _ E) as (-> & -> & p & Hp & Hq).
      split; [reflexivity|]. split; [reflexivity|]. exists (S p). split; [exact Hp|].
      intros [|q] c' Hlt Hn'; cbn [nth_error] in Hn'; [injection Hn' as <-; now left|].
      right. apply (Hq q c'); [lia|assumption].
  Qed.

  Lemma checks_from_split crits : forall levels k pre i t c post,
    checks_from k levels crits = pre ++ (i, t, c) :: post ->
    k <= i /\ nth_error levels (i - k) = Some t /\
    (forall j t' c', k <= j < i -> nth_error levels (j - k) = Some t' -> In c' crits -> In (j, t', c') pre) /\
    exists p, nth_error crits p = Some c /\
              forall q c', q < p -> nth_error crits q = Some c' -> In (i, t, c') pre.
  Proof.
    induction levels as [|t0 levels IH]; intros k pre i t c post H; cbn [checks_from] in H.
    - destruct pre; discriminate.
    - apply app_eq_mid in H as [(l & Hl & _)|(l & -> & Hr)].
      + destruct (checks_level_split _ _ _ _ _ _ _ _ Hl) as (-> & -> & p & Hp & Hq).
        split; [lia|]. rewrite Nat.sub_diag. split; [reflexivity|]. split; [intros j t' c' Hj; lia|].
        exists p. now split.
      + destruct (IH (S k) l i t c post Hr) as (Hle & Hn & Hearlier & p & Hp & Hq).
        split; [lia|]. split.
        { replace (i - k) with (S (i - S k)) by lia. exact Hn. }
        split.
        { intros j t' c' Hj Hn' Hc'. apply in_or_app. destruct (Nat.eq_dec j k) as [->|Hne].
          - left. rewrite Nat.sub_diag in Hn'. injection Hn' as <-. apply in_map_iff. now exists c'.
          - right. apply (Hearlier j t' c'); try assumption; [lia|].
            replace (j - k) with (S (j - S k)) in Hn' by lia. exact Hn'. }
        exists p. split; [assumption|]. intros q c' Hlt Hn'. apply in_or_app. right. eapply Hq; eassumption.
  Qed.

  (** *** [passed_all_before]: every eliminated alternative was really worse than the threshold it reports, on
      the criterion and at the level it reports, and was not worse on any check made before: all criteria at
      the earlier levels, the heavier criteria at the same level. *)
  Theorem passed_all_before : forall levels crits alts survivors elim,
    elimination_run levels crits alts survivors elim ->
    forall x, In x elim ->
    exists t p,
      In (el_alt x) alts /\
      nth_error levels (el_level x) = Some t /\ nth_error crits p = Some (el_crit x) /\
      mget (c_id (el_crit x)) t = Some (el_th x) /\
      worse (el_crit x) (el_th x) (el_alt x) /\
      (forall j t' c', j < el_level x -> nth_error levels j = Some t' -> In c' crits ->
         exists th', mget (c_id c') t' = Some th' /\ not_worse c' th' (el_alt x)) /\
      (forall q c', q < p -> nth_error crits q = Some c' ->
         exists th', mget (c_id c') t = Some th' /\ not_worse c' th' (el_alt x)).
  Proof.
    intros levels crits alts survivors elim H x Hx.
    destruct (passed_all_before_gen _ _ _ _ _ H elim eq_refl x Hx) as (pre & t & post & Hsplit & Hin & Hm & Hw & Hpre).
    destruct (checks_from_split _ _ _ _ _ _ _ _ Hsplit) as (_ & Hn & Hearlier & p & Hp & Hq).
    rewrite Nat.sub_0_r in Hn. exists t, p. repeat split; try assumption.
    - intros j t' c' Hj Hn' Hc'. apply (Hpre (j, t', c')). apply Hearlier; [lia| |assumption].
      now rewrite Nat.sub_0_r.
    - intros q c' Hlt Hn'. apply (Hpre (el_level x, t, c')). eapply Hq; eassumption.
  Qed.

  (** the survivors of a walk that ended with several alternatives passed every check of every level *)
  Lemma survivors_passed_gen : forall todo rem el rem' el', elimination todo rem el rem' el' ->
    2 <= List.length rem' -> forall a, In a rem' -> forall k, In k todo -> passed_check a k.
  Proof.
    induction 1 as [todo rem el Hl|rem el|i t c th todo rem kept out el rem' el' Hl Ht Hc Hrest IH];
      intros H2 a Ha k Hk; [lia|contradiction|].
    destruct Hk as [<-|Hk]; [|now apply IH].
    destruct (check_result_kept _ _ _ _ _ Hc) as [_ Hkept].
    destruct (Nat.le_gt_cases 2 (List.length kept)) as [Hk2|Hk2].
    - exists th. cbn [fst snd]. split; [assumption|]. specialize (Hkept Hk2). rewrite Forall_forall in Hkept.
      apply Hkept. pose proof (elimination_perm _ _ _ _ _ Hrest) as P.
      assert (Hsub : forall todo rem el rem' el', elimination todo rem el rem' el' -> incl rem' rem).
      { clear. induction 1 as [| |i t c th todo rem kept out el rem' el' Hl Ht Hc _ IH]; try apply incl_refl.
        eapply incl_tran; [exact IH|]. intros y Hy. eapply Permutation_in; [eapply check_result_perm; exact Hc|].
        apply in_or_app. now left. }
      eapply Hsub; eassumption.
    - apply elimination_one_inv in Hrest as [-> _]; lia.
  Qed.

  Lemma in_checks_from crits c : In c crits -> forall levels k j t, nth_error levels j = Some t ->
    In (k + j, t, c) (checks_from k levels crits).
  Proof.
    intros Hc. induction levels as [|t0 levels IH]; intros k j t Hn; [destruct j; discriminate|].
    cbn [checks_from]. apply in_or_app. destruct j as [|j]; cbn [nth_error] in Hn.
    - injection Hn as ->. left. rewrite Nat.add_0_r. apply in_map_iff. now exists c.
    - right. replace (k + S j) with (S k + j) by lia. now apply IH.
  Qed.

  Theorem survivors_passed : forall levels crits alts survivors elim,
    elimination_run levels crits alts survivors elim -> 2 <= List.length survivors ->
    forall a j t c, In a survivors -> nth_error levels j = Some t -> In c crits ->
    exists th, mget (c_id c) t = Some th /\ not_worse c th a.
  Proof.
    intros levels crits alts survivors elim H H2 a j t c Ha Hn Hc.
    apply (survivors_passed_gen _ _ _ _ _ H H2 a Ha (j, t, c)).
    apply (in_checks_from crits c Hc levels 0 j t Hn).
  Qed.
End Spec.

(** ** B. The executable model performs such a walk *)
Section Sim.
  Context {N : Num}.

  (** an elimination record as the model stores it *)
  Definition rec_mres (x : eliminated) : mres :=
    (el_alt x, EAspect [(c_id (el_crit x), el_th x)] (Z.of_nat (el_level x))).
  (** a survivor after [n] levels *)
  Definition survivor_mres (n : nat) (a : alt) : mres := (a, EAspect [] (Z.of_nat n)).

  Lemma remove_alt_middle : forall pre a r, NoDup (aids (pre ++ a :: r)) ->
    remove_alt (pre ++ a :: r) (a_id a) = pre ++ r.
  Proof.
    induction pre as [|p pre IH]; intros a r ND; cbn [app remove_alt].
    - now rewrite String.eqb_refl.
    - cbn [app aids map] in ND. inversion ND as [|? ? Hnin ND']; subst.
      destruct (String.eqb (a_id p) (a_id a)) eqn:E.
      + apply String.eqb_eq in E. exfalso. apply Hnin. rewrite E. apply in_map. apply in_or_app. right. now left.
      + f_equal. now apply IH.
  Qed.

  Lemma is_below_worse a t c th b : is_below a t c = Ok b -> mget (c_id c) t = Some th ->
    if b then worse c th a else not_worse c th a.
  Proof.
    unfold is_below, crit_value, raw_value.
    destruct (mget (c_id c) (a_vals a)) as [v|] eqn:Ev; cbn [of_option bind]; [|discriminate].
    intros H Ht. rewrite Ht in H. injection H as <-.
    destruct (nltb (sgn c v) (sgn c th)) eqn:E; exists v; now split.
  Qed.

  Lemma nodup_aids_remove pre a r : NoDup (aids (pre ++ a :: r)) -> NoDup (aids (pre ++ r)).
  Proof. unfold aids. rewrite !map_app. cbn [map]. apply NoDup_remove_1. Qed.

  (** one criterion of one level *)
  Lemma walk_sim t c idx th : mget (c_id c) t = Some th ->
    forall todo pre elim temp' elim' stop,
    NoDup (aids (pre ++ todo)) -> 2 <= List.length (pre ++ todo) ->
    aspect_walk todo (pre ++ todo) t c idx elim = Ok (temp', elim', stop) ->
    exists kept out,
      temp' = pre ++ kept /\ elim' = elim ++ map (mk_elim t c idx) out /\ 1 <= List.length temp' /\
      stop = Nat.leb (List.length temp') 1 /\
      (examined c th todo kept out \/
       (pre = [] /\ exists last, todo = out ++ [last] /\ kept = [last] /\ Forall (worse c th) out)).
  Proof.
    intros Ht. induction todo as [|a r IH]; intros pre elim temp' elim' stop ND Hlen H.
    - cbn [aspect_walk] in H. injection H as <- <- <-. exists [], []. cbn [map]. rewrite !app_nil_r in *.
      split; [reflexivity|]. split; [reflexivity|]. split; [lia|]. split.
      + symmetry. apply Nat.leb_gt. lia.
      + left. constructor.
    - cbn [aspect_walk] in H.
      destruct (is_below a t c) as [b|] eqn:Eb; cbn [bind] in H; [|discriminate].
      pose proof (is_below_worse _ _ _ _ _ Eb Ht) as Hb.
      destruct b.
      + rewrite (remove_alt_middle pre a r ND) in H.
        assert (Hl' : List.length (pre ++ a :: r) = S (List.length (pre ++ r))).
        { rewrite !app_length. cbn [List.length]. lia. }
        destruct (Nat.leb (List.length (pre ++ r)) 1) eqn:El.
        * injection H as <- <- <-. apply Nat.leb_le in El.
          destruct r as [|last r'].
          -- exists [], [a]. cbn [map]. rewrite app_nil_r in *. split; [reflexivity|]. split; [reflexivity|].
             split; [lia|]. split; [symmetry; apply Nat.leb_le; lia|]. left. constructor; [assumption|constructor].
          -- rewrite app_length in El, Hl'. cbn [List.length] in El.
             destruct pre as [|p pre]; [|cbn [List.length] in El; lia]. destruct r' as [|? ?]; [|cbn [List.length] in El; lia].
             exists [last], [a]. cbn [app map List.length]. split; [reflexivity|]. split; [reflexivity|].
             split; [lia|]. split; [reflexivity|]. right. split; [reflexivity|]. exists last.
             repeat split. constructor; [assumption|constructor].
        * apply Nat.leb_gt in El.
          apply IH in H; [|eapply nodup_aids_remove; exact ND|lia].
          destruct H as (kept & out & -> & -> & Hge & -> & Hcase). exists kept, (a :: out).
          split; [reflexivity|]. split; [cbn [map]; now rewrite <- app_assoc|]. split; [assumption|].
          split; [reflexivity|]. destruct Hcase as [He|(-> & last & -> & -> & Hw)].
          -- left. now constructor.
          -- right. split; [reflexivity|]. exists last. repeat split. now constructor.
      + assert (El : Nat.leb (List.length (pre ++ a :: r)) 1 = false) by (apply Nat.leb_gt; lia).
        rewrite El in H.
        replace (pre ++ a :: r) with ((pre ++ [a]) ++ r) in H, ND, Hlen by (now rewrite <- app_assoc).
        apply IH in H; [|assumption|assumption].
        destruct H as (kept & out & -> & -> & Hge & -> & Hcase). exists (a :: kept), out.
        split; [now rewrite <- app_assoc|]. split; [reflexivity|]. split; [assumption|].
        split; [reflexivity|]. destruct Hcase as [He|(Hp & _)].
        * left. now constructor.
        * destruct pre; discriminate.
  Qed.

  Lemma nodup_app_l {A} : forall l1 l2 : list A, NoDup (l1 ++ l2) -> NoDup l1.
  Proof.
    induction l1 as [|x l1 IH]; intros l2 H; [constructor|]. cbn [app] in H.
    inversion H as [|? ? Hnin H']; subst. constructor; [|eapply IH; exact H'].
    intros Hx. apply Hnin. apply in_or_app. now left.
  Qed.

  Lemma check_result_nodup c th rem kept out :
    check_result c th rem kept out -> NoDup (aids rem) -> NoDup (aids kept).
  Proof.
    intros Hc ND. apply check_result_perm in Hc.
    assert (ND' : NoDup (aids (kept ++ out))).
    { eapply Permutation_NoDup; [apply Permutation_map, Permutation_sym; exact Hc|exact ND]. }
    unfold aids in *. rewrite map_app in ND'. now apply nodup_app_l in ND'.
  Qed.

  Lemma walk_check t c idx th left elim left' elim' stop :
    mget (c_id c) t = Some th -> NoDup (aids left) -> 2 <= List.length left ->
    aspect_walk left left t c idx elim = Ok (left', elim', stop) ->
    exists out, check_result c th left left' out /\ elim' = elim ++ map (mk_elim t c idx) out /\
                stop = Nat.leb (List.length left') 1.
  Proof.
    intros Ht ND Hlen H.
    destruct (walk_sim t c idx th Ht left [] elim left' elim' stop ND Hlen H)
      as (kept & out & -> & -> & Hge & -> & Hcase).
    cbn [app] in *. exists out. split; [|now split].
    destruct Hcase as [He|(_ & last & -> & -> & Hw)].
    - apply cr_some_pass; [assumption|]. intros ->. cbn [List.length] in Hge. lia.
    - now apply cr_all_fail.
  Qed.

  Lemma mk_elim_rec t c i th out : mget (c_id c) t = Some th ->
    map (mk_elim t c (Z.of_nat i)) out = map rec_mres (map (fun a => Build_eliminated a i c th) out).
  Proof.
    intros Ht. rewrite map_map. apply map_ext. intros a. unfold mk_elim, rec_mres, thr. cbn [el_alt el_crit el_th el_level].
    now rewrite Ht.
  Qed.

  (** the criteria of one level *)
  Lemma criteria_sim t i : forall cs left elim el left' elim' stop,
    (forall c, In c cs -> exists th, mget (c_id (fst c)) t = Some th) ->
    NoDup (aids left) -> 2 <= List.length left ->
    elim = map rec_mres el ->
    aspect_criteria cs left t (Z.of_nat i) elim = Ok (left', elim', stop) ->
    exists el1, elim' = map rec_mres el1 /\ NoDup (aids left') /\ 1 <= List.length left' /\
       stop = Nat.leb (List.length left') 1 /\
       elimination (map (fun c : wcrit => (i, t, fst c)) cs) left el left' el1.
  Proof.
    induction cs as [|c cs IH]; intros left elim el left' elim' stop Hcov ND Hlen Hel H.
    - cbn [aspect_criteria] in H. injection H as <- <- <-. exists el. split; [assumption|]. split; [assumption|].
      split; [lia|]. split; [symmetry; apply Nat.leb_gt; lia|]. apply el_levels_exhausted.
    - cbn [aspect_criteria] in H.
      destruct (aspect_walk left left t (fst c) (Z.of_nat i) elim) as [[[l1 e1] st1]|] eqn:W; cbn [bind] in H;
        [|discriminate].
      destruct (Hcov c (or_introl eq_refl)) as [th Ht].
      destruct (walk_check _ _ _ _ _ _ _ _ _ Ht ND Hlen W) as (out & Hc & He1 & Hst).
      pose proof (check_result_nodup _ _ _ _ _ Hc ND) as ND1.
      destruct (check_result_kept _ _ _ _ _ Hc) as [Hge1 _].
      assert (He1' : e1 = map rec_mres (el ++ map (fun a => Build_eliminated a i (fst c) th) out)).
      { rewrite He1, Hel, map_app. f_equal. now apply mk_elim_rec. }
      destruct st1.
      + injection H as <- <- <-. eexists. split; [exact He1'|]. split; [assumption|]. split; [assumption|].
        split; [assumption|]. cbn [map]. eapply el_check; try eassumption. apply el_one_left.
        symmetry in Hst. now apply Nat.leb_le in Hst.
      + symmetry in Hst. apply Nat.leb_gt in Hst.
        apply (IH l1 e1 (el ++ map (fun a => Build_eliminated a i (fst c) th) out) left' elim' stop) in H; [|intros c' Hc'; apply Hcov; now right|assumption|lia|exact He1'].
        destruct H as (el1 & -> & ND' & Hge & -> & Hrun). exists el1. split; [reflexivity|]. split; [assumption|].
        split; [assumption|]. split; [reflexivity|]. cbn [map]. eapply el_check; eassumption.
  Qed.

  (** the levels *)
  Lemma levels_sim crits cs : (forall c, In c cs -> In (fst c) crits) ->
    forall fuel src left idx i elim el left' elim' idx',
    src_covers crits src -> NoDup (aids left) -> 2 <= List.length left ->
    (idx + 1)%Z = Z.of_nat i -> elim = map rec_mres el ->
    aspect_levels fuel src cs left idx elim = Ok (left', elim', idx') ->
    exists n el1, (idx' + 1)%Z = Z.of_nat (i + n) /\ elim' = map rec_mres el1 /\
       List.length (lv_prefix n src) = n /\
       1 <= List.length left' /\
       (List.length left' <= 1 \/ List.length (lv_prefix (S n) src) = n) /\
       elimination (checks_from i (lv_prefix n src) (map fst cs)) left el left' el1.
  Proof.
    intros Hcs. induction fuel as [|f IH]; intros src left idx i elim el left' elim' idx' Hcov ND Hlen Hidx Hel H;
      cbn [aspect_levels] in H; [discriminate|].
    destruct (lv_next src) as [[t src']|] eqn:Enext.
    2:{ injection H as <- <- <-. exists 0, el. cbn [lv_prefix checks_from]. rewrite Enext. cbn [List.length].
        split; [lia|]. split; [assumption|]. split; [reflexivity|]. split; [lia|]. split; [now right|]. apply el_levels_exhausted. }
    destruct (src_covers_next _ _ _ _ Hcov Enext) as [Hcov' Hcovt].
    replace (idx + 1)%Z with (Z.of_nat i) in H by lia.
    destruct (aspect_criteria cs left t (Z.of_nat i) elim) as [[[l1 e1] st1]|] eqn:C; cbn [bind] in H; [|discriminate].
    apply (criteria_sim t i cs left elim el l1 e1 st1) in C; try assumption.
    2:{ intros c Hc. specialize (Hcovt (fst c) (Hcs c Hc)). unfold mhas in Hcovt.
        destruct (mget (c_id (fst c)) t) as [th|]; [now exists th|discriminate]. }
    destruct C as (el1 & He1 & ND1 & Hge1 & Hst & Hrun).
    assert (Hpre : forall m, lv_prefix (S m) src = t :: lv_prefix m src').
    { intros m. cbn [lv_prefix]. now rewrite Enext. }
    destruct st1.
    - injection H as <- <- <-. exists 1, el1. rewrite Hpre. cbn [lv_prefix checks_from List.length].
      split; [lia|]. split; [assumption|]. split; [reflexivity|]. split; [assumption|].
      symmetry in Hst. apply Nat.leb_le in Hst. split; [now left|]. rewrite app_nil_r, map_map. exact Hrun.
    - symmetry in Hst. apply Nat.leb_gt in Hst.
      apply (IH src' l1 (Z.of_nat i) (S i) e1 el1) in H; try assumption; try lia.
      destruct H as (n & el2 & Hidx' & He2 & Hpl & Hge & Hend & Hrun2). exists (S n), el2.
      rewrite !Hpre. cbn [List.length checks_from].
      split; [lia|]. split; [assumption|]. split; [now rewrite Hpl|]. split; [assumption|].
      split; [destruct Hend as [Hend|Hend]; [now left|right; now rewrite Hend]|].
      rewrite map_map. eapply elimination_trans; eassumption.
  Qed.
End Sim.

Section Main.
  Context {N : Num}.

  (** *** B. [aspect_is_elimination].
      Hypotheses: the parameters are those of aspect elimination, the considered alternatives have pairwise
      distinct ids (the program removes alternatives by id).
      Conclusion: the level source [src], the weighted criteria [cw] and the search order [alts] (the considered
      alternatives as given, or shuffled when the random order is requested) exist, and for some number [n] of
      levels used:
      - the source really has [n] levels, and either at most one alternative survived or the source has no
        further level;
      - there is a walk over these [n] levels, the criteria being taken in the order computed by the model's
        sort on descending weight (see [isort_by_descending_weight] and [descending_weight_unique] below:
        with pairwise distinct weights this is THE descending weight order);
      - the ranking returned lists the survivors first, in the search order ([elimination] keeps the relative
        order of the remaining alternatives), each with the evaluation "no threshold, index [n]", followed by
        the eliminated alternatives in REVERSE order of elimination, each carrying exactly the recorded
        (criterion id, threshold) and level index; every entry is linked to the next one only. *)
  Theorem aspect_is_elimination : forall e s r fn lp seed w rnd,
    st_params s = PAspect fn lp seed w rnd ->
    NoDup (map a_id (st_cons s)) ->
    aspect_evaluate e s = Ok r ->
    exists src cw alts g' n survivors elim,
      lv_init Increasing fn lp s = Ok src /\
      zip_with_weights (st_crits s) w = Ok cw /\
      order_alternatives rnd (st_cons s) (new_rng e seed) = Ok (alts, g') /\
      List.length (lv_prefix n src) = n /\
      (List.length survivors <= 1 \/ List.length (lv_prefix (S n) src) = n) /\
      elimination_run (lv_prefix n src) (map fst (isort wc_gt cw)) alts survivors elim /\
      r = sequential_ranking (map (survivor_mres n) survivors ++ map rec_mres (rev elim)).
  Proof.
    intros e s r fn lp seed w rnd Hp NDa H. unfold aspect_evaluate in H. rewrite Hp in H.
    destruct (lv_init Increasing fn lp s) as [src|] eqn:Hi; cbn [bind] in H; [|discriminate].
    destruct (order_alternatives rnd (st_cons s) (new_rng e seed)) as [[alts g']|] eqn:Ho;
      cbn [bind fst] in H; [|discriminate].
    destruct (zip_with_weights (st_crits s) w) as [cw|] eqn:Hz; cbn [bind] in H; [|discriminate].
    match type of H with bind ?x _ = _ => destruct x as [[[lft elim] idx]|] eqn:Hr end;
      cbn [bind] in H; [|discriminate].
    injection H as <-.
    pose proof (zip_with_weights_fst _ _ _ Hz) as Hfst.
    assert (NDalts : NoDup (aids alts)).
    { eapply Permutation_NoDup; [apply Permutation_map, Permutation_sym|exact NDa].
      eapply order_alternatives_perm. exact Ho. }
    exists src, cw, alts, g'.
    destruct (Nat.leb (List.length alts) 1) eqn:El.
    - injection Hr as <- <- <-. apply Nat.leb_le in El. exists 0, alts, [].
      cbn [lv_prefix List.length]. repeat (split; [first [reflexivity|now left]|]).
      split; [apply el_levels_exhausted|]. reflexivity.
    - apply Nat.leb_gt in El.
      apply (levels_sim (st_crits s) (isort wc_gt cw)) with (i := 0) (el := []) in Hr;
        [| |eapply lv_init_covers; exact Hi|assumption|lia|reflexivity|reflexivity].
      2:{ intros c Hc. rewrite <- Hfst. apply in_map. now apply (isort_in wc_gt). }
      destruct Hr as (n & el1 & Hidx & -> & Hpl & Hge & Hend & Hrun).
      exists n, lft, el1. repeat (split; [first [reflexivity|assumption]|]).
      rewrite Hidx, map_rev. reflexivity.
  Qed.

  (** the same, without the links: the list of (alternative, evaluation) pairs *)
  Corollary aspect_ranking_shape : forall e s r fn lp seed w rnd,
    st_params s = PAspect fn lp seed w rnd -> NoDup (map a_id (st_cons s)) -> aspect_evaluate e s = Ok r ->
    exists src cw alts g' n survivors elim,
      lv_init Increasing fn lp s = Ok src /\ zip_with_weights (st_crits s) w = Ok cw /\
      order_alternatives rnd (st_cons s) (new_rng e seed) = Ok (alts, g') /\
      elimination_run (lv_prefix n src) (map fst (isort wc_gt cw)) alts survivors elim /\
      map (fun x => (e_alt x, e_eval x)) r = map (survivor_mres n) survivors ++ map rec_mres (rev elim).
  Proof.
    intros e s r fn lp seed w rnd Hp NDa H.
    destruct (aspect_is_elimination _ _ _ _ _ _ _ _ Hp NDa H)
      as (src & cw & alts & g' & n & survivors & elim & Hi & Hz & Ho & _ & _ & Hrun & ->).
    exists src, cw, alts, g', n, survivors, elim. repeat (split; [assumption|]).
    apply (sequential_ranking_pr (map (survivor_mres n) survivors ++ map rec_mres (rev elim))).
  Qed.
End Main.

(** *** The order of the criteria *)
Section Weights.
  Context {N : Num} {L : OrdLaws N}.

  Definition okw (x : wcrit) : Prop := okv (snd x).

  (** the model's sort yields a descending weight order *)
  Lemma isort_by_descending_weight cw : Forall okw cw -> by_descending_weight cw (isort wc_gt cw).
  Proof.
    intros Hok. split; [apply isort_perm|].
    apply (isort_sorted_on wc_gt okw); [| |assumption].
    - intros a b c Ha Hb Hc. unfold SortFacts.le, wc_gt, okw in *. rewrite !ltb_leb by assumption.
      intros H1 H2. apply negb_false_iff in H1, H2. apply negb_false_iff.
      apply (leb_trans _ (snd b)); assumption.
    - intros a b Ha Hb. unfold SortFacts.le, wc_gt, okw in *. intros H.
      destruct (trichotomy (snd b) (snd a) Hb Ha) as [(_ & _ & T)|[(T & _)|(T & _)]]; congruence.
  Qed.

  (** with pairwise distinct weights there is only one descending weight order *)
  Lemma descending_weight_unique cw l1 l2 : Forall okw cw -> distinct_weights_on cw ->
    by_descending_weight cw l1 -> by_descending_weight cw l2 -> l1 = l2.
  Proof.
    intros Hok Hd [P1 S1] [P2 S2]. rewrite Forall_forall in Hok.
    apply (sorted_perm_unique wc_gt); try assumption.
    - intros a b Ha Hb H1 H2. unfold SortFacts.le, wc_gt in H1, H2.
      assert (Ia : In a cw) by (apply (Permutation_in _ P1 Ha)).
      assert (Ib : In b cw) by (apply (Permutation_in _ P1 Hb)).
      apply Hd; try assumption.
      destruct (trichotomy (snd a) (snd b) (Hok a Ia) (Hok b Ib)) as [(T & _)|[(_ & T & _)|(_ & _ & T)]]; congruence.
    - etransitivity; [exact P1|now symmetry].
  Qed.

  (** [aspect_is_elimination] for pairwise distinct weights: the criteria are walked in THE descending weight
      order, whatever sort is used to compute it *)
  Corollary aspect_is_elimination_distinct : forall e s r fn lp seed w rnd cw sorted,
    st_params s = PAspect fn lp seed w rnd ->
    NoDup (map a_id (st_cons s)) ->
    zip_with_weights (st_crits s) w = Ok cw ->
    Forall okw cw -> distinct_weights_on cw -> by_descending_weight cw sorted ->
    aspect_evaluate e s = Ok r ->
    exists src alts g' n survivors elim,
      lv_init Increasing fn lp s = Ok src /\
      order_alternatives rnd (st_cons s) (new_rng e seed) = Ok (alts, g') /\
      List.length (lv_prefix n src) = n /\
      (List.length survivors <= 1 \/ List.length (lv_prefix (S n) src) = n) /\
      elimination_run (lv_prefix n src) (map fst sorted) alts survivors elim /\
      r = sequential_ranking (map (survivor_mres n) survivors ++ map rec_mres (rev elim)).
  Proof.
    intros e s r fn lp seed w rnd cw sorted Hp NDa Hz Hok Hd Hs H.
    destruct (aspect_is_elimination _ _ _ _ _ _ _ _ Hp NDa H)
      as (src & cw' & alts & g' & n & survivors & elim & Hi & Hz' & Ho & Hpl & Hend & Hrun & Hr).
    rewrite Hz in Hz'. injection Hz' as <-.
    rewrite (descending_weight_unique cw sorted (isort wc_gt cw) Hok Hd Hs (isort_by_descending_weight cw Hok)).
    exists src, alts, g', n, survivors, elim. repeat (split; [assumption|]). assumption.
  Qed.
End Weights.

(** ** C. What the checker [C12_ok] guarantees *)
Section CheckerSpec.
  Context {N : Num}.

  (** [a] is worse than the threshold of the level [lv] on the criterion [c] (value and threshold both known) *)
  Definition worse_at (a : alt) (lv : level) (c : crit) : Prop :=
    exists v th, mget (c_id c) (a_vals a) = Some v /\ mget (c_id c) lv = Some th /\
                 nltb (sgn c v) (sgn c th) = true.

  Lemma worse_at_worse a lv c : worse_at a lv c <-> exists th, mget (c_id c) lv = Some th /\ worse c th a.
  Proof.
    split.
    - intros (v & th & Hv & Hth & H). exists th. split; [assumption|]. now exists v.
    - intros (th & Hth & v & Hv & H). now exists v, th.
  Qed.

  Lemma fails_iff a lv c : fails a lv c = true <-> worse_at a lv c.
  Proof.
    unfold fails, worse_at. split.
    - destruct (mget (c_id c) (a_vals a)) as [v|]; [|discriminate].
      destruct (mget (c_id c) lv) as [th|]; [|discriminate]. intros H. now exists v, th.
    - intros (v & th & -> & -> & H). exact H.
  Qed.

  Lemma fails_false a lv c : fails a lv c = false -> ~ worse_at a lv c.
  Proof. intros H Hw. apply fails_iff in Hw. congruence. Qed.

  (** a survivor entry reports no threshold *)
  Definition survivor (e : entry) : Prop := a_ths e = [].

  Lemma is_survivor_iff e : is_survivor e = true <-> survivor e.
  Proof. unfold is_survivor, survivor. destruct (a_ths e); split; congruence. Qed.

  Lemma not_survivor_iff e : is_survivor e = false <-> ~ survivor e.
  Proof. rewrite <- is_survivor_iff. destruct (is_survivor e); split; congruence. Qed.

  (** pairwise distinct weights, by position *)
  Definition weights_distinct (cs : list wcrit) : Prop :=
    forall i j x y, nth_error cs i = Some x -> nth_error cs j = Some y -> i <> j -> neqb (snd x) (snd y) = false.

  Lemma distinct_weights_of cs : weights_distinct cs -> distinct_weights cs = true.
  Proof.
    intros H. unfold distinct_weights. apply forallb_forall. intros [i j] Hij. cbn [fst snd].
    apply in_prod_iff in Hij as [Hi Hj]. apply in_seq in Hi, Hj. rewrite map_length in Hi, Hj.
    destruct (Nat.eqb i j) eqn:E; [reflexivity|]. apply Nat.eqb_neq in E. cbn [orb].
    destruct (nth_error cs i) as [x|] eqn:Ex; [|apply nth_error_None in Ex; unfold wcrit in *; lia].
    destruct (nth_error cs j) as [y|] eqn:Ey; [|apply nth_error_None in Ey; unfold wcrit in *; lia].
    rewrite (nth_error_nth (map snd cs) i nzero (map_nth_error snd i cs Ex)).
    rewrite (nth_error_nth (map snd cs) j nzero (map_nth_error snd j cs Ey)).
    now rewrite (H i j x y Ex Ey E).
  Qed.

  (** [c] is the first criterion with the id [cid] in the walk order [cs], at position [p] *)
  Definition rank_of (cs : list wcrit) (cid : string) (p : nat) (c : wcrit) : Prop :=
    nth_error cs p = Some c /\ c_id (fst c) = cid /\
    forall q c', q < p -> nth_error cs q = Some c' -> c_id (fst c') <> cid.

  Lemma position_rank cid : forall cs i p, position cid cs i = Some p ->
    exists q c, p = i + q /\ rank_of cs cid q c /\ find (fun c' : wcrit => String.eqb (c_id (fst c')) cid) cs = Some c.
  Proof.
    induction cs as [|c0 cs IH]; intros i p H; cbn [position find] in *; [discriminate|].
    destruct (String.eqb (c_id (fst c0)) cid) eqn:E.
    - injection H as <-. apply String.eqb_eq in E. exists 0, c0. split; [lia|]. split; [|reflexivity].
      split; [reflexivity|]. split; [assumption|]. intros q c' Hq. lia.
    - apply IH in H as (q & c & -> & (Hn & Hid & Hfirst) & Hf). exists (S q), c. split; [lia|]. split; [|assumption].
      split; [exact Hn|]. split; [assumption|]. intros [|q'] c' Hlt Hn'; cbn [nth_error] in Hn'.
      + injection Hn' as <-. now apply String.eqb_neq.
      + apply (Hfirst q' c'); [lia|assumption].
  Qed.

  Lemma find_position cid : forall cs i c, find (fun c' : wcrit => String.eqb (c_id (fst c')) cid) cs = Some c ->
    exists p, position cid cs i = Some p.
  Proof.
    induction cs as [|c0 cs IH]; intros i c H; cbn [position find] in *; [discriminate|].
    destruct (String.eqb (c_id (fst c0)) cid); [now eexists|]. eapply IH; eassumption.
  Qed.

  Lemma nth_opt_nth_error {A} : forall (l : list A) n, nth_opt n l = nth_error l n.
  Proof. induction l as [|x l IH]; intros [|n]; cbn [nth_opt nth_error]; auto. Qed.

  Lemma nth_error_firstn_in {A} : forall (l : list A) q n x, nth_error l q = Some x -> q < n -> In x (firstn n l).
  Proof.
    induction l as [|y l IH]; intros [|q] [|n] x H Hlt; cbn [nth_error firstn] in *; try discriminate; try lia.
    - injection H as ->. now left.
    - right. apply (IH q); [assumption|lia].
  Qed.

  (** *** One eliminated entry.  [i], [p]: the level index and the rank of the criterion it reports. *)
  Definition eliminated_spec (cs : list wcrit) (levels : list level) (e : entry) : Prop :=
    exists i p c th lv,
      (* it reports one threshold, of the criterion [c] (the first with that id in the walk order, rank [p]),
         and the level index [i] *)
      e_eval e = EAspect [(c_id (fst c), th)] (Z.of_nat i) /\
      rank_of cs (c_id (fst c)) p c /\
      (* the level exists and [th] is its threshold on that criterion *)
      nth_error levels i = Some lv /\
      mget (c_id (fst c)) lv = Some th /\
      (* the alternative is really worse than it *)
      worse_at (e_alt e) lv (fst c) /\
      (* at every earlier level it is not worse on any criterion *)
      (forall j lv' c', j < i -> nth_error levels j = Some lv' -> In c' cs -> ~ worse_at (e_alt e) lv' (fst c')) /\
      (* at the same level it is not worse on any heavier criterion (claimed for distinct weights only) *)
      (weights_distinct cs -> forall q c', q < p -> nth_error cs q = Some c' -> ~ worse_at (e_alt e) lv (fst c')).

  (** the check an eliminated entry reports *)
  Definition check_rank (cs : list wcrit) (e : entry) (i : Z) (p : nat) : Prop :=
    exists c th, e_eval e = EAspect [(c_id (fst c), th)] i /\ rank_of cs (c_id (fst c)) p c.

  (** not worse on any criterion at the first [m] levels *)
  Definition passes_levels (cs : list wcrit) (levels : list level) (m : nat) (a : alt) : Prop :=
    forall j lv c, j < m -> nth_error levels j = Some lv -> In c cs -> ~ worse_at a lv (fst c).

  (** *** The whole list: [n] is the number of levels used, [cs] the criteria in the checker's walk order *)
  Record C12_run_spec (cs : list wcrit) (src : lsource) (obs : list entry) (n : nat) : Prop := {
    (* the level source has (at least) n levels *)
    cs_levels : List.length (lv_prefix n src) = n;
    (* somebody survives *)
    cs_somebody : exists s, In s obs /\ survivor s;
    (* survivors first: the sequence of ids is that of the survivors followed by that of the others ... *)
    cs_ids : map eid obs = map eid (filter is_survivor obs) ++ map eid (filter (fun e => negb (is_survivor e)) obs);
    (* ... so, when the ids are pairwise distinct, the survivors are exactly the first [k] entries *)
    cs_first : NoDup (map eid obs) -> exists k, forall j e, nth_error obs j = Some e -> (survivor e <-> j < k);
    (* every survivor reports no threshold and the index n *)
    cs_surv_idx : forall e, In e obs -> survivor e -> e_eval e = EAspect [] (Z.of_nat n);
    (* every other entry reports the check it really failed, having passed the earlier ones *)
    cs_elim : forall e, In e obs -> ~ survivor e -> eliminated_spec cs (lv_prefix n src) e;
    (* reverse order of elimination: of two eliminated entries the later one reports an earlier or the same
       check (level index, then rank of the criterion); claimed for distinct weights only *)
    cs_order : weights_distinct cs ->
      forall k k' x y, k < k' -> nth_error obs k = Some x -> nth_error obs k' = Some y ->
        ~ survivor x -> ~ survivor y ->
        exists ix px iy py, check_rank cs x ix px /\ check_rank cs y iy py /\
                            ((iy < ix)%Z \/ (iy = ix /\ py <= px));
    (* stop as soon as one is left *)
    cs_stop :
      (* a single survivor: the last level used eliminated somebody (or nobody was ever eliminated), and the
         survivor is not worse on anything at the levels before the last one used *)
      (exists k s0, nth_error obs k = Some s0 /\ survivor s0 /\
          (forall k' s, nth_error obs k' = Some s -> survivor s -> k' = k) /\
          ((forall e, In e obs -> survivor e) \/
           (exists e, In e obs /\ ~ survivor e /\ a_idx e = (Z.of_nat n - 1)%Z)) /\
          passes_levels cs (lv_prefix n src) (n - 1) (e_alt s0))
      \/
      (* several survivors: the levels ran out, and the survivors are not worse on anything at any level *)
      ((exists k k' s s', k < k' /\ nth_error obs k = Some s /\ nth_error obs k' = Some s' /\
                          survivor s /\ survivor s') /\
       List.length (lv_prefix (S n) src) = n /\
       forall s, In s obs -> survivor s -> passes_levels cs (lv_prefix n src) n (e_alt s))
  }.

  Definition C12_entries_spec (st : state) (obs : list entry) : Prop :=
    exists fn lp seed w rnd src cw,
      st_params st = PAspect fn lp seed w rnd /\
      lv_init Increasing fn lp st = Ok src /\
      zip_with_weights (st_crits st) w = Ok cw /\
      (obs = [] \/ exists n, C12_run_spec (isort wc_gt cw) src obs n).

  (** *** Helpers *)
  Lemma a_ths_eval e t : a_ths e = t -> t <> [] -> e_eval e = EAspect t (a_idx e).
  Proof. unfold a_ths, a_idx. destruct (e_eval e); intros <- H; congruence. Qed.

  Lemma check_leb_iff x y : check_leb x y = true <-> ((fst x < fst y)%Z \/ (fst x = fst y /\ snd x <= snd y)).
  Proof.
    unfold check_leb. rewrite orb_true_iff, andb_true_iff, Z.ltb_lt, Z.eqb_eq, Nat.leb_le. reflexivity.
  Qed.

  Definition rord (cs : list wcrit) (x y : entry) : Prop :=
    exists cx cy, check_of cs x = Some cx /\ check_of cs y = Some cy /\ check_leb cy cx = true.

  Lemma rev_order_sorted cs : forall l, rev_order_ok cs l = true -> StronglySorted (rord cs) l.
  Proof.
    induction l as [|x r IH]; intros H; [constructor|].
    destruct r as [|y r']; [constructor; constructor|].
    change (rev_order_ok cs (x :: y :: r')) with
      (match check_of cs x, check_of cs y with
       | Some cx, Some cy => check_leb cy cx && rev_order_ok cs (y :: r')
       | _, _ => false
       end) in H.
    destruct (check_of cs x) as [cx|] eqn:Ex; [|discriminate].
    destruct (check_of cs y) as [cy|] eqn:Ey; [|discriminate].
    apply andb_true_iff in H as [Hle Hr]. specialize (IH Hr). constructor; [assumption|].
    inversion IH as [|? ? _ Hall]; subst. constructor; [now exists cx, cy|].
    eapply Forall_impl; [|exact Hall]. intros z (cy' & cz & Ey' & Ez & Hle'). rewrite Ey in Ey'. injection Ey' as <-.
    exists cx, cz. split; [assumption|]. split; [assumption|].
    apply check_leb_iff in Hle, Hle'. apply check_leb_iff. lia.
  Qed.

  Lemma sorted_filter_nth {A} (R : A -> A -> Prop) (p : A -> bool) : forall l,
    StronglySorted R (filter p l) ->
    forall k k' x y, k < k' -> nth_error l k = Some x -> nth_error l k' = Some y ->
                     p x = true -> p y = true -> R x y.
  Proof.
    induction l as [|a l IH]; intros S k k' x y Hlt Hx Hy Px Py; [destruct k; discriminate|].
    destruct k' as [|k']; [lia|]. cbn [nth_error] in Hy. cbn [filter] in S.
    destruct k as [|k]; cbn [nth_error] in Hx.
    - injection Hx as ->. rewrite Px in S. inversion S as [|? ? _ Hall]; subst. rewrite Forall_forall in Hall.
      apply Hall. apply filter_In. split; [eapply nth_error_In; eassumption|assumption].
    - apply (IH) with (k := k) (k' := k'); try assumption; [|lia].
      destruct (p a); [now inversion S|assumption].
  Qed.

  Lemma list_eqb_eid_map : forall l1 l2 : list entry,
    list_eqb (fun a b => String.eqb (eid a) (eid b)) l1 l2 = true -> map eid l1 = map eid l2.
  Proof.
    induction l1 as [|x l1 IH]; intros [|y l2] H; cbn [list_eqb] in H; try discriminate; [reflexivity|].
    apply andb_true_iff in H as [E H]. apply String.eqb_eq in E. cbn [map]. rewrite E. f_equal. now apply IH.
  Qed.

  Lemma map_inj_on {A B} (f : A -> B) : forall l1 l2 : list A, map f l1 = map f l2 ->
    (forall x y, In x l1 -> In y l2 -> f x = f y -> x = y) -> l1 = l2.
  Proof.
    induction l1 as [|x l1 IH]; intros [|y l2] H Hinj; try discriminate; [reflexivity|].
    cbn [map] in H. injection H as Hxy H. f_equal.
    - apply Hinj; [now left|now left|assumption].
    - apply IH; [assumption|]. intros a b Ha Hb. apply Hinj; now right.
  Qed.

  Lemma survivors_first_positions (obs : list entry) (p : entry -> bool) :
    obs = filter p obs ++ filter (fun e => negb (p e)) obs ->
    forall j e, nth_error obs j = Some e -> (p e = true <-> j < List.length (filter p obs)).
  Proof.
    intros Hobs j e Hn. rewrite Hobs in Hn. destruct (Nat.lt_ge_cases j (List.length (filter p obs))) as [Hlt|Hge].
    - rewrite nth_error_app1 in Hn by assumption. apply nth_error_In, filter_In in Hn as [_ Hp]. tauto.
    - rewrite nth_error_app2 in Hn by assumption. apply nth_error_In, filter_In in Hn as [_ Hp].
      apply negb_true_iff in Hp. split; [congruence|lia].
  Qed.

  Lemma filter_single {A} (p : A -> bool) : forall l s, filter p l = [s] ->
    exists k, nth_error l k = Some s /\ forall k' x, nth_error l k' = Some x -> p x = true -> k' = k.
  Proof.
    induction l as [|a l IH]; intros s H; cbn [filter] in H; [discriminate|].
    destruct (p a) eqn:Pa.
    - injection H as -> H. exists 0. split; [reflexivity|]. intros [|k'] x Hx Px; [reflexivity|].
      cbn [nth_error] in Hx. apply nth_error_In in Hx.
      assert (In x (filter p l)) by (apply filter_In; now split). rewrite H in *. contradiction.
    - destruct (IH s H) as (k & Hk & Hu). exists (S k). split; [exact Hk|].
      intros [|k'] x Hx Px; cbn [nth_error] in Hx; [injection Hx as ->; congruence|].
      f_equal. eapply Hu; eassumption.
  Qed.

  Lemma filter_two {A} (p : A -> bool) : forall l, 2 <= List.length (filter p l) ->
    exists k k' x y, k < k' /\ nth_error l k = Some x /\ nth_error l k' = Some y /\ p x = true /\ p y = true.
  Proof.
    induction l as [|a l IH]; intros H; cbn [filter] in H; [cbn [List.length] in H; lia|].
    destruct (p a) eqn:Pa.
    - cbn [List.length] in H. destruct (filter p l) as [|y r] eqn:F; [cbn [List.length] in H; lia|].
      assert (Hy : In y (filter p l)) by (rewrite F; now left). apply filter_In in Hy as [Hy Py].
      apply In_nth_error in Hy as [k Hk]. exists 0, (S k), a, y. repeat split; try assumption. lia.
    - destruct (IH H) as (k & k' & x & y & Hlt & Hx & Hy & Px & Py). exists (S k), (S k'), x, y.
      repeat split; try assumption. lia.
  Qed.

  Lemma fold_max_in : forall l a, fold_left Z.max l a = a \/ In (fold_left Z.max l a) l.
  Proof.
    induction l as [|x l IH]; intros a; cbn [fold_left]; [now left|].
    destruct (IH (Z.max a x)) as [E|E]; [|right; now right].
    rewrite E. destruct (Z.max_spec a x) as [[_ ->]|[_ ->]]; [right; now left|now left].
  Qed.

  Lemma passes_all_levels cs levels m a : passes_all cs (firstn m levels) a = true -> passes_levels cs levels m a.
  Proof.
    unfold passes_all. intros H j lv c Hj Hn Hc. rewrite forallb_forall in H.
    specialize (H lv (nth_error_firstn_in _ _ _ _ Hn Hj)). rewrite forallb_forall in H.
    specialize (H c Hc). apply negb_true_iff in H. now apply fails_false.
  Qed.
End CheckerSpec.

Section CheckerSound.
  Context {N : Num} {L : OrdLaws N}.

  Lemma eliminated_ok_spec cs levels distinct e :
    (weights_distinct cs -> distinct = true) ->
    eliminated_ok cs levels distinct e = true -> eliminated_spec cs levels e.
  Proof.
    intros Hdist H. unfold eliminated_ok in H.
    destruct (a_ths e) as [|[cid th] [|? ?]] eqn:Eths; try discriminate.
    destruct (nth_opt (Z.to_nat (a_idx e)) levels) as [lv|] eqn:Elv; [|discriminate].
    apply andb_true_iff in H as [H0 H]. apply Z.leb_le in H0.
    match type of H with context [find ?f cs] => destruct (find f cs) as [c|] eqn:Ef end; [|discriminate].
    destruct (mget cid lv) as [lth|] eqn:Eth; [|discriminate].
    apply andb_true_iff in H as [H H4]. apply andb_true_iff in H as [H H3]. apply andb_true_iff in H as [H1 H2].
    apply same_eq in H1. subst lth.
    destruct (find_position cid cs 0 c Ef) as [p Hp].
    destruct (position_rank cid cs 0 p Hp) as (q & c1 & Hq & Hrank & Ef'). cbn [Nat.add] in Hq. subst q.
    pose proof (eq_trans (eq_sym Ef) Ef') as Hcc. injection Hcc as <-.
    pose proof Hrank as (Hn & Hid & Hfirst). subst cid.
    rewrite nth_opt_nth_error in Elv.
    exists (Z.to_nat (a_idx e)), p, c, th, lv.
    split; [rewrite Z2Nat.id by assumption; apply a_ths_eval; [assumption|discriminate]|].
    split; [assumption|]. split; [assumption|]. split; [assumption|].
    split; [now apply fails_iff|]. split.
    - intros j lv' c' Hj Hn' Hc'. rewrite forallb_forall in H3.
      specialize (H3 lv' (nth_error_firstn_in _ _ _ _ Hn' Hj)). rewrite forallb_forall in H3.
      specialize (H3 c' Hc'). apply negb_true_iff in H3. now apply fails_false.
    - intros Hd r c' Hr Hn'. rewrite (Hdist Hd) in H4. cbn [negb orb] in H4. rewrite Hp in H4.
      rewrite forallb_forall in H4. specialize (H4 c' (nth_error_firstn_in _ _ _ _ Hn' Hr)).
      apply negb_true_iff in H4. now apply fails_false.
  Qed.

  Lemma check_of_rank cs e k : check_of cs e = Some k -> check_rank cs e (fst k) (snd k).
  Proof.
    unfold check_of. destruct (a_ths e) as [|[cid th] [|? ?]] eqn:Eths; try discriminate.
    destruct (position cid cs 0) as [p|] eqn:Hp; [|discriminate]. intros H. injection H as <-. cbn [fst snd].
    destruct (position_rank cid cs 0 p Hp) as (q & c & Hq & Hrank & _). cbn [Nat.add] in Hq. subst q.
    pose proof Hrank as (_ & Hid & _). subst cid. exists c, th. split; [|assumption].
    apply a_ths_eval; [assumption|discriminate].
  Qed.

  (** *** C. [C12_ok_sound]: the checker implies [C12_entries_spec] (and nothing more is claimed).
      Clauses of the property text that [C12_ok] does NOT check:
      - the links (every entry linked to the next one) and the relative order of the survivors (search order);
      - which alternative is spared when a check would eliminate everybody (the last one in the current order);
      - for a single survivor, anything about the last level used (it should have passed the heavier criteria
        examined at that level before the stop): only the levels before the last one are checked; and when no
        entry is eliminated the survivor's index is not tied to anything but the existence of that many levels;
      - the order among entries eliminated by the same check (the comparison of checks is not strict);
      - with weights that are not pairwise distinct: the "heavier criteria of the same level" clause and the
        whole reverse-order clause;
      - that the ids are pairwise distinct / every considered alternative occurs exactly once ("survivors first"
        is checked on the sequence of ids only, see [cs_ids] and [cs_first]);
      - a missing value or threshold counts as "not worse" ([worse_at] needs both);
      - a reported criterion is looked up by id (first match in the walk order). *)
  Theorem C12_ok_sound : forall st obs, C12_ok st obs = true -> C12_entries_spec st obs.
  Proof.
    intros st obs H. unfold C12_ok in H.
    destruct (st_params st) as [| | | | |fn lp seed w rnd|] eqn:Hp; try discriminate.
    destruct (lv_init Increasing fn lp st) as [src|] eqn:Hi; [|discriminate].
    destruct (zip_with_weights (st_crits st) w) as [cw|] eqn:Hz; [|discriminate].
    exists fn, lp, seed, w, rnd, src, cw. split; [exact Hp|]. split; [exact Hi|]. split; [exact Hz|].
    cbv zeta in H. set (cs := isort wc_gt cw) in *.
    remember (filter is_survivor obs) as sv eqn:Esv.
    remember (filter (fun e => negb (is_survivor e)) obs) as el eqn:Eel.
    destruct sv as [|s0 sr].
    { left. destruct obs; [reflexivity|discriminate]. }
    right. exists (Z.to_nat (a_idx s0)). set (n := Z.to_nat (a_idx s0)) in *.
    repeat match type of H with (_ && _ = true) => let H' := fresh "K" in apply andb_true_iff in H as [H H'] end.
    rename K5 into Kids, K4 into Ksv, K3 into Klt, K2 into Klen, K1 into Kel, K0 into Kord, K into Kstop, H into Kz.
    apply Z.leb_le in Kz. apply list_eqb_eid_map in Kids. apply Nat.eqb_eq in Klen.
    rewrite forallb_forall in Ksv.
    assert (Hn : Z.of_nat n = a_idx s0) by (unfold n; now apply Z2Nat.id).
    assert (Hsv_in : forall e, In e obs -> survivor e -> In e (s0 :: sr)).
    { intros e He Hs. rewrite Esv. apply filter_In. split; [assumption|now apply is_survivor_iff]. }
    assert (Hel_in : forall e, In e obs -> ~ survivor e -> In e el).
    { intros e He Hs. rewrite Eel. apply filter_In. split; [assumption|]. apply negb_true_iff. now apply not_survivor_iff. }
    assert (Hs0 : In s0 obs /\ survivor s0).
    { assert (Hin : In s0 (filter is_survivor obs)) by (rewrite <- Esv; now left).
      apply filter_In in Hin as [Hin Hs]. split; [assumption|now apply is_survivor_iff]. }
    assert (Hspec : forall e, In e obs -> ~ survivor e -> eliminated_spec cs (lv_prefix n src) e).
    { intros e He Hs. rewrite forallb_forall in Kel. apply (eliminated_ok_spec cs _ (distinct_weights cs));
        [apply distinct_weights_of|]. apply Kel. now apply Hel_in. }
    constructor.
    - exact Klen.
    - exists s0. exact Hs0.
    - rewrite Kids, Esv, Eel. apply map_app.
    - intros ND. exists (List.length (filter is_survivor obs)). intros j e Hj.
      rewrite <- is_survivor_iff. apply survivors_first_positions; [|assumption].
      rewrite <- Esv, <- Eel. apply (map_inj_on eid); [exact Kids|].
      intros x y Hx Hy. apply (NoDup_map_inj eid obs); [assumption|assumption|].
      apply in_app_or in Hy as [Hy|Hy]; [rewrite Esv in Hy|rewrite Eel in Hy]; now apply filter_In in Hy.
    - intros e He Hs. specialize (Ksv e (Hsv_in e He Hs)). apply Z.eqb_eq in Ksv.
      unfold survivor, a_ths in Hs. unfold a_idx in Ksv at 1. rewrite <- Hn in Ksv.
      destruct (e_eval e); try lia. now subst.
    - exact Hspec.
    - intros Hd k k' x y Hlt Hx Hy Sx Sy.
      rewrite (distinct_weights_of cs Hd) in Kord. cbn [negb orb] in Kord.
      apply rev_order_sorted in Kord. rewrite Eel in Kord.
      destruct (sorted_filter_nth (rord cs) _ obs Kord k k' x y Hlt Hx Hy) as (cx & cy & Cx & Cy & Hle).
      { apply negb_true_iff. now apply not_survivor_iff. }
      { apply negb_true_iff. now apply not_survivor_iff. }
      exists (fst cx), (snd cx), (fst cy), (snd cy).
      split; [now apply check_of_rank|]. split; [now apply check_of_rank|]. now apply check_leb_iff.
    - destruct (Nat.leb (List.length (s0 :: sr)) 1) eqn:El.
      + left. apply Nat.leb_le in El. destruct sr as [|? ?]; [|cbn [List.length] in El; lia].
        apply andb_true_iff in Kstop as [Kmax Kpass].
        destruct (filter_single is_survivor obs s0 (eq_sym Esv)) as (k & Hk & Hu).
        exists k, s0. split; [assumption|]. split; [apply Hs0|].
        split; [intros k' s Hs Ss; apply (Hu k' s Hs); now apply is_survivor_iff|].
        split; [|now apply passes_all_levels].
        destruct el as [|e1 el'] eqn:Eel'.
        * left. intros e He. destruct (is_survivor e) eqn:Es; [now apply is_survivor_iff|].
          exfalso. apply not_survivor_iff in Es. apply (Hel_in e He Es).
        * right. apply Z.eqb_eq in Kmax. rewrite <- Eel' in *.
          assert (Hin_el : forall e, In e el -> In e obs /\ ~ survivor e).
          { intros e He. rewrite Eel in He. apply filter_In in He as [He Hs]. split; [assumption|].
            apply not_survivor_iff. now apply negb_true_iff. }
          destruct (fold_max_in (map a_idx el) (-1)%Z) as [E|E].
          -- exfalso. assert (He1 : In e1 el) by (rewrite Eel'; now left).
             destruct (Hin_el e1 He1) as [Ho Hs]. destruct (Hspec e1 Ho Hs) as (i & p & c & th & lv & Hev & _).
             assert (a_idx e1 = Z.of_nat i) by (unfold a_idx; now rewrite Hev).
             pose proof (fold_max_lb (map a_idx el) (-1)%Z (a_idx e1) (in_map a_idx _ _ He1)). lia.
          -- apply in_map_iff in E as (e & He & Hin). destruct (Hin_el e Hin) as [Ho Hs].
             exists e. split; [assumption|]. split; [assumption|]. lia.
      + right. apply Nat.leb_gt in El. apply andb_true_iff in Kstop as [Kend Kpass]. apply Nat.eqb_eq in Kend.
        split; [|split; [assumption|]].
        * destruct (filter_two is_survivor obs) as (k & k' & x & y & Hlt & Hx & Hy & Px & Py); [rewrite <- Esv; exact El|].
          exists k, k', x, y. repeat split; try assumption; now apply is_survivor_iff.
        * intros s Hs Ss. rewrite forallb_forall in Kpass. specialize (Kpass s (Hsv_in s Hs Ss)).
          apply passes_all_levels. rewrite <- Klen at 1. now rewrite firstn_all.
  Qed.
End CheckerSound.

(** ** More consequences *)
Section More.
  Context {N : Num}.

  (** *** The survivors keep the search order *)
  Inductive subseq {A} : list A -> list A -> Prop :=
  | ss_nil : subseq [] []
  | ss_skip : forall x l1 l2, subseq l1 l2 -> subseq l1 (x :: l2)
  | ss_keep : forall x l1 l2, subseq l1 l2 -> subseq (x :: l1) (x :: l2).

  Lemma subseq_refl {A} : forall l : list A, subseq l l.
  Proof. induction l; now constructor. Qed.

  Lemma subseq_trans {A} : forall l2 l3 : list A, subseq l2 l3 -> forall l1, subseq l1 l2 -> subseq l1 l3.
  Proof.
    induction 1 as [|x l2 l3 _ IH|x l2 l3 _ IH]; intros l1 H1.
    - exact H1.
    - constructor. now apply IH.
    - inversion H1; subst; constructor; now apply IH.
  Qed.

  Lemma subseq_last {A} (x : A) : forall init, subseq [x] (init ++ [x]).
  Proof. induction init; cbn [app]; constructor; [constructor|assumption]. Qed.

  Lemma check_result_subseq c th rem kept out : check_result c th rem kept out -> subseq kept rem.
  Proof.
    intros [k o He _|init last -> _]; [|apply subseq_last].
    induction He; now constructor.
  Qed.

  Lemma elimination_subseq : forall todo rem el rem' el', elimination todo rem el rem' el' -> subseq rem' rem.
  Proof.
    induction 1 as [| |i t c th todo rem kept out el rem' el' _ _ Hc _ IH]; try apply subseq_refl.
    eapply subseq_trans; [eapply check_result_subseq; exact Hc|exact IH].
  Qed.

  (** *** Any sufficiently long prefix of the series of levels gives the same walk *)
  Lemma lv_prefix_more : forall n src m, List.length (lv_prefix n src) = n ->
    exists more, lv_prefix (n + m) src = lv_prefix n src ++ more.
  Proof.
    induction n as [|n IH]; intros src m H; [now exists (lv_prefix m src)|].
    cbn [Nat.add lv_prefix] in *. destruct (lv_next src) as [[t src']|]; [|discriminate].
    cbn [List.length] in H. injection H as H. destruct (IH src' m H) as [more ->]. now exists more.
  Qed.

  Lemma lv_prefix_exhausted : forall n src m, List.length (lv_prefix n src) = n ->
    List.length (lv_prefix (S n) src) = n -> lv_prefix (n + m) src = lv_prefix n src.
  Proof.
    induction n as [|n IH]; intros src m H1 H2.
    - cbn [lv_prefix Nat.add] in *. destruct (lv_next src) as [[t src']|] eqn:E; [discriminate|].
      destruct m; cbn [lv_prefix]; [reflexivity|now rewrite E].
    - change (lv_prefix (S (S n)) src) with
        (match lv_next src with None => [] | Some (t, l') => t :: lv_prefix (S n) l' end) in H2.
      cbn [Nat.add lv_prefix] in *. destruct (lv_next src) as [[t src']|]; [|discriminate].
      cbn [List.length] in H1, H2. injection H1 as H1. injection H2 as H2. f_equal. now apply IH.
  Qed.

  Lemma checks_from_app crits : forall l1 l2 k,
    checks_from k (l1 ++ l2) crits = checks_from k l1 crits ++ checks_from (k + List.length l1) l2 crits.
  Proof.
    induction l1 as [|t l1 IH]; intros l2 k; cbn [app checks_from List.length].
    - now rewrite Nat.add_0_r.
    - rewrite IH, <- app_assoc. do 3 f_equal. lia.
  Qed.

  Lemma elimination_run_more_levels levels more crits alts survivors elim :
    elimination_run levels crits alts survivors elim -> List.length survivors <= 1 ->
    elimination_run (levels ++ more) crits alts survivors elim.
  Proof.
    unfold elimination_run. intros H Hl. rewrite checks_from_app. now apply elimination_more_levels.
  Qed.

  (** [aspect_is_elimination], stated for every prefix of the series of levels that is long enough: the
      levels after the one at which a single alternative was left do not matter *)
  Corollary aspect_is_elimination_all_levels : forall e s r fn lp seed w rnd,
    st_params s = PAspect fn lp seed w rnd ->
    NoDup (map a_id (st_cons s)) ->
    aspect_evaluate e s = Ok r ->
    exists src cw alts g' n survivors elim,
      lv_init Increasing fn lp s = Ok src /\
      zip_with_weights (st_crits s) w = Ok cw /\
      order_alternatives rnd (st_cons s) (new_rng e seed) = Ok (alts, g') /\
      (forall m, n <= m ->
         elimination_run (lv_prefix m src) (map fst (isort wc_gt cw)) alts survivors elim) /\
      subseq survivors alts /\
      r = sequential_ranking (map (survivor_mres n) survivors ++ map rec_mres (rev elim)).
  Proof.
    intros e s r fn lp seed w rnd Hp NDa H.
    destruct (aspect_is_elimination _ _ _ _ _ _ _ _ Hp NDa H)
      as (src & cw & alts & g' & n & survivors & elim & Hi & Hz & Ho & Hpl & Hend & Hrun & Hr).
    exists src, cw, alts, g', n, survivors, elim. repeat (split; [assumption|]).
    split; [|split; [eapply elimination_subseq; exact Hrun|assumption]].
    intros m Hm. replace m with (n + (m - n)) by lia. destruct Hend as [Hone|Hex].
    - destruct (lv_prefix_more n src (m - n) Hpl) as [more ->]. now apply elimination_run_more_levels.
    - now rewrite (lv_prefix_exhausted n src (m - n) Hpl Hex).
  Qed.
End More.

(** *** The model's output satisfies the checker's specification *)
Section ModelEntries.
  Context {N : Num} {L : OrdLaws N}.

  Corollary aspect_entries_spec : forall e s r,
    NoDup (map a_id (st_cons s)) -> NoDup (map c_id (st_crits s)) ->
    aspect_evaluate e s = Ok r -> C12_entries_spec s r.
  Proof. intros e s r NDa NDc H. apply C12_ok_sound. eapply aspect_passes_checker; eassumption. Qed.
End ModelEntries.

(** ** D. Examples on exact rationals *)
From Coq Require QArith Qcanon.
From RDM Require Import Base.NumQc.

Module Examples.
  Import QArith Qcanon.
  Local Open Scope string_scope.
  Local Open Scope list_scope.
  Local Open Scope nat_scope.

  Definition q (z : Z) : Qc := Q2Qc (inject_Z z).
  (* two criteria: "x" is a gain with weight 3, "y" a cost with weight 1 (listed lightest first in the state) *)
  Definition cx : @crit NumQc := {| c_id := "x"; c_type := TGain; c_range := None |}.
  Definition cy : @crit NumQc := {| c_id := "y"; c_type := TCost; c_range := None |}.
  Definition mk (id : string) (x y : Z) : @alt NumQc := {| a_id := id; a_vals := [("x", q x); ("y", q y)] |}.
  Definition lv (x y : Z) : @level NumQc := [("x", q x); ("y", q y)].
  Definition a := mk "a" 8 2.
  Definition b := mk "b" 3 1.
  Definition c := mk "c" 6 7.
  Definition d := mk "d" 7 4.
  Definition rec (a : @alt NumQc) (i : nat) (c : @crit NumQc) (th : Z) : @eliminated NumQc :=
    {| el_alt := a; el_level := i; el_crit := c; el_th := q th |}.
  Definition ex_env : @env NumQc := {| env_streams := []; env_exp := [] |}.
  Definition ex_state (levels : list (@level NumQc)) : @state NumQc :=
    {| st_notcons := []; st_cons := [a; b; c; d]; st_crits := [cy; cx];
       st_params := PAspect "thresholds" {| lp_coef := q 0; lp_max := q 0; lp_min := q 0; lp_ths := levels |}
                            0%Z [("x", q 3); ("y", q 1)] false |}.

  Ltac cmp := eexists; split; [reflexivity|vm_compute; reflexivity].
  Ltac examine :=
    repeat first [ apply ex_nil | apply ex_keep; [cmp|] | apply ex_out; [cmp|] ].
  (* a check in which somebody passes *)
  Ltac check_pass :=
    eapply el_check; [cbn [List.length]; lia|reflexivity|apply cr_some_pass; [examine|discriminate]|cbn [app map]].

  (** *** Example 1: three levels, eliminations at different levels and on different criteria.
      Level 0 (x >= 4, y <= 8): on x, b (3) is eliminated; on y, everybody passes.
      Level 1 (x >= 5, y <= 5): on x, everybody passes; on y (a cost), c (7) is eliminated.
      Level 2 (x >= 8, y <= 5): on x, a (8) passes and d (7) is eliminated: one alternative left, stop. *)
  Definition levels1 := [lv 4 8; lv 5 5; lv 8 5].
  Definition elim1 := [rec b 0 cx 4; rec c 1 cy 5; rec d 2 cx 8].

  (* the criteria are listed lightest first in the state; the walk takes "x" (weight 3) before "y" (weight 1) *)
  Example ex1_weight_order :
    exists cw, zip_with_weights (st_crits (ex_state levels1)) [("x", q 3); ("y", q 1)] = Ok cw /\
               map fst cw = [cy; cx] /\ map fst (isort wc_gt cw) = [cx; cy].
  Proof. exists [(cy, q 1); (cx, q 3)]. split; [reflexivity|]. split; reflexivity. Qed.

  Example ex1_run : elimination_run levels1 [cx; cy] [a; b; c; d] [a] elim1.
  Proof.
    unfold elimination_run, levels1. cbn [checks_from map app].
    check_pass. check_pass. check_pass. check_pass. check_pass.
    apply el_one_left. cbn [List.length]. lia.
  Qed.

  Example ex1_model :
    aspect_evaluate ex_env (ex_state levels1)
    = Ok (sequential_ranking (map (survivor_mres 3) [a] ++ map rec_mres (rev elim1))).
  Proof. vm_cast_no_check (@eq_refl (res (list (@entry NumQc))) (aspect_evaluate ex_env (ex_state levels1))). Qed.

  (* the ranking: a, then d, c, b (reverse order of elimination), each linked to the next *)
  Example ex1_ranking :
    map (fun e : @entry NumQc => (a_id (e_alt e), a_idx e, map fst (a_ths e), e_links e))
        (sequential_ranking (map (survivor_mres 3) [a] ++ map rec_mres (rev elim1)))
    = [("a", 3%Z, [], ["d"]); ("d", 2%Z, ["x"], ["c"]); ("c", 1%Z, ["y"], ["b"]); ("b", 0%Z, ["x"], [])].
  Proof. vm_compute. reflexivity. Qed.

  (** *** Example 2: a check that would eliminate everybody.  Level 0 asks x >= 9: a, b and c are eliminated in
      this order and d, the last one in the search order, is left without being examined. *)
  Definition levels2 := [lv 9 8; lv 5 5].
  Definition elim2 := [rec a 0 cx 9; rec b 0 cx 9; rec c 0 cx 9].

  Example ex2_run : elimination_run levels2 [cx; cy] [a; b; c; d] [d] elim2.
  Proof.
    unfold elimination_run, levels2. cbn [checks_from map app].
    eapply el_check; [cbn [List.length]; lia|reflexivity| |cbn [app map]].
    - apply (cr_all_fail cx (q 9) [a; b; c; d] [a; b; c] d); [reflexivity|]. repeat constructor; cmp.
    - apply el_one_left. cbn [List.length]. lia.
  Qed.

  Example ex2_model :
    aspect_evaluate ex_env (ex_state levels2)
    = Ok (sequential_ranking (map (survivor_mres 1) [d] ++ map rec_mres (rev elim2))).
  Proof. vm_cast_no_check (@eq_refl (res (list (@entry NumQc))) (aspect_evaluate ex_env (ex_state levels2))). Qed.

  (** *** Example 3: the levels run out with several alternatives left: they all get the index 1, in the search
      order, before the eliminated one. *)
  Definition levels3 := [lv 4 8].

  Example ex3_run : elimination_run levels3 [cx; cy] [a; b; c; d] [a; c; d] [rec b 0 cx 4].
  Proof.
    unfold elimination_run, levels3. cbn [checks_from map app].
    check_pass. check_pass. apply el_levels_exhausted.
  Qed.

  Example ex3_model :
    aspect_evaluate ex_env (ex_state levels3)
    = Ok (sequential_ranking (map (survivor_mres 1) [a; c; d] ++ map rec_mres (rev [rec b 0 cx 4]))).
  Proof. vm_cast_no_check (@eq_refl (res (list (@entry NumQc))) (aspect_evaluate ex_env (ex_state levels3))). Qed.

  (** every ranking the model computes for these alternatives and criteria, whatever the levels, satisfies the
      checker's specification (instance of [aspect_entries_spec]) *)
  Example ex_checked :
    forall lvls r, aspect_evaluate ex_env (ex_state lvls) = Ok r -> C12_entries_spec (ex_state lvls) r.
  Proof.
    intros lvls r Hr. apply (@aspect_entries_spec NumQc OrdQc ex_env); [| |exact Hr].
    - cbn. repeat constructor; cbn [In]; intuition discriminate.
    - cbn. repeat constructor; cbn [In]; intuition discriminate.
  Qed.
End Examples.

Print Assumptions examined_deterministic.
Print Assumptions check_result_deterministic.
Print Assumptions elimination_deterministic.
Print Assumptions elimination_trans.
Print Assumptions elimination_perm.
Print Assumptions passed_all_before_gen.
Print Assumptions passed_all_before.
Print Assumptions survivors_passed.
Print Assumptions walk_sim.
Print Assumptions criteria_sim.
Print Assumptions levels_sim.
Print Assumptions aspect_is_elimination.
Print Assumptions aspect_ranking_shape.
Print Assumptions isort_by_descending_weight.
Print Assumptions descending_weight_unique.
Print Assumptions aspect_is_elimination_distinct.
Print Assumptions aspect_is_elimination_all_levels.
Print Assumptions eliminated_ok_spec.
Print Assumptions C12_ok_sound.
Print Assumptions aspect_entries_spec.
Print Assumptions Examples.ex1_weight_order.
Print Assumptions Examples.ex1_run.
Print Assumptions Examples.ex1_model.
Print Assumptions Examples.ex1_ranking.
Print Assumptions Examples.ex2_run.
Print Assumptions Examples.ex2_model.
Print Assumptions Examples.ex3_run.
Print Assumptions Examples.ex3_model.
Print Assumptions Examples.ex_checked.
