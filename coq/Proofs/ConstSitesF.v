(** * The binary64 side of the constants (see Proofs/ConstSites.v): wherever a literal of the source has the exact value of a
    constant of the model classified for its package, the binary64 the Go compiler rounds it to (Gen/ConstsF.v, regenerated
    on every run) is, bit by bit, the constant of the instance NumF that the correspondence runs execute. Compiled by every
    check that carries the constants obligation; not imported by Properties/*.v (it loads the floating-point library). *)
From Coq Require Import List String Bool ZArith QArith Qcanon Floats.
From RDM Require Import Base.Num Base.NumF Base.NumQc Gen.Consts Gen.ConstsF Proofs.ConstSites.
Import ListNotations.
Local Open Scope string_scope.

(* package directory, the model's constant in NumQc and in NumF *)
Definition classified_binary64 : list (string * Qc * float) := [
  ("logic/biases/anchoring", c_001 (Num := NumQc), c_001 (Num := NumF));
  ("logic/biases/criteria-mixing", qc_of 1 2, 0.5%float);
  ("logic/biases/fatigue", c_half (Num := NumQc), c_half (Num := NumF));
  ("logic/biases/fatigue", qc_of 1 1, none (Num := NumF));
  ("logic/limited-rationality/aspect-elimination", c_half (Num := NumQc), c_half (Num := NumF));
  ("logic/limited-rationality/majority", c_half (Num := NumQc), c_half (Num := NumF));
  ("logic/limited-rationality/majority", c_eps6 (Num := NumQc), c_eps6 (Num := NumF));
  ("logic/preference-func/choquet", c_eps5 (Num := NumQc), c_eps5 (Num := NumF));
  ("logic/preference-func/electreIII", c_dist_a (Num := NumQc), c_dist_a (Num := NumF));
  ("logic/preference-func/electreIII", c_dist_b (Num := NumQc), c_dist_b (Num := NumF));
  ("model", qc_of 100000000 1, 1e8%float);
  ("model/criteria-bounding", qc_of (-1) 1, (-1)%float)
].

Definition binary64_wrong (site : string * string * (Z * Z) * float) : bool :=
  let '(d, _, (n, dn), g) := site in
  existsb (fun c => let '(d', q, f) := c in String.eqb d d' && Qc_eq_bool (qc_of n dn) q && negb (f_same g f)) classified_binary64.

Definition wrong_binary64 := filter binary64_wrong go_float_binary64.

(* the two generated files list the same literals in the same order *)
Definition same_inventory : bool :=
  (List.length go_float_literals =? List.length go_float_binary64)%nat &&
  forallb (fun p => let '((d, w, _, (n, dn)), (d', w', (n', dn'), _)) := p in
                    String.eqb d d' && String.eqb w w' && Z.eqb n n' && Z.eqb dn dn')
          (combine go_float_literals go_float_binary64).

Definition consts_agree_F : bool := same_inventory && match wrong_binary64 with [] => true | _ => false end.

Lemma consts_agree_F_now : consts_agree_F = true.
Proof. vm_compute. reflexivity. Qed.

Lemma round8_uses_precision_F (v : float) : nround8 (Num := NumF) v = (f_round (v * 1e8) / 1e8)%float.
Proof. reflexivity. Qed.
