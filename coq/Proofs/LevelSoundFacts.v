(** * C14: soundness of the boolean checker [C14_ok] (Check/C14.v).

    [C14_ok d fn lp st levels] is evaluated on data observed from the running program; nothing is
    assumed about its arguments.  This file states declaratively what a [true] answer guarantees:

    - [C14_spec]     : any carrier [N : Num]; comparisons through [nltb/nleb ... = true], the
                       thresholds through the carrier operations;
    - [C14_spec_Qc]  : the same statement on exact rationals, with the four update rules, the
                       parameter domains, the value range (declared, else min/max over all known
                       alternatives) and the tolerance of the comparison spelled out arithmetically.

    What the checker does NOT establish is listed before [C14_ok_sound]. *)
From Coq Require Import ZArith QArith Qcanon Qabs Bool List String Lia Lqa.
From RDM Require Import Base.Num Base.NumQc Base.Util Model.Data Model.Levels Check.C14 Proofs.LevelFacts.
Import ListNotations.
Local Open Scope string_scope.
Local Open Scope list_scope.

(** ** 0. List bridges (no carrier) *)
Lemma list_eqb_nth {A B} (f : A -> B -> bool) : forall l1 l2,
  list_eqb f l1 l2 = true ->
  List.length l1 = List.length l2 /\
  forall i x y, nth_error l1 i = Some x -> nth_error l2 i = Some y -> f x y = true.
Proof.
  induction l1 as [|a l1 IH]; intros [|b l2] H; cbn [list_eqb] in H; try discriminate.
  - split; [reflexivity|]. intros [|i] x y Hx; discriminate Hx.
  - apply andb_true_iff in H as [Hab H]. destruct (IH l2 H) as [Hl Hn]. split; [cbn [List.length]; now rewrite Hl|].
    intros [|i] x y Hx Hy; cbn [nth_error] in Hx, Hy.
    + injection Hx as <-. injection Hy as <-. exact Hab.
    + exact (Hn i x y Hx Hy).
Qed.

Lemma nth_error_lt_some {A} (l : list A) i : (i < List.length l)%nat -> exists x, nth_error l i = Some x.
Proof.
  intros H. destruct (nth_error l i) as [x|] eqn:E; [now exists x|].
  apply nth_error_None in E. lia.
Qed.

Lemma nth_error_some_lt {A} (l : list A) i x : nth_error l i = Some x -> (i < List.length l)%nat.
Proof. intros H. apply nth_error_Some. congruence. Qed.

Section Generic.
  Context {N : Num}.

  (** ** 1. Vocabulary of the specification *)

  (* which series a level-function name denotes for the family [d]
     (increasing: aspect elimination, decreasing: satisfaction) *)
  Inductive names_series (d : direction) (fn : string) : series -> Prop :=
  | NS_mul : fn = lv_mul -> names_series d fn SMul
  | NS_add : fn <> lv_mul ->
             fn = (match d with Increasing => lv_additive | Decreasing => lv_subtractive end) ->
             names_series d fn SAdd.

  Lemma names_series_generated d fn s : names_series d fn s -> generated d fn = Some s.
  Proof.
    intros [E|NE E]; unfold generated.
    - subst fn. now rewrite String.eqb_refl.
    - apply String.eqb_neq in NE. rewrite NE. rewrite E at 1. now rewrite String.eqb_refl.
  Qed.

  Lemma generated_names_series d fn s : generated d fn = Some s -> names_series d fn s.
  Proof.
    unfold generated. destruct (String.eqb fn lv_mul) eqn:E1.
    - intros H. assert (Es : s = SMul) by congruence. subst s. apply NS_mul. now apply String.eqb_eq.
    - destruct (String.eqb fn (match d with Increasing => lv_additive | Decreasing => lv_subtractive end)) eqn:E2;
        cbv iota; [|discriminate]. intros H.
      assert (Es : s = SAdd) by congruence. subst s.
      apply NS_add; [now apply String.eqb_neq | now apply String.eqb_eq].
  Qed.

  Definition nlt (x y : num) : Prop := nltb x y = true.
  Definition nle (x y : num) : Prop := nleb x y = true.

  (* "earlier in the series": smaller when increasing, larger when decreasing *)
  Definition before (d : direction) (x y : num) : Prop :=
    match d with Increasing => nlt x y | Decreasing => nlt y x end.

  (* the continuation test: r < maxValue (increasing), r > minValue (decreasing) *)
  Definition continues (d : direction) (lp : lparams) (r : num) : Prop :=
    match d with Increasing => nlt r (lp_max lp) | Decreasing => nlt (lp_min lp) r end.

  (* the parameter domains, as comparisons of the carrier: 0 < coefficient < 1; increasing: minValue and
     maxValue in [0,1]; decreasing: in (0,1] *)
  Definition params_in_range (d : direction) (lp : lparams) : Prop :=
    nleb (lp_coef lp) nzero = false /\ nleb none (lp_coef lp) = false /\
    match d with
    | Increasing => nltb (lp_min lp) nzero = false /\ nltb none (lp_min lp) = false /\
                    nltb (lp_max lp) nzero = false /\ nltb none (lp_max lp) = false
    | Decreasing => nleb (lp_min lp) nzero = false /\ nltb none (lp_min lp) = false /\
                    nleb (lp_max lp) nzero = false /\ nltb none (lp_max lp) = false
    end.

  (* the threshold of criterion [c] at ratio [r] on the range [(mn, mx)]: worst end + r x range *)
  Definition placed_at (c : crit) (rg : num * num) (r : num) : num :=
    if is_cost c then nsub (snd rg) (nmul (nsub (snd rg) (fst rg)) r)
    else nadd (fst rg) (nmul (nsub (snd rg) (fst rg)) r).

  (* direction in which the threshold of [c] moves along the series *)
  Definition goes_up (d : direction) (c : crit) : bool :=
    match d with Increasing => negb (is_cost c) | Decreasing => is_cost c end.

  (** the i-th ratio of the series: [r 0] = start value, [r (S i)] = update of [r i] *)
  Fixpoint ratio_from (d : direction) (s : series) (coef : num) (i : nat) (r : num) : num :=
    match i with O => r | S j => ratio_from d s coef j (update_value d s r coef) end.
  Definition series_ratio (d : direction) (s : series) (lp : lparams) (i : nat) : num :=
    ratio_from d s (lp_coef lp) i (initial_value d lp).

  Lemma ratio_from_S d s c i : forall r,
    ratio_from d s c (S i) r = update_value d s (ratio_from d s c i r) c.
  Proof.
    induction i as [|i IH]; intros r; [reflexivity|].
    change (ratio_from d s c (S (S i)) r) with (ratio_from d s c (S i) (update_value d s r c)).
    now rewrite IH.
  Qed.

  (** ** 2. The specification (any carrier).
      [r] is the series of ratios; the first two fields determine it completely. *)
  Record C14_spec (d : direction) (s : series) (lp : lparams) (st : state) (levels : list (smap num))
         (r : nat -> num) : Prop := {
    (* "out-of-range parameters are rejected": levels are only accepted with parameters in range *)
    g_params_in_range : params_in_range d lp;
    (* "r starts at minValue" (aspect elimination) / "at maxValue" (satisfaction) *)
    g_series_start : r O = match d with Increasing => lp_min lp | Decreasing => lp_max lp end;
    (* "and grows / shrinks by" the update rule of the named series *)
    g_series_step : forall i, r (S i) = update_value d s (r i) (lp_coef lp);
    (* "while r < maxValue" / "while r > minValue": every returned level was due ... *)
    g_series_continues : forall i, (i < List.length levels)%nat -> continues d lp (r i);
    (* ... and the list is complete: the ratio after the last level fails the test ("finite") *)
    g_series_stops : ~ continues d lp (r (List.length levels));
    (* the ratios used are fractions in [0,1] *)
    g_series_unit : forall i, (i < List.length levels)%nat -> nle nzero (r i) /\ nle (r i) none;
    (* "the series is strictly monotone" (consecutive ratios) *)
    g_series_strict : forall i, (S i < List.length levels)%nat -> before d (r i) (r (S i));
    (* "generated thresholds place each criterion at a fraction r of its value range, measured from the
       worst end": the i-th level gives criterion [c] the value worst end + r_i x range, up to [approx8];
       on a non-degenerate range consecutive thresholds move strictly in the documented direction *)
    g_levels_placed : forall c, In c (st_crits st) ->
      exists rg, values_range (all_alts st) c = Ok rg /\
        (forall i t, nth_error levels i = Some t ->
           exists v, mget (c_id c) t = Some v /\ approx8 v (placed_at c rg (r i)) = true) /\
        (nlt (fst rg) (snd rg) ->
         forall i t t' v v', nth_error levels i = Some t -> nth_error levels (S i) = Some t' ->
           mget (c_id c) t = Some v -> mget (c_id c) t' = Some v' ->
           if goes_up d c then nlt v v' else nlt v' v);
    (* a level has as many entries as there are criteria *)
    g_levels_size : forall t, In t levels -> List.length t = List.length (st_crits st);
  }.

  (** ** 3. Reading the traversals of the checker *)
  Lemma continues_iff d lp r : continues d lp r <-> has_next d lp r = true.
  Proof. destruct d; reflexivity. Qed.

  Lemma validate_coef_params d lp : validate_coef d lp = true -> params_in_range d lp.
  Proof.
    unfold validate_coef, params_in_range.
    destruct (nleb (lp_coef lp) nzero) eqn:E1; [discriminate|].
    destruct (nleb none (lp_coef lp)) eqn:E2; [discriminate|]. cbn [orb].
    intros H. split; [reflexivity|]. split; [reflexivity|].
    destruct d; apply andb_true_iff in H as [A B]; apply negb_true_iff in A, B;
      apply orb_false_iff in A as [A1 A2]; apply orb_false_iff in B as [B1 B2]; repeat split; assumption.
  Qed.

  Lemma ratios_nth d s lp : forall fuel cur i,
    (i < List.length (ratios fuel d s lp cur))%nat ->
    nth_error (ratios fuel d s lp cur) i = Some (ratio_from d s (lp_coef lp) i cur) /\
    has_next d lp (ratio_from d s (lp_coef lp) i cur) = true.
  Proof.
    induction fuel as [|f IH]; intros cur i Hi; cbn [ratios] in *; [cbn in Hi; lia|].
    destruct (has_next d lp cur) eqn:E; [|cbn in Hi; lia].
    destruct i as [|i]; cbn [nth_error ratio_from]; [auto|].
    cbn [List.length] in Hi. apply IH. lia.
  Qed.

  Lemma ratios_stop d s lp : forall fuel cur,
    (List.length (ratios fuel d s lp cur) < fuel)%nat ->
    has_next d lp (ratio_from d s (lp_coef lp) (List.length (ratios fuel d s lp cur)) cur) = false.
  Proof.
    induction fuel as [|f IH]; intros cur H; [lia|]. cbn [ratios] in *.
    destruct (has_next d lp cur) eqn:E; [|exact E].
    cbn [List.length ratio_from] in *. apply IH. lia.
  Qed.

  Lemma strictly_nth (lt : num -> num -> bool) : forall l,
    strictly lt l = true ->
    forall i x y, nth_error l i = Some x -> nth_error l (S i) = Some y -> lt x y = true.
  Proof.
    induction l as [|a l IH]; intros H i x y Hx Hy; [destruct i; discriminate Hx|].
    cbn [strictly] in H. destruct l as [|b l]; [destruct i as [|[|i]]; discriminate Hy|].
    apply andb_true_iff in H as [Hab H].
    destruct i as [|i].
    - cbn [nth_error] in Hx, Hy. injection Hx as <-. injection Hy as <-. exact Hab.
    - exact (IH H i x y Hx Hy).
  Qed.

  (** ** 4. Soundness, any carrier.

      Clauses of the property text that [C14_ok] does NOT establish, or establishes in a weaker form:
      - the thresholds are compared with [approx8] (|v - t| <= 1.5e-8 + 1e-9 |t|, the rounding of the
        API), not exactly;
      - [C14_ok] answers [true] without looking at anything when [fn] names no generated series for
        the family [d] (explicit thresholds, unknown or empty name): hence the hypothesis
        [names_series d fn s];
      - "out-of-range parameters are rejected" is seen from the accepting side only: a list of levels
        passes only if the parameters are in range (the rejection itself is not an argument of
        [C14_ok]; it is compared by [levels_agree]);
      - a level has a value for every criterion and as many entries as there are criteria; that its
        keys are exactly the criterion ids follows only if the ids and the keys are pairwise distinct,
        which is not tested (see [C14_level_keys]);
      - strict movement of the thresholds is tested on looked-up values, for ranges with min < max. *)
  Theorem C14_ok_sound : forall d fn lp st levels s,
    C14_ok d fn lp st levels = true -> names_series d fn s ->
    C14_spec d s lp st levels (series_ratio d s lp).
  Proof.
    intros d fn lp st levels s H Hs. unfold C14_ok in H. rewrite (names_series_generated _ _ _ Hs) in H.
    cbv zeta in H. set (rs := ratios (S (List.length levels)) d s lp (initial_value d lp)) in *.
    apply andb_true_iff in H as [Hval H]. apply andb_true_iff in H as [H Hsize].
    apply andb_true_iff in H as [H Hcrit]. apply andb_true_iff in H as [H Hunit].
    apply andb_true_iff in H as [Hlen Hstrict]. apply Nat.eqb_eq in Hlen.
    assert (Hnth : forall i, (i < List.length levels)%nat ->
                     nth_error rs i = Some (series_ratio d s lp i) /\ has_next d lp (series_ratio d s lp i) = true).
    { intros i Hi. apply ratios_nth. fold rs. lia. }
    constructor.
    - now apply validate_coef_params.
    - destruct d; reflexivity.
    - intros i. apply ratio_from_S.
    - intros i Hi. apply continues_iff. apply (Hnth i Hi).
    - intros Hc. apply continues_iff in Hc.
      pose proof (ratios_stop d s lp (S (List.length levels)) (initial_value d lp)) as Hst. fold rs in Hst.
      rewrite Hlen in Hst. unfold series_ratio in Hc. rewrite Hst in Hc; [discriminate | lia].
    - intros i Hi. destruct (Hnth i Hi) as [Hr _]. rewrite forallb_forall in Hunit.
      specialize (Hunit _ (nth_error_In _ _ Hr)). apply andb_true_iff in Hunit. exact Hunit.
    - intros i Hi. destruct (Hnth i ltac:(lia)) as [Hr _]. destruct (Hnth (S i) Hi) as [Hr' _].
      pose proof (strictly_nth _ _ Hstrict i _ _ Hr Hr') as Hlt. destruct d; exact Hlt.
    - intros c Hc. rewrite forallb_forall in Hcrit. specialize (Hcrit c Hc).
      destruct (values_range (all_alts st) c) as [rg|e]; [|discriminate]. exists rg. split; [reflexivity|].
      apply andb_true_iff in Hcrit as [Hpl Hmv]. apply list_eqb_nth in Hpl as [_ Hpl].
      assert (Hval_i : forall i t, nth_error levels i = Some t ->
                exists v, mget (c_id c) t = Some v /\ approx8 v (placed_at c rg (series_ratio d s lp i)) = true).
      { intros i t Ht. destruct (Hnth i (nth_error_some_lt _ _ _ Ht)) as [Hr _].
        specialize (Hpl i t _ Ht Hr). cbv beta in Hpl.
        destruct (mget (c_id c) t) as [v|]; [|discriminate]. exists v. split; [reflexivity|exact Hpl]. }
      split; [exact Hval_i|].
      intros Hrg i t t' v v' Ht Ht' Hv Hv'. unfold nlt in Hrg. rewrite Hrg in Hmv. cbn [negb orb] in Hmv.
      cbv zeta in Hmv.
      set (g := fun t0 : smap num => match mget (c_id c) t0 with Some v0 => v0 | None => nzero end) in Hmv.
      pose proof (map_nth_error g _ _ Ht) as M. pose proof (map_nth_error g _ _ Ht') as M'.
      pose proof (strictly_nth _ _ Hmv i _ _ M M') as Hlt. unfold g in Hlt. rewrite Hv, Hv' in Hlt.
      unfold goes_up. destruct d; destruct (is_cost c); cbn [negb] in *; exact Hlt.
    - intros t Ht. rewrite forallb_forall in Hsize. apply Nat.eqb_eq. exact (Hsize t Ht).
  Qed.

  (** the number of returned levels is determined by the parameters: it is the first index at which the
      continuation test fails *)
  Corollary C14_levels_count : forall d fn lp st levels s,
    C14_ok d fn lp st levels = true -> names_series d fn s ->
    forall n, (forall i, (i < n)%nat -> continues d lp (series_ratio d s lp i)) ->
              ~ continues d lp (series_ratio d s lp n) -> List.length levels = n.
  Proof.
    intros d fn lp st levels s H Hs n Hc Hstop. destruct (C14_ok_sound _ _ _ _ _ _ H Hs).
    destruct (Nat.lt_trichotomy (List.length levels) n) as [A|[A|A]]; [|exact A|].
    - elim g_series_stops0. now apply Hc.
    - elim Hstop. now apply g_series_continues0.
  Qed.

  (** with pairwise distinct criterion ids and pairwise distinct keys (neither is tested by the checker)
      a level is defined exactly on the criteria *)
  Corollary C14_level_keys : forall d fn lp st levels s,
    C14_ok d fn lp st levels = true -> names_series d fn s ->
    forall (Hids : NoDup (map c_id (st_crits st))) t (Hkeys : NoDup (mkeys t)), In t levels ->
    forall k, In k (mkeys t) <-> In k (map c_id (st_crits st)).
  Proof.
    intros d fn lp st levels s H Hs Hids t Hkeys Ht k. destruct (C14_ok_sound _ _ _ _ _ _ H Hs).
    assert (Hincl : incl (map c_id (st_crits st)) (mkeys t)).
    { intros k' Hk'. apply in_map_iff in Hk' as (c & <- & Hc).
      destruct (g_levels_placed0 c Hc) as (rg & _ & Hpl & _).
      apply In_nth_error in Ht as [i Hi]. destruct (Hpl i t Hi) as (v & Hv & _).
      apply mkeys_in_iff. now exists v. }
    split; [|apply Hincl].
    apply (NoDup_length_incl Hids); [|exact Hincl].
    unfold mkeys. rewrite !map_length. rewrite (g_levels_size0 t Ht). lia.
  Qed.

  (** the statement in the form "checker true -> property": the property is void when [fn] names no
      generated series for the family [d], exactly as the checker is *)
  Definition C14_property (d : direction) (fn : string) (lp : lparams) (st : state)
             (levels : list (smap num)) : Prop :=
    forall s, names_series d fn s -> C14_spec d s lp st levels (series_ratio d s lp).

  Theorem C14_ok_sound_property : forall d fn lp st levels,
    C14_ok d fn lp st levels = true -> C14_property d fn lp st levels.
  Proof. intros d fn lp st levels H s Hs. exact (C14_ok_sound _ _ _ _ _ _ H Hs). Qed.

  (* the non-coverage stated above, as a fact: with a name that denotes no generated series the checker
     accepts any data *)
  Lemma C14_ok_not_generated d fn lp st levels :
    (forall s, ~ names_series d fn s) -> C14_ok d fn lp st levels = true.
  Proof.
    intros Hn. unfold C14_ok. destruct (generated d fn) as [s|] eqn:E; [|reflexivity].
    elim (Hn s). now apply generated_names_series.
  Qed.

  (* the first two fields of the specification determine the series *)
  Lemma series_determined d s lp (r r' : nat -> num) :
    r O = r' O ->
    (forall i, r (S i) = update_value d s (r i) (lp_coef lp)) ->
    (forall i, r' (S i) = update_value d s (r' i) (lp_coef lp)) ->
    forall i, r i = r' i.
  Proof.
    intros H0 Hr Hr' i. induction i as [|i IH]; [exact H0|]. now rewrite Hr, Hr', IH.
  Qed.
End Generic.

(** ** 5. The same on exact rationals, arithmetically *)
Local Open Scope Qc_scope.

(* |a - b| <= 1.5e-8 + 1e-9 |b| *)
Definition close8 (a b : Qc) : Prop :=
  qc_abs (a - b) <= Q2Qc (15 # 1000000000) + Q2Qc (1 # 1000000000) * qc_abs b.

Lemma approx8_close8 (a b : Qc) : @approx8 NumQc a b = true <-> close8 a b.
Proof. unfold approx8, close8. apply nleb_iff. Qed.

(* the value range of criterion [c] over the known alternatives [alts]: the declared one if present,
   otherwise the least and the greatest value found ((0,0) without alternatives) *)
Definition range_of (alts : list (@alt NumQc)) (c : @crit NumQc) (mn mx : Qc) : Prop :=
  match c_range c with
  | Some rg => rg = (mn, mx)
  | None =>
      (alts = [] /\ mn = 0 /\ mx = 0) \/
      (alts <> [] /\
       (forall a, In a alts -> exists v, mget (c_id c) (a_vals a) = Some v /\ mn <= v /\ v <= mx) /\
       (exists a, In a alts /\ mget (c_id c) (a_vals a) = Some mn) /\
       (exists a, In a alts /\ mget (c_id c) (a_vals a) = Some mx))
  end.

Lemma raw_value_mget (a : @alt NumQc) (c : @crit NumQc) v :
  raw_value a c = Ok v <-> mget (c_id c) (a_vals a) = Some v.
Proof.
  unfold raw_value. destruct (mget (c_id c) (a_vals a)) as [w|]; cbn [of_option]; split; intros H;
    try discriminate; congruence.
Qed.

Lemma values_range_range_of (alts : list (@alt NumQc)) (c : @crit NumQc) mn mx :
  values_range alts c = Ok (mn, mx) -> range_of alts c mn mx.
Proof.
  intros H. unfold range_of. destruct (values_range_spec alts c) as (S1 & S2 & S3).
  destruct (c_range c) as [rg|] eqn:Er.
  - rewrite (S1 rg eq_refl) in H. cbv iota beta. injection H as ->. reflexivity.
  - destruct alts as [|a0 l] eqn:Ea.
    + left. rewrite (S2 eq_refl eq_refl) in H. injection H as <- <-. auto.
    + right. rewrite <- Ea in *.
      assert (NE : alts <> []) by (rewrite Ea; discriminate).
      assert (Hall : forall a, In a alts -> exists v, raw_value a c = Ok v).
      { intros a Ha. destruct (raw_value_cases a c) as [M|M]; [|exact M].
        rewrite (values_range_missing alts c a Er Ha M) in H. discriminate. }
      destruct (S3 eq_refl NE Hall) as (mn' & mx' & E & Hbd & (a1 & I1 & V1) & (a2 & I2 & V2)).
      rewrite E in H. injection H as -> ->. split; [exact NE|]. split; [|split].
      * intros a Ha. destruct (Hall a Ha) as [v Hv]. exists v. split; [now apply raw_value_mget|].
        exact (Hbd a v Ha Hv).
      * exists a1. split; [exact I1 | now apply raw_value_mget].
      * exists a2. split; [exact I2 | now apply raw_value_mget].
Qed.

(* the documented update rules *)
Definition next_ratio (d : direction) (s : series) (r coef : Qc) : Qc :=
  match d, s with
  | Increasing, SMul => Qcmin ((1 + r) * (1 + coef) - 1) 1
  | Increasing, SAdd => Qcmin (r + coef) 1
  | Decreasing, SMul => r * coef
  | Decreasing, SAdd => Qcmax (r - coef) 0
  end.

Lemma update_value_next d s (r c : Qc) : @update_value NumQc d s r c = next_ratio d s r c.
Proof. destruct d, s; apply update_value_spec. Qed.

(* worst end + r x range *)
Definition threshold (c : @crit NumQc) (mn mx r : Qc) : Qc :=
  if is_cost c then mx - (mx - mn) * r else mn + (mx - mn) * r.

Record C14_spec_Qc (d : direction) (s : series) (lp : @lparams NumQc) (st : @state NumQc)
       (levels : list (smap Qc)) (r : nat -> Qc) : Prop := {
  (* "out-of-range parameters are rejected" (accepting side) *)
  q_coef_in_range : 0 < lp_coef lp /\ lp_coef lp < 1;
  q_bounds_in_range :
    match d with
    | Increasing => (0 <= lp_min lp /\ lp_min lp <= 1) /\ (0 <= lp_max lp /\ lp_max lp <= 1)
    | Decreasing => (0 < lp_min lp /\ lp_min lp <= 1) /\ (0 < lp_max lp /\ lp_max lp <= 1)
    end;
  (* "r starts at minValue" / "at maxValue" *)
  q_series_start : r O = match d with Increasing => lp_min lp | Decreasing => lp_max lp end;
  (* r -> min((1+r)(1+coefficient)-1, 1), r -> min(r+coefficient, 1), r -> r x coefficient,
     r -> max(r-coefficient, 0) *)
  q_series_step : forall i, r (S i) = next_ratio d s (r i) (lp_coef lp);
  (* "while r < maxValue" / "while r > minValue" *)
  q_series_continues : forall i, (i < List.length levels)%nat ->
    match d with Increasing => r i < lp_max lp | Decreasing => lp_min lp < r i end;
  (* complete, finite: the next ratio fails the test *)
  q_series_stops :
    match d with
    | Increasing => lp_max lp <= r (List.length levels)
    | Decreasing => r (List.length levels) <= lp_min lp
    end;
  q_series_unit : forall i, (i < List.length levels)%nat -> 0 <= r i /\ r i <= 1;
  (* "the series is strictly monotone" *)
  q_series_monotone : forall i j, (i < j)%nat -> (j < List.length levels)%nat ->
    match d with Increasing => r i < r j | Decreasing => r j < r i end;
  (* min + r x range for gain, max - r x range for cost; declared range, else over all known alternatives *)
  q_levels_placed : forall c, In c (st_crits st) ->
    exists mn mx, range_of (all_alts st) c mn mx /\
      (forall i t, nth_error levels i = Some t ->
         exists v, mget (c_id c) t = Some v /\ close8 v (threshold c mn mx (r i))) /\
      (mn < mx ->
       forall i j t t' v v', (i < j)%nat -> nth_error levels i = Some t -> nth_error levels j = Some t' ->
         mget (c_id c) t = Some v -> mget (c_id c) t' = Some v' ->
         if goes_up d c then v < v' else v' < v);
  q_levels_size : forall t, In t levels -> List.length t = List.length (st_crits st);
}.

Lemma adjacent_to_all (P : nat -> nat -> Prop) (n : nat) :
  (forall i j k, P i j -> P j k -> P i k) ->
  (forall i, (S i < n)%nat -> P i (S i)) ->
  forall i j, (i < j)%nat -> (j < n)%nat -> P i j.
Proof.
  intros Htr Hadj i j Hij. induction Hij as [|j Hij IH]; intros Hj.
  - now apply Hadj.
  - apply (Htr i j (S j)); [apply IH; lia | now apply Hadj].
Qed.

Theorem C14_ok_sound_Qc : forall d fn (lp : @lparams NumQc) (st : @state NumQc) (levels : list (smap Qc)) s,
  C14_ok d fn lp st levels = true -> names_series d fn s ->
  C14_spec_Qc d s lp st levels (series_ratio d s lp).
Proof.
  intros d fn lp st levels s H Hs.
  assert (Hval : validate_coef d lp = true).
  { unfold C14_ok in H. rewrite (names_series_generated _ _ _ Hs) in H. now apply andb_true_iff in H as [H _]. }
  destruct (C14_ok_sound _ _ _ _ _ _ H Hs) as [_ G1 G2 G3 G4 G5 G6 G7 G8].
  apply validate_coef_spec in Hval as (Vc & Vi & Vd).
  assert (Hmono : forall i j, (i < j)%nat -> (j < List.length levels)%nat ->
            match d with Increasing => series_ratio d s lp i < series_ratio d s lp j
                       | Decreasing => series_ratio d s lp j < series_ratio d s lp i end).
  { destruct d.
    - apply (adjacent_to_all (fun i j => series_ratio Increasing s lp i < series_ratio Increasing s lp j)).
      + intros i j k A B. eapply Qclt_trans; eassumption.
      + intros i Hi. apply nltb_iff. exact (G6 i Hi).
    - apply (adjacent_to_all (fun i j => series_ratio Decreasing s lp j < series_ratio Decreasing s lp i)).
      + intros i j k A B. eapply Qclt_trans; eassumption.
      + intros i Hi. apply nltb_iff. exact (G6 i Hi). }
  constructor.
  - exact Vc.
  - destruct d; [apply Vi | apply Vd]; reflexivity.
  - exact G1.
  - intros i. rewrite G2. apply update_value_next.
  - intros i Hi. specialize (G3 i Hi). destruct d; apply nltb_iff; exact G3.
  - destruct d; apply nltb_false_iff; unfold continues, nlt in G4; apply not_true_is_false; exact G4.
  - intros i Hi. destruct (G5 i Hi) as [A B]. split; apply nleb_iff; assumption.
  - exact Hmono.
  - intros c Hc. destruct (G7 c Hc) as ([mn mx] & Hrg & Hpl & Hmv). exists mn, mx.
    split; [now apply values_range_range_of|]. split.
    + intros i t Ht. destruct (Hpl i t Ht) as (v & Hv & Ha). exists v. split; [exact Hv|].
      apply approx8_close8. exact Ha.
    + intros Hlt. cbn [fst snd] in Hmv. assert (Hlt' : nlt mn mx) by (now apply nltb_iff).
      specialize (Hmv Hlt').
      assert (Hget : forall i t, nth_error levels i = Some t -> exists v, mget (c_id c) t = Some v).
      { intros i t Ht. destruct (Hpl i t Ht) as (v & Hv & _). now exists v. }
      (* the value of [c] in the i-th level, 0 outside *)
      set (val := fun i => match nth_error levels i with
                           | Some t => match mget (c_id c) t with Some v => v | None => 0 end
                           | None => 0 end).
      assert (Hadj : forall i, (S i < List.length levels)%nat ->
                if goes_up d c then val i < val (S i) else val (S i) < val i).
      { intros i Hi. destruct (nth_error_lt_some levels i ltac:(lia)) as [t Ht].
        destruct (nth_error_lt_some levels (S i) Hi) as [t' Ht'].
        destruct (Hget _ _ Ht) as [v Hv]. destruct (Hget _ _ Ht') as [v' Hv'].
        unfold val. rewrite Ht, Ht', Hv, Hv'. specialize (Hmv i t t' v v' Ht Ht' Hv Hv').
        destruct (goes_up d c); apply nltb_iff; exact Hmv. }
      intros i j t t' v v' Hij Ht Ht' Hv Hv'.
      assert (Hall : if goes_up d c then val i < val j else val j < val i).
      { destruct (goes_up d c).
        - apply (adjacent_to_all (fun i j => val i < val j) (List.length levels)); auto.
          + intros a b e A B. eapply Qclt_trans; eassumption.
          + eapply nth_error_some_lt; eassumption.
        - apply (adjacent_to_all (fun i j => val j < val i) (List.length levels)); auto.
          + intros a b e A B. eapply Qclt_trans; eassumption.
          + eapply nth_error_some_lt; eassumption. }
      unfold val in Hall. rewrite Ht, Ht', Hv, Hv' in Hall. exact Hall.
  - exact G8.
Qed.

Definition C14_property_Qc (d : direction) (fn : string) (lp : @lparams NumQc) (st : @state NumQc)
           (levels : list (smap Qc)) : Prop :=
  forall s, names_series d fn s -> C14_spec_Qc d s lp st levels (series_ratio d s lp).

Theorem C14_ok_sound_property_Qc : forall d fn (lp : @lparams NumQc) (st : @state NumQc) (levels : list (smap Qc)),
  C14_ok d fn lp st levels = true -> C14_property_Qc d fn lp st levels.
Proof. intros d fn lp st levels H s Hs. exact (C14_ok_sound_Qc _ _ _ _ _ _ H Hs). Qed.

(* the series of the specification is the one the finiteness / monotonicity theorems of LevelFacts speak of *)
Lemma series_ratio_ratio_at d s (lp : @lparams NumQc) i :
  series_ratio d s lp i = ratio_at d s (lp_coef lp) i (initial_value d lp).
Proof.
  unfold series_ratio. generalize (initial_value d lp). induction i as [|i IH]; intros r; [reflexivity|].
  cbn [ratio_from ratio_at]. apply IH.
Qed.

(** two-sided reading of the tolerance *)
Lemma close8_bounds (a b : Qc) :
  close8 a b ->
  b - (Q2Qc (15 # 1000000000) + Q2Qc (1 # 1000000000) * qc_abs b) <= a /\
  a <= b + (Q2Qc (15 # 1000000000) + Q2Qc (1 # 1000000000) * qc_abs b).
Proof.
  unfold close8. set (tol := Q2Qc (15 # 1000000000) + Q2Qc (1 # 1000000000) * qc_abs b). intros H.
  unfold Qcle in *. assert (E : (this (qc_abs (a - b)) == Qabs (this a - this b))%Q).
  { unfold qc_abs, Q2Qc. cbn [this]. rewrite Qred_correct. now rewrite this_minus. }
  rewrite E in H. apply Qabs_Qle_condition in H as [H1 H2].
  rewrite this_minus, this_plus. split; lra.
Qed.

(** ** 6. Non-vacuity: the checker accepts the series produced by the model.
    (coefficient 1/4, minValue 1/4, maxValue 3/4, additive increasing, a gain criterion observed on
    [10,20] and a cost criterion observed on [100,300]; multiplicative decreasing from 1 to 1/4) *)
Example C14_ok_additive_increasing :
  let st := ex_state [ex_gain; ex_cost] ex_lp1 in
  match (do src <- lv_init Increasing lv_additive ex_lp1 st; lv_all 10 src) with
  | Ok levels => (List.length levels, C14_ok Increasing lv_additive ex_lp1 st levels)
  | Err _ => (O, false)
  end = (2%nat, true).
Proof. vm_compute. reflexivity. Qed.

Example C14_ok_mul_decreasing :
  let lp := ex_lp (Q2Qc (1 # 2)) (Q2Qc (1 # 4)) (Q2Qc 1) in
  let st := ex_state [ex_gain; ex_cost] lp in
  match (do src <- lv_init Decreasing lv_mul lp st; lv_all 10 src) with
  | Ok levels => (List.length levels, C14_ok Decreasing lv_mul lp st levels)
  | Err _ => (O, false)
  end = (2%nat, true).
Proof. vm_compute. reflexivity. Qed.

(* and it is not constantly true: dropping the last level, or a level moved by 1e-6, is refused *)
Example C14_ok_refuses :
  let st := ex_state [ex_gain] ex_lp1 in
  let g (q : Q) : smap Qc := [("g", Q2Qc q)] in
  (C14_ok Increasing lv_additive ex_lp1 st [g (25 # 2); g (15 # 1)],
   C14_ok Increasing lv_additive ex_lp1 st [g (25 # 2)],
   C14_ok Increasing lv_additive ex_lp1 st [g (25 # 2); g (15000001 # 1000000)],
   C14_ok Increasing lv_additive (ex_lp (Q2Qc 1) (Q2Qc (1 # 4)) (Q2Qc (3 # 4))) st [])
  = (true, false, false, false).
Proof. vm_compute. reflexivity. Qed.

(* the hypothesis of the theorems is satisfiable, with an instance of the conclusion *)
Example C14_spec_instance :
  let st := ex_state [ex_gain] ex_lp1 in
  C14_spec_Qc Increasing SAdd ex_lp1 st [[("g", Q2Qc (25 # 2))]; [("g", Q2Qc (15 # 1))]]
              (series_ratio Increasing SAdd ex_lp1).
Proof.
  cbv zeta. apply (C14_ok_sound_Qc Increasing lv_additive).
  - vm_compute. reflexivity.
  - apply NS_add; [discriminate | reflexivity].
Qed.

Print Assumptions C14_ok_sound.
Print Assumptions C14_levels_count.
Print Assumptions C14_level_keys.
Print Assumptions values_range_range_of.
Print Assumptions C14_ok_sound_Qc.
Print Assumptions C14_ok_sound_property.
Print Assumptions C14_ok_sound_property_Qc.
Print Assumptions C14_ok_not_generated.
Print Assumptions series_determined.
Print Assumptions series_ratio_ratio_at.
Print Assumptions close8_bounds.
Print Assumptions C14_spec_instance.
