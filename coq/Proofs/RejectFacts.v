(** * C20 (model level): violations of the documented input constraints are rejected.
    [decide e req] is [Ok] (HTTP 200, a ranking) or [Err] (HTTP 400).  Every lemma below has the form
    "constraint violated -> [is_ok (decide e req) = false]" for ANY environment, the rest of the request
    being arbitrary.  Generic lemmas (any [Num]) take the comparisons as boolean hypotheses; the
    lemmas under the requested names are stated on [NumQc] with the order of [Qc]. *)
From Coq Require Import ZArith QArith Qcanon Bool List String Ascii Lia Lqa.
From RDM Require Import Base.Num Base.NumQc Base.Util Model.Data Model.Rank Model.Utility Model.Levels
  Model.Heuristics Model.Electre Model.Listeners Model.Biases Model.Anchoring Model.Pipeline
  Proofs.LevelFacts Proofs.WfFacts.
Import ListNotations.
Local Open Scope string_scope.
Local Open Scope list_scope.

(** ** Results *)
Lemma is_ok_false_iff {A} (r : res A) : is_ok r = false <-> exists c, r = Err c.
Proof. destruct r; cbn [is_ok]; split; try discriminate; eauto. intros [c H]; discriminate. Qed.

Lemma is_ok_bind_l {A B} (r : res A) (f : A -> res B) : is_ok r = false -> is_ok (bind r f) = false.
Proof. destruct r; [discriminate|reflexivity]. Qed.

Lemma is_ok_bind_r {A B} (r : res A) (f : A -> res B) :
  (forall a, r = Ok a -> is_ok (f a) = false) -> is_ok (bind r f) = false.
Proof. destruct r; cbn [bind]; [intros H; now apply H|reflexivity]. Qed.

Lemma mapM_err {A B} (f : A -> res B) (l : list A) (x : A) :
  In x l -> is_ok (f x) = false -> is_ok (mapM f l) = false.
Proof.
  induction l as [|y r IH]; cbn [In mapM]; [contradiction|].
  intros [->|I] H.
  - now apply is_ok_bind_l.
  - apply is_ok_bind_r. intros b _. apply is_ok_bind_l. now apply IH.
Qed.

Lemma of_option_none {A} (c : err_class) : @of_option A None c = Err c.
Proof. reflexivity. Qed.

Section Generic.
  Context {N : Num}.

  (** ** 10. [decide] is total; an error of [prepare] is the answer *)
  Theorem status_of_outcome e req :
    (exists r bs, decide e req = Ok {| resp_result := r; resp_biases := bs |}) \/ (exists c, decide e req = Err c).
  Proof. destruct (decide e req) as [[r bs]|c]; [left|right]; eauto. Qed.

  Theorem err_is_final e req c : prepare req = Err c -> decide e req = Err c.
  Proof. intros H. unfold decide, biased_state. rewrite H. reflexivity. Qed.

  Lemma decide_prepare_err e req : is_ok (prepare req) = false -> is_ok (decide e req) = false.
  Proof. intros H. apply is_ok_false_iff in H. destruct H as [c H]. now rewrite (err_is_final e req c H). Qed.

  Lemma decide_biased_err e req : is_ok (biased_state e req) = false -> is_ok (decide e req) = false.
  Proof. intros H. unfold decide. now apply is_ok_bind_l. Qed.

  (** the steps of [prepare] in order *)
  Lemma prepare_blank req : is_blank (r_method req) = true -> prepare req = Err EInvalid.
  Proof. intros H. unfold prepare. now rewrite H. Qed.

  Lemma prepare_criteria_err req :
    is_ok (validate_criteria (r_crits req) []) = false -> is_ok (prepare req) = false.
  Proof.
    intros H. unfold prepare. destruct (is_blank (r_method req)); [reflexivity|]. now apply is_ok_bind_l.
  Qed.

  Lemma prepare_alternatives_err req :
    is_ok (validate_alternatives (r_known req) (r_crits req)) = false -> is_ok (prepare req) = false.
  Proof.
    intros H. unfold prepare. destruct (is_blank (r_method req)); [reflexivity|].
    apply is_ok_bind_r. intros ? _. now apply is_ok_bind_l.
  Qed.

  Lemma prepare_method_err req : mem_str (r_method req) method_names = false -> is_ok (prepare req) = false.
  Proof.
    intros H. unfold prepare. destruct (is_blank (r_method req)); [reflexivity|].
    apply is_ok_bind_r. intros ? _. apply is_ok_bind_r. intros ? _. now rewrite H.
  Qed.

  Lemma prepare_considered_err req : is_ok (considered req) = false -> is_ok (prepare req) = false.
  Proof.
    intros H. unfold prepare. destruct (is_blank (r_method req)); [reflexivity|].
    apply is_ok_bind_r. intros ? _. apply is_ok_bind_r. intros ? _.
    destruct (negb (mem_str (r_method req) method_names)); [reflexivity|]. now apply is_ok_bind_l.
  Qed.

  Lemma prepare_parse_err req : is_ok (parse_params req) = false -> is_ok (prepare req) = false.
  Proof.
    intros H. unfold prepare. destruct (is_blank (r_method req)); [reflexivity|].
    apply is_ok_bind_r. intros ? _. apply is_ok_bind_r. intros ? _.
    destruct (negb (mem_str (r_method req) method_names)); [reflexivity|].
    apply is_ok_bind_r. intros ? _. now apply is_ok_bind_l.
  Qed.

  Lemma prepare_ok_inv req st :
    prepare req = Ok st ->
    is_blank (r_method req) = false /\ mem_str (r_method req) method_names = true /\
    considered req = Ok (st_cons st) /\ parse_params req = Ok (st_params st) /\
    st_crits st = r_crits req /\ st_notcons st = not_considered req.
  Proof.
    unfold prepare. destruct (is_blank (r_method req)); [discriminate|].
    destruct (validate_criteria (r_crits req) []) as [[]|]; cbn [bind]; [|discriminate].
    destruct (validate_alternatives (r_known req) (r_crits req)) as [[]|]; cbn [bind]; [|discriminate].
    destruct (mem_str (r_method req) method_names); cbn [negb]; [|discriminate].
    destruct (considered req) as [consd|]; cbn [bind]; [|discriminate].
    destruct (parse_params req) as [p|]; cbn [bind]; [|discriminate].
    intros H. injection H as <-. cbn. repeat split; reflexivity.
  Qed.

  (** ** 1. method *)
  Theorem rejects_blank_method e req : is_blank (r_method req) = true -> is_ok (decide e req) = false.
  Proof. intros H. apply decide_prepare_err. now rewrite (prepare_blank req H). Qed.

  Theorem rejects_unknown_method e req : ~ In (r_method req) method_names -> is_ok (decide e req) = false.
  Proof.
    intros H. apply decide_prepare_err, prepare_method_err.
    destruct (mem_str (r_method req) method_names) eqn:E; [|reflexivity].
    apply mem_str_In in E. contradiction.
  Qed.

  (** ** 2. criteria *)
  Lemma validate_criteria_ok : forall cs seen,
    validate_criteria cs seen = Ok tt ->
    NoDup (map c_id cs) /\ (forall x, In x (map c_id cs) -> ~ In x seen) /\
    (forall c mn mx, In c cs -> c_range c = Some (mn, mx) -> nleb mx mn = false).
  Proof.
    induction cs as [|c r IH]; intros seen H; cbn [map In].
    - repeat split; [constructor|contradiction|contradiction].
    - cbn [validate_criteria] in H.
      destruct (mem_str (c_id c) seen) eqn:M; [discriminate|].
      assert (R : validate_criteria r (c_id c :: seen) = Ok tt /\
                  (forall mn mx, c_range c = Some (mn, mx) -> nleb mx mn = false)).
      { destruct (c_range c) as [[mn mx]|]; [|split; [exact H|discriminate]].
        destruct (nleb mx mn) eqn:L; [discriminate|]. split; [exact H|].
        intros mn' mx' E. injection E as <- <-. exact L. }
      destruct R as [R1 R2]. destruct (IH _ R1) as [A [B C]].
      split; [|split].
      + constructor; [|exact A]. intros I. apply (B _ I). now left.
      + intros x [<-|I] J.
        * apply mem_str_In in J. congruence.
        * apply (B _ I). now right.
      + intros c' mn mx [<-|I] E; [now apply R2|now apply (C c' mn mx)].
  Qed.

  Lemma validate_criteria_res cs seen : is_ok (validate_criteria cs seen) = false \/ validate_criteria cs seen = Ok tt.
  Proof. destruct (validate_criteria cs seen) as [[]|]; [now right|now left]. Qed.

  Theorem rejects_duplicate_criterion e req :
    ~ NoDup (map c_id (r_crits req)) -> is_ok (decide e req) = false.
  Proof.
    intros H. apply decide_prepare_err, prepare_criteria_err.
    destruct (validate_criteria_res (r_crits req) []) as [A|A]; [exact A|].
    apply validate_criteria_ok in A. exfalso. apply H. apply A.
  Qed.

  Theorem rejects_inverted_range_gen e req c mn mx :
    In c (r_crits req) -> c_range c = Some (mn, mx) -> nleb mx mn = true -> is_ok (decide e req) = false.
  Proof.
    intros I R L. apply decide_prepare_err, prepare_criteria_err.
    destruct (validate_criteria_res (r_crits req) []) as [A|A]; [exact A|].
    apply validate_criteria_ok in A. destruct A as [_ [_ A]]. rewrite (A c mn mx I R) in L. discriminate.
  Qed.

  (** ** 3. every known alternative has a value for every criterion *)
  Theorem rejects_missing_value e req a c :
    In a (r_known req) -> In c (r_crits req) -> mget (c_id c) (a_vals a) = None -> is_ok (decide e req) = false.
  Proof.
    intros Ia Ic M. apply decide_prepare_err, prepare_alternatives_err.
    unfold validate_alternatives.
    destruct (forallb (fun a0 => forallb (fun c0 => mhas (c_id c0) (a_vals a0)) (r_crits req)) (r_known req)) eqn:F;
      [|reflexivity].
    rewrite forallb_forall in F. specialize (F a Ia). rewrite forallb_forall in F. specialize (F c Ic).
    unfold mhas in F. rewrite M in F. discriminate.
  Qed.

  (** ** 4. the considered alternatives are known *)
  Lemma fetch_alt_unknown : forall (l : list alt) x, ~ In x (map a_id l) -> fetch_alt l x = Err EMissing.
  Proof.
    induction l as [|a r IH]; intros x H; cbn [fetch_alt]; [reflexivity|].
    cbn [map In] in H. destruct (String.eqb (a_id a) x) eqn:E.
    - apply String.eqb_eq in E. exfalso. apply H. now left.
    - apply IH. intros I. apply H. now right.
  Qed.

  Theorem rejects_unknown_alternative e req x :
    In x (r_chose req) -> ~ In x (map a_id (r_known req)) -> is_ok (decide e req) = false.
  Proof.
    intros I H. apply decide_prepare_err, prepare_considered_err. unfold considered.
    apply (mapM_err _ _ x I). now rewrite fetch_alt_unknown.
  Qed.

  (** ** the method selects its parser *)
  Lemma parse_ws req : r_method req = m_ws -> parse_params req = ws_parse (r_crits req) (r_mp req).
  Proof. unfold parse_params. intros ->. reflexivity. Qed.
  Lemma parse_owa req : r_method req = m_owa -> parse_params req = owa_parse (r_crits req) (r_mp req).
  Proof. unfold parse_params. intros ->. reflexivity. Qed.
  Lemma parse_choquet req : r_method req = m_choquet -> parse_params req = choquet_parse (r_crits req) (r_mp req).
  Proof. unfold parse_params. intros ->. reflexivity. Qed.
  Lemma parse_electre req : r_method req = m_electre -> parse_params req = electre_parse (r_crits req) (r_mp req).
  Proof. unfold parse_params. intros ->. reflexivity. Qed.
  Lemma parse_majority req : r_method req = m_majority -> parse_params req = majority_parse (r_mp req).
  Proof. unfold parse_params. intros ->. reflexivity. Qed.
  Lemma parse_aspect req : r_method req = m_aspect -> parse_params req = aspect_parse (r_mp req).
  Proof. unfold parse_params. intros ->. reflexivity. Qed.
  Lemma parse_satisfaction req : r_method req = m_satisfaction -> parse_params req = satisfaction_parse (r_mp req).
  Proof. unfold parse_params. intros ->. reflexivity. Qed.

  Lemma decide_parse_err e req : is_ok (parse_params req) = false -> is_ok (decide e req) = false.
  Proof. intros H. now apply decide_prepare_err, prepare_parse_err. Qed.

  (** ** 5. weights *)
  Theorem rejects_missing_weights e req :
    In (r_method req) [m_ws; m_owa; m_choquet] -> rp_weights (r_mp req) = None -> is_ok (decide e req) = false.
  Proof.
    intros I W. apply decide_parse_err. cbn [In] in I. destruct I as [M|[M|[M|[]]]]; symmetry in M.
    - rewrite (parse_ws _ M). unfold ws_parse, extract_weights. now rewrite W.
    - rewrite (parse_owa _ M). unfold owa_parse, extract_weights. now rewrite W.
    - rewrite (parse_choquet _ M). unfold choquet_parse, extract_weights. now rewrite W.
  Qed.

  Lemma zip_with_weights_missing cs (w : smap num) c :
    In c cs -> mget (c_id c) w = None -> is_ok (zip_with_weights cs w) = false.
  Proof. intros I M. unfold zip_with_weights. apply (mapM_err _ _ c I). now rewrite M. Qed.

  Theorem rejects_missing_weight e req w c :
    r_method req = m_ws -> rp_weights (r_mp req) = Some w ->
    In c (r_crits req) -> mget (c_id c) w = None -> is_ok (decide e req) = false.
  Proof.
    intros M W I G. apply decide_parse_err. rewrite (parse_ws _ M). unfold ws_parse, extract_weights.
    rewrite W. cbn [of_option bind]. apply is_ok_bind_l. now apply (zip_with_weights_missing _ _ c).
  Qed.

  Theorem rejects_missing_weight_owa e req w c :
    r_method req = m_owa -> rp_weights (r_mp req) = Some w ->
    In c (r_crits req) -> mget (c_id c) w = None -> is_ok (decide e req) = false.
  Proof.
    intros M W I G. apply decide_parse_err. rewrite (parse_owa _ M). unfold owa_parse, extract_weights.
    rewrite W. cbn [of_option bind].
    destruct (negb (Nat.eqb (List.length w) (List.length (r_crits req)))); [reflexivity|].
    apply is_ok_bind_l. now apply (zip_with_weights_missing _ _ c).
  Qed.

  Theorem rejects_owa_count e req w :
    r_method req = m_owa -> rp_weights (r_mp req) = Some w ->
    List.length w <> List.length (r_crits req) -> is_ok (decide e req) = false.
  Proof.
    intros M W L. apply decide_parse_err. rewrite (parse_owa _ M). unfold owa_parse, extract_weights.
    rewrite W. cbn [of_option bind]. apply Nat.eqb_neq in L. now rewrite L.
  Qed.

  (** ** 6. Choquet *)
  Theorem rejects_choquet_non_gain e req c :
    r_method req = m_choquet -> In c (r_crits req) -> c_type c <> TGain -> is_ok (decide e req) = false.
  Proof.
    intros M I T. apply decide_parse_err. rewrite (parse_choquet _ M). unfold choquet_parse.
    apply is_ok_bind_r. intros w _. apply is_ok_bind_l. unfold choquet_parse_weights.
    assert (G : all_gain (r_crits req) = false).
    { destruct (all_gain (r_crits req)) eqn:G; [|reflexivity]. unfold all_gain in G. rewrite forallb_forall in G.
      specialize (G c I). destruct (c_type c); congruence. }
    now rewrite G.
  Qed.

  (* the normal form of a capacity key: members sorted, joined with "," *)
  Definition norm_key (k : string) : string := criterion_key (contained_criteria k).

  Lemma mget_In {A} (m : smap A) k v : mget k m = Some v -> In (k, v) m.
  Proof.
    induction m as [|[k' v'] m IH]; cbn [mget In]; [discriminate|].
    destruct (String.eqb k k') eqn:E.
    - apply String.eqb_eq in E. subst k'. intros H. injection H as ->. now left.
    - intros H. right. now apply IH.
  Qed.

  Lemma mhas_false {A} (m : smap A) k : mhas k m = false -> mget k m = None.
  Proof. unfold mhas. destruct (mget k m); [discriminate|reflexivity]. Qed.

  Lemma remap_weights_spec : forall (w : list (string * num)) acc nw,
    remap_weights w acc = Ok nw ->
    (forall k v, mget k acc = Some v -> mget k nw = Some v) /\
    (forall k v, In (k, v) w -> mget (norm_key k) nw = Some v) /\
    (forall k' v, mget k' nw = Some v -> mget k' acc = Some v \/ exists k, In (k, v) w /\ norm_key k = k').
  Proof.
    induction w as [|[k v] r IH]; intros acc nw H; cbn [remap_weights] in H.
    - injection H as <-. split; [auto|]. split; [contradiction|auto].
    - cbv zeta in H. fold (norm_key k) in H.
      destruct (mhas (norm_key k) acc) eqn:Mh; [discriminate|]. apply mhas_false in Mh.
      destruct (IH _ _ H) as [A [B C]]. split; [|split].
      + intros k0 v0 G. apply A. rewrite mget_mset_other; [exact G|]. intros ->. congruence.
      + intros k0 v0 [E|I].
        * injection E as -> ->. apply A. apply mget_mset_same.
        * now apply B.
      + intros k' v0 G. destruct (C _ _ G) as [G'|[k0 [I E]]].
        * destruct (string_dec k' (norm_key k)) as [->|NE].
          -- rewrite mget_mset_same in G'. injection G' as ->. right. exists k. split; [now left|reflexivity].
          -- rewrite mget_mset_other in G' by assumption. now left.
        * right. exists k0. split; [now right|exact E].
  Qed.

  Lemma prepare_weights_out_of_range : forall (w : list (string * num)) names acc k v,
    In (k, v) w -> nltb v nzero || nltb none v = true -> is_ok (prepare_weights w names acc) = false.
  Proof.
    induction w as [|[k0 v0] r IH]; intros names acc k v I H; [contradiction|]. cbn [prepare_weights]. cbv zeta.
    destruct (negb (forallb (fun p => mem_str p names) (contained_criteria k0))); [reflexivity|].
    destruct I as [E|I].
    - injection E as -> ->. now rewrite H.
    - destruct (nltb v0 nzero || nltb none v0); [reflexivity|]. now apply (IH _ _ k v).
  Qed.

  Lemma choquet_parse_weights_out_of_range cs (w : smap num) k v :
    In (k, v) w -> nltb v nzero || nltb none v = true -> is_ok (choquet_parse_weights cs w) = false.
  Proof.
    intros I H. unfold choquet_parse_weights. destruct (negb (all_gain cs)); [reflexivity|].
    destruct (remap_weights w []) as [nw|] eqn:R; cbn [bind]; [|reflexivity].
    apply is_ok_bind_r. intros ? _. apply remap_weights_spec in R. destruct R as [_ [B _]].
    apply (prepare_weights_out_of_range _ _ _ (norm_key k) v); [|exact H]. apply mget_In. now apply B.
  Qed.

  (* any capacity (under any spelling of its key) outside [0,1] *)
  Theorem rejects_choquet_weight_out_of_range_gen e req w k v :
    r_method req = m_choquet -> rp_weights (r_mp req) = Some w ->
    In (k, v) w -> nltb v nzero || nltb none v = true -> is_ok (decide e req) = false.
  Proof.
    intros M W I H. apply decide_parse_err. rewrite (parse_choquet _ M). unfold choquet_parse, extract_weights.
    rewrite W. cbn [of_option bind]. apply is_ok_bind_l. now apply (choquet_parse_weights_out_of_range _ _ k v).
  Qed.

  (* non-empty subsets of the declared criteria, in declaration order *)
  Inductive subseq {A} : list A -> list A -> Prop :=
  | sub_nil : subseq [] []
  | sub_skip x s l : subseq s l -> subseq s (x :: l)
  | sub_take x s l : subseq s l -> subseq (x :: s) (x :: l).

  Lemma power_set_all_iff : forall l s, In s (power_set_all l) <-> subseq s l.
  Proof.
    induction l as [|x r IH]; intros s; cbn [power_set_all].
    - split.
      + intros [<-|[]]. constructor.
      + intros H. inversion H. now left.
    - rewrite in_flat_map. split.
      + intros [t [It [<-|[<-|[]]]]]; apply IH in It; now constructor.
      + intros H. inversion H as [|x' s' l' S|x' s' l' S]; subst.
        * exists s. split; [now apply IH|now left].
        * exists s'. split; [now apply IH|right; now left].
  Qed.

  Lemma power_set_iff l s : In s (power_set l) <-> s <> [] /\ subseq s l.
  Proof.
    unfold power_set. rewrite filter_In, power_set_all_iff. destruct s; split.
    - intros [_ H]. discriminate.
    - intros [H _]. congruence.
    - intros [H _]. split; [discriminate|exact H].
    - intros [_ H]. split; [exact H|reflexivity].
  Qed.

  Lemma choquet_parse_weights_missing_subset cs (w : smap num) s :
    In s (power_set (map c_id cs)) -> (forall k v, In (k, v) w -> norm_key k <> criterion_key s) ->
    is_ok (choquet_parse_weights cs w) = false.
  Proof.
    intros I H. unfold choquet_parse_weights. destruct (negb (all_gain cs)); [reflexivity|].
    destruct (remap_weights w []) as [nw|] eqn:R; cbn [bind]; [|reflexivity].
    apply is_ok_bind_l. apply (mapM_err _ _ s I). unfold union_weight.
    destruct (mget (criterion_key s) nw) as [v|] eqn:G; [|reflexivity].
    apply remap_weights_spec in R. destruct R as [_ [_ C]]. destruct (C _ _ G) as [G'|[k [Ik E]]].
    - discriminate.
    - exfalso. now apply (H k v Ik).
  Qed.

  Theorem rejects_choquet_missing_subset e req w s :
    r_method req = m_choquet -> rp_weights (r_mp req) = Some w ->
    s <> [] -> subseq s (map c_id (r_crits req)) ->
    (forall k v, In (k, v) w -> norm_key k <> criterion_key s) ->
    is_ok (decide e req) = false.
  Proof.
    intros M W NE S H. apply decide_parse_err. rewrite (parse_choquet _ M). unfold choquet_parse, extract_weights.
    rewrite W. cbn [of_option bind]. apply is_ok_bind_l. apply (choquet_parse_weights_missing_subset _ _ s); [|exact H].
    apply power_set_iff. now split.
  Qed.

  (* the same for a weights map whose keys are already normalised *)
  Theorem rejects_choquet_missing_subset_canonical e req w s :
    r_method req = m_choquet -> rp_weights (r_mp req) = Some w ->
    (forall k v, In (k, v) w -> norm_key k = k) ->
    s <> [] -> subseq s (map c_id (r_crits req)) -> mget (criterion_key s) w = None ->
    is_ok (decide e req) = false.
  Proof.
    intros M W Cn NE S G. apply (rejects_choquet_missing_subset e req w s M W NE S).
    intros k v I E. rewrite (Cn k v I) in E. subst k.
    apply mget_none_iff in G. apply G. unfold mkeys. apply (in_map fst) in I. exact I.
  Qed.

  (** ** 7. ELECTRE III *)
  Theorem rejects_electre_missing e req :
    r_method req = m_electre -> rp_electre (r_mp req) = None -> is_ok (decide e req) = false.
  Proof.
    intros M W. apply decide_parse_err. rewrite (parse_electre _ M). unfold electre_parse. now rewrite W.
  Qed.

  Theorem rejects_electre_missing_entry e req ecs c :
    r_method req = m_electre -> rp_electre (r_mp req) = Some ecs ->
    In c (r_crits req) -> mget (c_id c) ecs = None -> is_ok (decide e req) = false.
  Proof.
    intros M W I G. apply decide_parse_err. rewrite (parse_electre _ M). unfold electre_parse.
    rewrite W. cbn [of_option bind]. apply is_ok_bind_l. apply (mapM_err _ _ c I). now rewrite G.
  Qed.

  Lemma electre_entry_err e req ecs c ec :
    r_method req = m_electre -> rp_electre (r_mp req) = Some ecs ->
    In c (r_crits req) -> mget (c_id c) ecs = Some ec -> is_ok (validate_ecrit ec) = false ->
    is_ok (decide e req) = false.
  Proof.
    intros M W I G V. apply decide_parse_err. rewrite (parse_electre _ M). unfold electre_parse.
    rewrite W. cbn [of_option bind]. apply is_ok_bind_l. apply (mapM_err _ _ c I). rewrite G. exact V.
  Qed.

  Lemma validate_ecrit_nonpositive_k ec : nleb (ec_k ec) nzero = true -> validate_ecrit ec = Err EInvalid.
  Proof. intros H. unfold validate_ecrit. now rewrite H. Qed.

  Theorem rejects_electre_nonpositive_k_gen e req ecs c ec :
    r_method req = m_electre -> rp_electre (r_mp req) = Some ecs ->
    In c (r_crits req) -> mget (c_id c) ecs = Some ec -> nleb (ec_k ec) nzero = true ->
    is_ok (decide e req) = false.
  Proof.
    intros M W I G K. apply (electre_entry_err e req ecs c ec M W I G).
    now rewrite validate_ecrit_nonpositive_k.
  Qed.

  (** ** 8. heuristics *)
  Lemma eval_majority e s : evaluate m_majority e s = majority_evaluate e s. Proof. reflexivity. Qed.
  Lemma eval_aspect e s : evaluate m_aspect e s = aspect_evaluate e s. Proof. reflexivity. Qed.
  Lemma eval_satisfaction e s : evaluate m_satisfaction e s = satisfaction_evaluate e s. Proof. reflexivity. Qed.

  Theorem rejects_unknown_draw_policy e s w cur seed rnd drawp :
    st_params s = PMajority w cur seed rnd drawp -> drawp <> "" -> valid_policy drawp = false ->
    is_ok (majority_evaluate e s) = false.
  Proof.
    intros P NE V. unfold majority_evaluate. rewrite P. apply is_ok_bind_r. intros cw _.
    apply is_ok_bind_r. intros [[current considered] g1] _. apply String.eqb_neq in NE.
    cbv beta iota zeta. rewrite NE, V. reflexivity.
  Qed.

  Theorem rejects_empty_level_function d lp s : lv_init d "" lp s = Err EInvalid.
  Proof. reflexivity. Qed.

  Definition lv_second (d : direction) : string :=
    match d with Increasing => lv_additive | Decreasing => lv_subtractive end.

  Theorem rejects_unknown_level_function d fn lp s :
    ~ In fn [lv_mul; lv_second d; lv_thresholds] -> lv_init d fn lp s = Err EInvalid.
  Proof.
    intros H. unfold lv_init. fold (lv_second d).
    assert (H1 : String.eqb fn lv_mul = false) by (apply String.eqb_neq; intros ->; apply H; cbn [In]; tauto).
    assert (H2 : String.eqb fn (lv_second d) = false) by (apply String.eqb_neq; intros ->; apply H; cbn [In]; tauto).
    assert (H3 : String.eqb fn lv_thresholds = false) by (apply String.eqb_neq; intros ->; apply H; cbn [In]; tauto).
    rewrite H1, H2, H3. destruct (String.eqb fn ""); reflexivity.
  Qed.

  Theorem rejects_coefficient_out_of_range d fn lp s :
    fn = lv_mul \/ fn = lv_second d -> validate_coef d lp = false -> lv_init d fn lp s = Err EInvalid.
  Proof.
    intros H V. unfold lv_init. rewrite V. destruct H as [->| ->]; destruct d; reflexivity.
  Qed.

  Theorem rejects_threshold_missing_criterion d lp s t c :
    In t (lp_ths lp) -> In c (st_crits s) -> mget (c_id c) t = None -> lv_init d lv_thresholds lp s = Err EMissing.
  Proof.
    intros It Ic G.
    assert (F : forallb (fun t0 => forallb (fun c0 => mhas (c_id c0) t0) (st_crits s)) (lp_ths lp) = false).
    { destruct (forallb (fun t0 => forallb (fun c0 => mhas (c_id c0) t0) (st_crits s)) (lp_ths lp)) eqn:F; [|reflexivity].
      rewrite forallb_forall in F. specialize (F t It). rewrite forallb_forall in F. specialize (F c Ic).
      unfold mhas in F. rewrite G in F. discriminate. }
    unfold lv_init. rewrite F. destruct d; reflexivity.
  Qed.

  Lemma fetch_alt'_unknown : forall (l : list alt) x, ~ In x (map a_id l) -> fetch_alt' l x = Err EMissing.
  Proof.
    induction l as [|a r IH]; intros x H; cbn [fetch_alt']; [reflexivity|].
    cbn [map In] in H. destruct (String.eqb (a_id a) x) eqn:E.
    - apply String.eqb_eq in E. exfalso. apply H. now left.
    - apply IH. intros I. apply H. now right.
  Qed.

  Theorem rejects_unknown_current_choice s cur rnd g :
    cur <> "" -> ~ In cur (map a_id (all_alts s)) -> search_order s cur rnd g = Err EMissing.
  Proof.
    intros NE H. unfold search_order. apply String.eqb_neq in NE. rewrite NE. cbn [negb].
    now rewrite fetch_alt'_unknown.
  Qed.

  (* the evaluations start with these steps *)
  Lemma aspect_evaluate_level_err e s fn lp seed w rnd :
    st_params s = PAspect fn lp seed w rnd -> is_ok (lv_init Increasing fn lp s) = false ->
    is_ok (aspect_evaluate e s) = false.
  Proof. intros P H. unfold aspect_evaluate. rewrite P. now apply is_ok_bind_l. Qed.

  Lemma satisfaction_evaluate_level_err e s fn lp seed cur rnd :
    st_params s = PSatisf fn lp seed cur rnd -> is_ok (lv_init Decreasing fn lp s) = false ->
    is_ok (satisfaction_evaluate e s) = false.
  Proof. intros P H. unfold satisfaction_evaluate. rewrite P. now apply is_ok_bind_l. Qed.

  Lemma satisfaction_evaluate_current_err e s fn lp seed cur rnd :
    st_params s = PSatisf fn lp seed cur rnd -> cur <> "" -> ~ In cur (map a_id (all_alts s)) ->
    is_ok (satisfaction_evaluate e s) = false.
  Proof.
    intros P NE H. unfold satisfaction_evaluate. rewrite P. apply is_ok_bind_r. intros src _.
    apply is_ok_bind_l. now rewrite rejects_unknown_current_choice.
  Qed.

  Lemma majority_evaluate_current_err e s w cur seed rnd drawp :
    st_params s = PMajority w cur seed rnd drawp -> cur <> "" -> ~ In cur (map a_id (all_alts s)) ->
    is_ok (majority_evaluate e s) = false.
  Proof.
    intros P NE H. unfold majority_evaluate. rewrite P. apply is_ok_bind_r. intros cw _.
    apply is_ok_bind_l. now rewrite rejects_unknown_current_choice.
  Qed.

  (** ** 9. biases *)
  Lemma eqb_notin x l y : ~ In x l -> In y l -> String.eqb x y = false.
  Proof. intros H I. apply String.eqb_neq. intros ->. contradiction. Qed.

  Ltac in_list := cbn [In]; repeat ((left; reflexivity) || right).

  (* a fired bias whose application fails fails the whole bias stage *)
  Lemma process_biases_fired_err e b rest cur d g :
    nltb d (b_prob b) = true -> is_ok (apply_bias e (b_name b) cur (b_props b)) = false ->
    is_ok (process_biases e (b :: rest) cur (d :: g)) = false.
  Proof. intros F A. cbn [process_biases draw bind fst snd]. rewrite F. now apply is_ok_bind_l. Qed.

  (* a bias that fails on every state *)
  Definition bias_rejected (e : env) (b : biasreq) : Prop :=
    forall cur, is_ok (apply_bias e (b_name b) cur (b_props b)) = false.

  (* the i-th enabled bias is decided by the i-th draw of the stream *)
  Lemma process_biases_nth_err e : forall bs cur g i b d,
    nth_error bs i = Some b -> nth_error g i = Some d -> nltb d (b_prob b) = true -> bias_rejected e b ->
    is_ok (process_biases e bs cur g) = false.
  Proof.
    induction bs as [|b0 rest IH]; intros cur g i b d Hb Hd F A.
    - destruct i; discriminate.
    - destruct g as [|d0 g']; [destruct i; discriminate|]. cbn [process_biases draw bind fst snd].
      destruct i as [|i]; cbn [nth_error] in Hb, Hd.
      + injection Hb as ->. injection Hd as ->. rewrite F. apply is_ok_bind_l, A.
      + destruct (nltb d0 (b_prob b0)).
        * apply is_ok_bind_r. intros sr _. apply is_ok_bind_l. now apply (IH _ _ i b d).
        * apply is_ok_bind_l. now apply (IH _ _ i b d).
  Qed.

  Theorem decide_rejects_fired_bias e req i b d :
    nth_error (enabled_biases req) i = Some b -> nth_error (new_rng e (r_seed req)) i = Some d ->
    nltb d (b_prob b) = true -> bias_rejected e b -> is_ok (decide e req) = false.
  Proof.
    intros Hb Hd F A. apply decide_biased_err. unfold biased_state. apply is_ok_bind_r. intros st _.
    destruct (negb (forallb (fun b0 => mem_str (b_name b0) bias_names) (enabled_biases req))); [reflexivity|].
    destruct (enabled_biases req) as [|b0 rest] eqn:E; [destruct i; discriminate|].
    now apply (process_biases_nth_err e _ _ _ i b d).
  Qed.

  (* ChooseBiases *)
  Theorem rejects_unknown_bias e req b :
    In b (r_biases req) -> b_disabled b = false -> ~ In (b_name b) bias_names ->
    is_ok (biased_state e req) = false /\ is_ok (decide e req) = false.
  Proof.
    intros I D H.
    assert (G : is_ok (biased_state e req) = false); [|split; [exact G|now apply decide_biased_err]].
    unfold biased_state. apply is_ok_bind_r. intros st _.
    assert (F : forallb (fun b0 => mem_str (b_name b0) bias_names) (enabled_biases req) = false).
    { destruct (forallb (fun b0 => mem_str (b_name b0) bias_names) (enabled_biases req)) eqn:F; [|reflexivity].
      rewrite forallb_forall in F. assert (Ie : In b (enabled_biases req)).
      { unfold enabled_biases. apply filter_In. split; [exact I|]. now rewrite D. }
      apply F, mem_str_In in Ie. contradiction. }
    now rewrite F.
  Qed.

  (* an unregistered name also fails in [apply_bias] itself *)
  Lemma apply_bias_unknown e name cur p : ~ In name bias_names -> apply_bias e name cur p = Err EInvalid.
  Proof.
    intros H. unfold apply_bias.
    rewrite (eqb_notin _ _ b_omission H), (eqb_notin _ _ b_reversal H), (eqb_notin _ _ b_fatigue H),
      (eqb_notin _ _ b_concealment H), (eqb_notin _ _ b_mixing H), (eqb_notin _ _ b_anchoring H)
      by (unfold bias_names; in_list).
    reflexivity.
  Qed.

  Lemma apply_bias_omission e cur p : apply_bias e b_omission cur p = apply_omission e cur p. Proof. reflexivity. Qed.
  Lemma apply_bias_reversal e cur p : apply_bias e b_reversal cur p = apply_reversal e cur p. Proof. reflexivity. Qed.
  Lemma apply_bias_fatigue e cur p : apply_bias e b_fatigue cur p = apply_fatigue e cur p. Proof. reflexivity. Qed.
  Lemma apply_bias_concealment e cur p : apply_bias e b_concealment cur p = apply_concealment e cur p. Proof. reflexivity. Qed.
  Lemma apply_bias_mixing e cur p : apply_bias e b_mixing cur p = apply_mixing e cur p. Proof. reflexivity. Qed.
  Lemma apply_bias_anchoring e cur p : apply_bias e b_anchoring cur p = apply_anchoring e cur p. Proof. reflexivity. Qed.

  (** *** ordering *)
  Definition ordering_names := [""; o_weakest; o_strongest; o_random; o_weakest_prob; o_strongest_prob].

  Lemma order_criteria_unknown e s p : ~ In (bp_ordering p) ordering_names -> order_criteria e s p = Err EInvalid.
  Proof.
    intros H. unfold order_criteria. cbv zeta.
    rewrite (eqb_notin _ _ "" H), (eqb_notin _ _ o_weakest H), (eqb_notin _ _ o_strongest H),
      (eqb_notin _ _ o_random H), (eqb_notin _ _ o_weakest_prob H), (eqb_notin _ _ o_strongest_prob H)
      by (unfold ordering_names; in_list).
    reflexivity.
  Qed.

  Lemma omission_unknown_ordering e cur p :
    ~ In (bp_ordering p) ordering_names -> apply_omission e cur p = Err EInvalid.
  Proof.
    intros H. unfold apply_omission.
    destruct (negb (is_probability (bp_ratio p)) || (bp_max p <? bp_min p)%Z); [reflexivity|].
    now rewrite order_criteria_unknown.
  Qed.

  Lemma reversal_unknown_ordering e cur p :
    ~ In (bp_ordering p) ordering_names -> apply_reversal e cur p = Err EInvalid.
  Proof.
    intros H. unfold apply_reversal.
    destruct (negb (is_probability (bp_ratio p)) || (bp_max p <? bp_min p)%Z); [reflexivity|].
    now rewrite order_criteria_unknown.
  Qed.

  Lemma unknown_ordering_rejected e b :
    In (b_name b) [b_omission; b_reversal] -> ~ In (bp_ordering (b_props b)) ordering_names -> bias_rejected e b.
  Proof.
    unfold bias_rejected. intros [<-|[<-|[]]] H cur.
    - now rewrite apply_bias_omission, omission_unknown_ordering.
    - now rewrite apply_bias_reversal, reversal_unknown_ordering.
  Qed.

  Theorem rejects_unknown_ordering e b rest cur d g :
    In (b_name b) [b_omission; b_reversal] -> ~ In (bp_ordering (b_props b)) ordering_names ->
    nltb d (b_prob b) = true -> is_ok (process_biases e (b :: rest) cur (d :: g)) = false.
  Proof. intros I H F. apply process_biases_fired_err; [exact F|]. now apply unknown_ordering_rejected. Qed.

  (** *** split condition *)
  Lemma ratio_out_of_range_rejected e b :
    In (b_name b) [b_omission; b_reversal] -> is_probability (bp_ratio (b_props b)) = false -> bias_rejected e b.
  Proof.
    unfold bias_rejected. intros [<-|[<-|[]]] H cur.
    - rewrite apply_bias_omission. unfold apply_omission. now rewrite H.
    - rewrite apply_bias_reversal. unfold apply_reversal. now rewrite H.
  Qed.

  Theorem rejects_ratio_out_of_range_gen e b rest cur d g :
    In (b_name b) [b_omission; b_reversal] -> is_probability (bp_ratio (b_props b)) = false ->
    nltb d (b_prob b) = true -> is_ok (process_biases e (b :: rest) cur (d :: g)) = false.
  Proof. intros I H F. apply process_biases_fired_err; [exact F|]. now apply ratio_out_of_range_rejected. Qed.

  Lemma max_below_min_rejected e b :
    In (b_name b) [b_omission; b_reversal] -> (bp_max (b_props b) < bp_min (b_props b))%Z -> bias_rejected e b.
  Proof.
    intros I H cur. apply Z.ltb_lt in H. destruct I as [<-|[<-|[]]].
    - rewrite apply_bias_omission. unfold apply_omission. now rewrite H, orb_true_r.
    - rewrite apply_bias_reversal. unfold apply_reversal. now rewrite H, orb_true_r.
  Qed.

  Theorem rejects_max_below_min e b rest cur d g :
    In (b_name b) [b_omission; b_reversal] -> (bp_max (b_props b) < bp_min (b_props b))%Z ->
    nltb d (b_prob b) = true -> is_ok (process_biases e (b :: rest) cur (d :: g)) = false.
  Proof. intros I H F. apply process_biases_fired_err; [exact F|]. now apply max_below_min_rejected. Qed.

  (** *** bounding *)
  Lemma fatigue_zero_bounding e cur p : valid_bounding p = false -> is_ok (apply_fatigue e cur p) = false.
  Proof. intros H. unfold apply_fatigue. apply is_ok_bind_r. intros f _. now rewrite H. Qed.

  Lemma concealment_zero_bounding e cur p : valid_bounding p = false -> apply_concealment e cur p = Err EInvalid.
  Proof. intros H. unfold apply_concealment. rewrite H. now destruct (neqb (bp_new_scaling p) nzero). Qed.

  Lemma anchoring_zero_bounding e cur p : valid_bounding p = false -> is_ok (apply_anchoring e cur p) = false.
  Proof.
    intros H. unfold apply_anchoring. destruct (bp_anch_alts p) as [|aa0 aas]; [reflexivity|].
    destruct (negb (known_fun (bp_anch_loss p)) || negb (known_fun (bp_anch_gain p))); [reflexivity|].
    destruct (negb (String.eqb (bp_anch_applier p) ap_inline || String.eqb (bp_anch_applier p) ap_new)); [reflexivity|].
    cbv zeta. apply is_ok_bind_r. intros anch _.
    destruct (negb (String.eqb (bp_anch_ref p) rp_ideal || String.eqb (bp_anch_ref p) rp_nadir)); [reflexivity|].
    apply is_ok_bind_r. intros rpv _. now rewrite H.
  Qed.

  Lemma zero_bounding_scaling_rejected e b :
    In (b_name b) [b_fatigue; b_concealment; b_anchoring] -> valid_bounding (b_props b) = false -> bias_rejected e b.
  Proof.
    unfold bias_rejected. intros [<-|[<-|[<-|[]]]] H cur.
    - rewrite apply_bias_fatigue. now apply fatigue_zero_bounding.
    - rewrite apply_bias_concealment. now rewrite concealment_zero_bounding.
    - rewrite apply_bias_anchoring. now apply anchoring_zero_bounding.
  Qed.

  Theorem rejects_zero_bounding_scaling_gen e b rest cur d g :
    In (b_name b) [b_fatigue; b_concealment; b_anchoring] -> neqb (bp_scaling (b_props b)) nzero = true ->
    nltb d (b_prob b) = true -> is_ok (process_biases e (b :: rest) cur (d :: g)) = false.
  Proof.
    intros I H F. apply process_biases_fired_err; [exact F|]. apply zero_bounding_scaling_rejected; [exact I|].
    unfold valid_bounding. now rewrite H.
  Qed.

  Lemma zero_new_criterion_scaling_rejected e b :
    b_name b = b_concealment -> neqb (bp_new_scaling (b_props b)) nzero = true -> bias_rejected e b.
  Proof. unfold bias_rejected. intros -> H cur. rewrite apply_bias_concealment. unfold apply_concealment. now rewrite H. Qed.

  Theorem rejects_zero_new_criterion_scaling_gen e b rest cur d g :
    b_name b = b_concealment -> neqb (bp_new_scaling (b_props b)) nzero = true ->
    nltb d (b_prob b) = true -> is_ok (process_biases e (b :: rest) cur (d :: g)) = false.
  Proof. intros I H F. apply process_biases_fired_err; [exact F|]. now apply zero_new_criterion_scaling_rejected. Qed.

  (** *** mixing ratio (only consulted when there are at least two criteria) *)
  Lemma mixing_ratio_out_of_range e cur p :
    (2 <= List.length (st_crits cur))%nat -> is_probability (bp_mix_ratio p) = false ->
    apply_mixing e cur p = Err EInvalid.
  Proof.
    intros L H. unfold apply_mixing. apply Nat.ltb_ge in L. now rewrite L, H.
  Qed.

  Theorem rejects_mixing_ratio_out_of_range_gen e b rest cur d g :
    b_name b = b_mixing -> (2 <= List.length (st_crits cur))%nat ->
    is_probability (bp_mix_ratio (b_props b)) = false ->
    nltb d (b_prob b) = true -> is_ok (process_biases e (b :: rest) cur (d :: g)) = false.
  Proof.
    intros I L H F. apply process_biases_fired_err; [exact F|]. rewrite I, apply_bias_mixing.
    now rewrite mixing_ratio_out_of_range.
  Qed.

  (* with fewer than two criteria mixing does nothing, whatever its parameters *)
  Lemma mixing_few_criteria e cur p : (List.length (st_crits cur) < 2)%nat -> apply_mixing e cur p = Ok (cur, RNone).
  Proof. intros L. unfold apply_mixing. apply Nat.ltb_lt in L. now rewrite L. Qed.

  (** *** reference criterion *)
  Definition reference_types := [""; rc_importance; rc_uniform; rc_weighted].

  Lemma reference_criterion_unknown e ranked p :
    ~ In (bp_ref_type p) reference_types -> reference_criterion e ranked p = Err EInvalid.
  Proof.
    intros H. unfold reference_criterion. cbv zeta.
    rewrite (eqb_notin _ _ "" H), (eqb_notin _ _ rc_importance H), (eqb_notin _ _ rc_uniform H),
      (eqb_notin _ _ rc_weighted H) by (unfold reference_types; in_list).
    reflexivity.
  Qed.

  Lemma concealment_unknown_reference e cur p :
    ~ In (bp_ref_type p) reference_types -> is_ok (apply_concealment e cur p) = false.
  Proof.
    intros H. unfold apply_concealment. destruct (neqb (bp_new_scaling p) nzero); [reflexivity|].
    destruct (negb (valid_bounding p)); [reflexivity|]. cbv zeta.
    apply is_ok_bind_r. intros ranked _. apply is_ok_bind_l. now rewrite reference_criterion_unknown.
  Qed.

  Lemma mixing_unknown_reference e cur p :
    (2 <= List.length (st_crits cur))%nat -> ~ In (bp_ref_type p) reference_types ->
    is_ok (apply_mixing e cur p) = false.
  Proof.
    intros L H. unfold apply_mixing. apply Nat.ltb_ge in L. rewrite L.
    destruct (negb (is_probability (bp_mix_ratio p))); [reflexivity|]. cbv zeta.
    apply is_ok_bind_r. intros d1 _. apply is_ok_bind_r. intros d2 _.
    apply is_ok_bind_r. intros c1 _. apply is_ok_bind_r. intros c2 _.
    apply is_ok_bind_r. intros ranked _. apply is_ok_bind_l. now rewrite reference_criterion_unknown.
  Qed.

  Lemma anchoring_unknown_reference e cur p :
    bp_anch_applier p = ap_new -> ~ In (bp_ref_type p) reference_types -> is_ok (apply_anchoring e cur p) = false.
  Proof.
    intros A H. unfold apply_anchoring. destruct (bp_anch_alts p) as [|aa0 aas]; [reflexivity|].
    destruct (negb (known_fun (bp_anch_loss p)) || negb (known_fun (bp_anch_gain p))); [reflexivity|].
    destruct (negb (String.eqb (bp_anch_applier p) ap_inline || String.eqb (bp_anch_applier p) ap_new)); [reflexivity|].
    cbv zeta. apply is_ok_bind_r. intros anch _.
    destruct (negb (String.eqb (bp_anch_ref p) rp_ideal || String.eqb (bp_anch_ref p) rp_nadir)); [reflexivity|].
    apply is_ok_bind_r. intros rpv _. destruct (negb (valid_bounding p)); [reflexivity|].
    apply is_ok_bind_r. intros sc _. apply is_ok_bind_r. intros diffs _. apply is_ok_bind_l.
    rewrite A. change (String.eqb ap_new ap_inline) with false. cbv iota.
    unfold apply_new_criterion. apply is_ok_bind_r. intros ranked _. apply is_ok_bind_l.
    now rewrite reference_criterion_unknown.
  Qed.

  Theorem rejects_unknown_reference_type e b rest cur d g :
    b_name b = b_concealment \/ (b_name b = b_mixing /\ (2 <= List.length (st_crits cur))%nat) \/
    (b_name b = b_anchoring /\ bp_anch_applier (b_props b) = ap_new) ->
    ~ In (bp_ref_type (b_props b)) reference_types ->
    nltb d (b_prob b) = true -> is_ok (process_biases e (b :: rest) cur (d :: g)) = false.
  Proof.
    intros I H F. apply process_biases_fired_err; [exact F|]. destruct I as [->|[[-> L]|[-> A]]].
    - rewrite apply_bias_concealment. now apply concealment_unknown_reference.
    - rewrite apply_bias_mixing. now apply mixing_unknown_reference.
    - rewrite apply_bias_anchoring. now apply anchoring_unknown_reference.
  Qed.

  (** *** fatigue function *)
  Lemma unknown_fatigue_function_rejected e b :
    b_name b = b_fatigue -> ~ In (bp_fat_function (b_props b)) [f_const; f_exp] -> bias_rejected e b.
  Proof.
    unfold bias_rejected. intros -> H cur. rewrite apply_bias_fatigue. unfold apply_fatigue. apply is_ok_bind_l. unfold fatigue_ratio.
    rewrite (eqb_notin _ _ f_const H), (eqb_notin _ _ f_exp H) by in_list. reflexivity.
  Qed.

  Theorem rejects_unknown_fatigue_function e b rest cur d g :
    b_name b = b_fatigue -> ~ In (bp_fat_function (b_props b)) [f_const; f_exp] ->
    nltb d (b_prob b) = true -> is_ok (process_biases e (b :: rest) cur (d :: g)) = false.
  Proof. intros I H F. apply process_biases_fired_err; [exact F|]. now apply unknown_fatigue_function_rejected. Qed.

  (** *** anchoring *)
  Lemma anchoring_no_alternatives_rejected e b :
    b_name b = b_anchoring -> bp_anch_alts (b_props b) = [] -> bias_rejected e b.
  Proof. unfold bias_rejected. intros -> H cur. rewrite apply_bias_anchoring. unfold apply_anchoring. now rewrite H. Qed.

  Theorem rejects_anchoring_no_alternatives e b rest cur d g :
    b_name b = b_anchoring -> bp_anch_alts (b_props b) = [] ->
    nltb d (b_prob b) = true -> is_ok (process_biases e (b :: rest) cur (d :: g)) = false.
  Proof. intros I H F. apply process_biases_fired_err; [exact F|]. now apply anchoring_no_alternatives_rejected. Qed.

  Lemma known_fun_false f : ~ In (fp_name f) [fn_linear; fn_exp] -> known_fun f = false.
  Proof. intros H. unfold known_fun. rewrite (eqb_notin _ _ fn_linear H), (eqb_notin _ _ fn_exp H) by in_list. reflexivity. Qed.

  Lemma anchoring_unknown_function_rejected e b :
    b_name b = b_anchoring ->
    ~ In (fp_name (bp_anch_loss (b_props b))) [fn_linear; fn_exp] \/
    ~ In (fp_name (bp_anch_gain (b_props b))) [fn_linear; fn_exp] \/
    ~ In (bp_anch_applier (b_props b)) [ap_inline; ap_new] \/
    ~ In (bp_anch_ref (b_props b)) [rp_ideal; rp_nadir] ->
    bias_rejected e b.
  Proof.
    unfold bias_rejected. intros -> H cur. rewrite apply_bias_anchoring. unfold apply_anchoring.
    destruct (bp_anch_alts (b_props b)) as [|aa0 aas]; [reflexivity|].
    destruct H as [H|[H|[H|H]]].
    - now rewrite (known_fun_false _ H).
    - now rewrite (known_fun_false _ H), orb_true_r.
    - destruct (negb (known_fun (bp_anch_loss (b_props b))) || negb (known_fun (bp_anch_gain (b_props b)))); [reflexivity|].
      rewrite (eqb_notin _ _ ap_inline H), (eqb_notin _ _ ap_new H) by in_list. reflexivity.
    - destruct (negb (known_fun (bp_anch_loss (b_props b))) || negb (known_fun (bp_anch_gain (b_props b)))); [reflexivity|].
      destruct (negb (String.eqb (bp_anch_applier (b_props b)) ap_inline || String.eqb (bp_anch_applier (b_props b)) ap_new));
        [reflexivity|].
      cbv zeta. apply is_ok_bind_r. intros anch _.
      rewrite (eqb_notin _ _ rp_ideal H), (eqb_notin _ _ rp_nadir H) by in_list. reflexivity.
  Qed.

  Theorem rejects_anchoring_unknown_function e b rest cur d g :
    b_name b = b_anchoring ->
    ~ In (fp_name (bp_anch_loss (b_props b))) [fn_linear; fn_exp] \/
    ~ In (fp_name (bp_anch_gain (b_props b))) [fn_linear; fn_exp] \/
    ~ In (bp_anch_applier (b_props b)) [ap_inline; ap_new] \/
    ~ In (bp_anch_ref (b_props b)) [rp_ideal; rp_nadir] ->
    nltb d (b_prob b) = true -> is_ok (process_biases e (b :: rest) cur (d :: g)) = false.
  Proof. intros I H F. apply process_biases_fired_err; [exact F|]. now apply anchoring_unknown_function_rejected. Qed.

  (* an anchoring alternative that is not a known alternative *)
  Lemma anchoring_unknown_alternative e cur p aa :
    In aa (bp_anch_alts p) -> ~ In (aa_id aa) (map a_id (all_alts cur)) -> is_ok (apply_anchoring e cur p) = false.
  Proof.
    intros I H. unfold apply_anchoring. destruct (bp_anch_alts p) as [|aa0 aas] eqn:E; [reflexivity|].
    destruct (negb (known_fun (bp_anch_loss p)) || negb (known_fun (bp_anch_gain p))); [reflexivity|].
    destruct (negb (String.eqb (bp_anch_applier p) ap_inline || String.eqb (bp_anch_applier p) ap_new)); [reflexivity|].
    cbv zeta. apply is_ok_bind_l. apply (mapM_err _ _ aa I). now rewrite fetch_alt'_unknown.
  Qed.

  (** ** The heuristics' checks at the level of [decide] (no enabled bias: the evaluated state is the
      prepared one; for arbitrary biases see the section on parameter shapes below) *)
  Lemma decide_no_bias e req st :
    enabled_biases req = [] -> prepare req = Ok st ->
    decide e req = do r <- evaluate (r_method req) e st; Ok {| resp_result := r; resp_biases := [] |}.
  Proof. intros B P. unfold decide, biased_state. rewrite P, B. reflexivity. Qed.

  Lemma fetch_alt_In : forall (l : list alt) id a, fetch_alt l id = Ok a -> In a l.
  Proof.
    induction l as [|x r IH]; intros id a; cbn [fetch_alt]; [discriminate|].
    destruct (String.eqb (a_id x) id); intros H.
    - injection H as <-. now left.
    - right. now apply (IH id).
  Qed.

  Lemma mapM_ok_In {A B} (f : A -> res B) : forall l r y, mapM f l = Ok r -> In y r -> exists x, In x l /\ f x = Ok y.
  Proof.
    induction l as [|x l IH]; intros r y; cbn [mapM].
    - intros H. injection H as <-. contradiction.
    - destruct (f x) as [b|] eqn:F; cbn [bind]; [|discriminate].
      destruct (mapM f l) as [bs|] eqn:M; cbn [bind]; [|discriminate].
      intros H. injection H as <-. intros [<-|I].
      + exists x. split; [now left|exact F].
      + destruct (IH bs y eq_refl I) as [x' [I' F']]. exists x'. split; [now right|exact F'].
  Qed.

  Lemma prepared_alts_known req st x :
    prepare req = Ok st -> In x (map a_id (all_alts st)) -> In x (map a_id (r_known req)).
  Proof.
    intros P. destruct (prepare_ok_inv _ _ P) as [_ [_ [C [_ [_ NC]]]]].
    unfold all_alts. rewrite map_app, in_app_iff, !in_map_iff. intros [[a [<- I]]|[a [<- I]]]; exists a; (split; [reflexivity|]).
    - unfold considered in C. destruct (mapM_ok_In _ _ _ _ C I) as [id [_ F]]. now apply fetch_alt_In in F.
    - rewrite NC in I. unfold not_considered in I. now apply filter_In in I.
  Qed.

  Theorem rejects_threshold_missing_criterion_decide e req t c :
    enabled_biases req = [] -> In (r_method req) [m_aspect; m_satisfaction] ->
    rp_function (r_mp req) = lv_thresholds ->
    In t (lp_ths (rp_lparams (r_mp req))) -> In c (r_crits req) -> mget (c_id c) t = None ->
    is_ok (decide e req) = false.
  Proof.
    intros B M Fn It Ic G. destruct (prepare req) as [st|c0] eqn:P; [|apply decide_prepare_err; now rewrite P].
    rewrite (decide_no_bias e req st B P). apply is_ok_bind_l.
    destruct (prepare_ok_inv _ _ P) as [_ [_ [_ [PP [CR _]]]]]. rewrite <- CR in Ic.
    cbn [In] in M. destruct M as [M|[M|[]]]; symmetry in M; rewrite M.
    - rewrite (parse_aspect _ M) in PP. unfold aspect_parse in PP. injection PP as PP. rewrite Fn in PP.
      rewrite eval_aspect. eapply aspect_evaluate_level_err; [symmetry; exact PP|].
      now rewrite (rejects_threshold_missing_criterion Increasing _ st t c It Ic G).
    - rewrite (parse_satisfaction _ M) in PP. unfold satisfaction_parse in PP. injection PP as PP. rewrite Fn in PP.
      rewrite eval_satisfaction. eapply satisfaction_evaluate_level_err; [symmetry; exact PP|].
      now rewrite (rejects_threshold_missing_criterion Decreasing _ st t c It Ic G).
  Qed.

  (** ** The biases keep the shape of the method parameters: the method, and every field a check
      of the evaluation reads (draw policy, level function, coefficient, min, max, current choice, ...) *)
  Definition lp_core (a b : lparams) : Prop :=
    lp_coef a = lp_coef b /\ lp_max a = lp_max b /\ lp_min a = lp_min b.

  Definition params_shape (p q : mparams) : Prop :=
    match p, q with
    | PWs _, PWs _ => True
    | POwa _, POwa _ => True
    | PChoquet _ _, PChoquet _ _ => True
    | PElectre _ _, PElectre _ _ => True
    | PMajority _ cur seed rnd dr, PMajority _ cur' seed' rnd' dr' =>
        cur = cur' /\ seed = seed' /\ rnd = rnd' /\ dr = dr'
    | PAspect fn lp seed _ rnd, PAspect fn' lp' seed' _ rnd' =>
        fn = fn' /\ lp_core lp lp' /\ seed = seed' /\ rnd = rnd'
    | PSatisf fn lp seed cur rnd, PSatisf fn' lp' seed' cur' rnd' =>
        fn = fn' /\ lp_core lp lp' /\ seed = seed' /\ cur = cur' /\ rnd = rnd'
    | _, _ => False
    end.

  Lemma params_shape_refl p : params_shape p p.
  Proof. destruct p; cbn [params_shape]; unfold lp_core; repeat split. Qed.

  Lemma params_shape_trans p q r : params_shape p q -> params_shape q r -> params_shape p r.
  Proof. destruct p, q, r; cbn [params_shape]; unfold lp_core; try tauto; intuition congruence. Qed.

  Ltac ok_step H :=
    match type of H with
    | Err _ = Ok _ => discriminate H
    | bind ?r _ = Ok _ => let E := fresh "E" in destruct r eqn:E; cbn [bind] in H; [|discriminate H]
    | (if ?c then _ else _) = Ok _ => let E := fresh "E" in destruct c eqn:E; try discriminate H
    end.

  Lemma levels_removed_core d fn lp left lp' : levels_removed d fn lp left = Ok lp' -> lp_core lp lp'.
  Proof.
    unfold levels_removed. intros H. repeat ok_step H; injection H as <-; unfold lp_core; repeat split.
  Qed.

  Lemma levels_merge_core d fn lp id vals lp' : levels_merge d fn lp id vals = Ok lp' -> lp_core lp lp'.
  Proof.
    unfold levels_merge. intros H. ok_step H. ok_step H.
    - destruct vals; [|discriminate H]. repeat ok_step H. injection H as <-. unfold lp_core; repeat split.
    - injection H as <-. unfold lp_core; repeat split.
  Qed.

  Lemma on_criteria_removed_shape left p p' : on_criteria_removed left p = Ok p' -> params_shape p p'.
  Proof.
    destruct p; cbn [on_criteria_removed]; intros H; repeat ok_step H; injection H as <-; cbn [params_shape];
      repeat split;
      match goal with E : levels_removed _ _ _ _ = Ok _ |- _ =>
        apply levels_removed_core in E; destruct E as [? [? ?]]; assumption end.
  Qed.

  Lemma merge_shape p a p' : merge p a = Ok p' -> params_shape p p'.
  Proof.
    destruct p, a; cbn [merge]; intros H; try discriminate H; repeat ok_step H; injection H as <-; cbn [params_shape];
      repeat split;
      match goal with E : levels_merge _ _ _ _ _ = Ok _ |- _ =>
        apply levels_merge_core in E; destruct E as [? [? ?]]; assumption end.
  Qed.

  Ltac ok_step2 H :=
    match type of H with
    | Err _ = Ok _ => discriminate H
    | bind ?r _ = Ok _ => let E := fresh "E" in destruct r eqn:E; cbn [bind] in H; [|discriminate H]
    | (if ?c then _ else _) = Ok _ => let E := fresh "E" in destruct c eqn:E; try discriminate H
    | (match ?x with (_, _) => _ end) = Ok _ => destruct x
    end.

  Lemma apply_omission_shape e cur p s r :
    apply_omission e cur p = Ok (s, r) -> params_shape (st_params cur) (st_params s).
  Proof.
    unfold apply_omission. intros H. repeat ok_step2 H. injection H as <- _. cbn [st_params].
    eapply on_criteria_removed_shape; eassumption.
  Qed.

  Lemma apply_reversal_shape e cur p s r :
    apply_reversal e cur p = Ok (s, r) -> params_shape (st_params cur) (st_params s).
  Proof.
    unfold apply_reversal. intros H. cbv zeta in H. repeat ok_step2 H. injection H as <- _. cbn [st_params].
    apply params_shape_refl.
  Qed.

  Lemma apply_fatigue_shape e cur p s r :
    apply_fatigue e cur p = Ok (s, r) -> params_shape (st_params cur) (st_params s).
  Proof.
    unfold apply_fatigue. intros H. repeat ok_step2 H. injection H as <- _. cbn [st_params].
    apply params_shape_refl.
  Qed.

  Lemma apply_concealment_shape e cur p s r :
    apply_concealment e cur p = Ok (s, r) -> params_shape (st_params cur) (st_params s).
  Proof.
    unfold apply_concealment. intros H. cbv zeta in H. repeat ok_step2 H. injection H as <- _. cbn [st_params].
    eapply merge_shape; eassumption.
  Qed.

  Lemma apply_mixing_shape e cur p s r :
    apply_mixing e cur p = Ok (s, r) -> params_shape (st_params cur) (st_params s).
  Proof.
    unfold apply_mixing. intros H. cbv zeta in H. ok_step2 H.
    - injection H as <- _. apply params_shape_refl.
    - repeat ok_step2 H. injection H as <- _. cbn [st_params]. eapply merge_shape; eassumption.
  Qed.

  Lemma fold_bind_err {A B} (f : A -> B -> res A) c : forall l,
    fold_left (fun acc x => do st <- acc; f st x) l (Err c) = Err c.
  Proof. induction l as [|x l IH]; cbn [fold_left bind]; [reflexivity|exact IH]. Qed.

  Lemma fold_bind_inv {A B} (f : A -> B -> res A) (P : A -> Prop) :
    (forall a b a', P a -> f a b = Ok a' -> P a') ->
    forall l a0 r, P a0 -> fold_left (fun acc x => do st <- acc; f st x) l (Ok a0) = Ok r -> P r.
  Proof.
    intros Hf. induction l as [|x l IH]; intros a0 r P0; cbn [fold_left bind].
    - intros H. injection H as <-. exact P0.
    - destruct (f a0 x) as [a1|c] eqn:G.
      + apply IH. now apply (Hf a0 x a1).
      + rewrite fold_bind_err. discriminate.
  Qed.

  Lemma apply_inline_shape cur p sc diffs s r :
    apply_inline cur p sc diffs = Ok (s, r) -> params_shape (st_params cur) (st_params s).
  Proof.
    unfold apply_inline. intros H. cbv zeta in H. repeat ok_step2 H. injection H as <- _. cbn [st_params].
    apply params_shape_refl.
  Qed.

  Lemma apply_new_criterion_shape e cur p sc diffs s r :
    apply_new_criterion e cur p sc diffs = Ok (s, r) -> params_shape (st_params cur) (st_params s).
  Proof.
    unfold apply_new_criterion. intros H. cbv zeta in H. ok_step2 H. ok_step2 H. ok_step2 H.
    match type of H with bind ?r _ = Ok _ => destruct r eqn:E2 end; cbn [bind] in H; [|discriminate H].
    match type of E2 with fold_left _ _ _ = Ok ?x =>
      assert (S : params_shape (st_params cur) (snd (fst x))) end.
    { revert E2. apply (fold_bind_inv _ (fun st => params_shape (st_params cur) (snd (fst st)))).
      - intros [[crits params] added] ir st' Pst G. cbn [fst snd] in Pst. repeat ok_step2 G.
        injection G as <-. cbn [fst snd]. eapply params_shape_trans; [exact Pst|]. eapply merge_shape; eassumption.
      - cbn [fst snd]. apply params_shape_refl. }
    repeat ok_step2 H. injection H as <- _. cbn [st_params]. exact S.
  Qed.

  Lemma apply_anchoring_shape e cur p s r :
    apply_anchoring e cur p = Ok (s, r) -> params_shape (st_params cur) (st_params s).
  Proof.
    unfold apply_anchoring. intros H. destruct (bp_anch_alts p) as [|aa0 aas]; [discriminate H|].
    cbv zeta in H. repeat ok_step2 H. injection H as <- _.
    match goal with E : (if _ then _ else _) = Ok ?x |- _ =>
      destruct x as [s' r']; cbn [fst];
      destruct (String.eqb (bp_anch_applier p) ap_inline);
      [eapply apply_inline_shape; exact E | eapply apply_new_criterion_shape; exact E] end.
  Qed.

  Lemma apply_bias_shape e name cur p s r :
    apply_bias e name cur p = Ok (s, r) -> params_shape (st_params cur) (st_params s).
  Proof.
    unfold apply_bias. intros H. repeat ok_step2 H.
    - now apply (apply_omission_shape e cur p s r).
    - now apply (apply_reversal_shape e cur p s r).
    - now apply (apply_fatigue_shape e cur p s r).
    - now apply (apply_concealment_shape e cur p s r).
    - now apply (apply_mixing_shape e cur p s r).
    - now apply (apply_anchoring_shape e cur p s r).
  Qed.

  Lemma process_biases_shape e : forall bs cur g r,
    process_biases e bs cur g = Ok r -> params_shape (st_params cur) (st_params (fst r)).
  Proof.
    induction bs as [|b rest IH]; intros cur g r H; cbn [process_biases] in H.
    - injection H as <-. apply params_shape_refl.
    - destruct (draw g) as [[d g']|]; cbn [bind fst snd] in H; [|discriminate H].
      destruct (nltb d (b_prob b)).
      + destruct (apply_bias e (b_name b) cur (b_props b)) as [[s rep]|] eqn:A; cbn [bind fst snd] in H; [|discriminate H].
        destruct (process_biases e rest s g') as [r'|] eqn:R; cbn [bind] in H; [|discriminate H].
        injection H as <-. cbn [fst]. eapply params_shape_trans; [eapply apply_bias_shape; exact A|].
        now apply (IH s g').
      + destruct (process_biases e rest cur g') as [r'|] eqn:R; cbn [bind] in H; [|discriminate H].
        injection H as <-. cbn [fst]. now apply (IH cur g').
  Qed.

  Lemma biased_state_shape e req sb :
    biased_state e req = Ok sb ->
    exists st, prepare req = Ok st /\ params_shape (st_params st) (st_params (fst sb)).
  Proof.
    unfold biased_state. intros H. destruct (prepare req) as [st|]; cbn [bind] in H; [|discriminate H].
    exists st. split; [reflexivity|].
    destruct (negb (forallb (fun b => mem_str (b_name b) bias_names) (enabled_biases req))); [discriminate H|].
    destruct (enabled_biases req) as [|b rest].
    - injection H as <-. apply params_shape_refl.
    - now apply (process_biases_shape e _ _ _ _ H).
  Qed.

  (* whatever the biases do, the evaluated parameters have the shape of the parsed ones *)
  Lemma decide_evaluated_shape e req sb p :
    biased_state e req = Ok sb -> parse_params req = Ok p -> params_shape p (st_params (fst sb)).
  Proof.
    intros B PP. destruct (biased_state_shape e req sb B) as [st [P S]].
    destruct (prepare_ok_inv _ _ P) as [_ [_ [_ [PP' _]]]]. rewrite PP in PP'. injection PP' as ->. exact S.
  Qed.

  (** ** 8'. the heuristics' parameter checks at the level of [decide], for ANY biases *)
  Theorem rejects_unknown_draw_policy_decide e req :
    r_method req = m_majority -> rp_draw (r_mp req) <> "" -> valid_policy (rp_draw (r_mp req)) = false ->
    is_ok (decide e req) = false.
  Proof.
    intros M NE V. unfold decide. destruct (biased_state e req) as [sb|] eqn:B; cbn [bind]; [|reflexivity].
    apply is_ok_bind_l. rewrite M, eval_majority.
    pose proof (decide_evaluated_shape e req sb _ B (eq_trans (parse_majority _ M) eq_refl)) as S.
    unfold majority_parse in S. destruct (st_params (fst sb)) eqn:P; cbn [params_shape] in S; try contradiction.
    destruct S as [_ [_ [_ S]]]. subst draw.
    now apply (rejects_unknown_draw_policy e (fst sb) _ _ _ _ _ P).
  Qed.

  (* the direction of the level series wired to the method *)
  Definition method_direction (m : string) (d : direction) : Prop :=
    (m = m_aspect /\ d = Increasing) \/ (m = m_satisfaction /\ d = Decreasing).

  Lemma decide_level_err e req d :
    method_direction (r_method req) d ->
    (forall lp' s, lp_core (rp_lparams (r_mp req)) lp' -> is_ok (lv_init d (rp_function (r_mp req)) lp' s) = false) ->
    is_ok (decide e req) = false.
  Proof.
    intros M H. unfold decide. destruct (biased_state e req) as [sb|] eqn:B; cbn [bind]; [|reflexivity].
    apply is_ok_bind_l. destruct M as [[M ->]|[M ->]]; rewrite M.
    - rewrite eval_aspect.
      pose proof (decide_evaluated_shape e req sb _ B (eq_trans (parse_aspect _ M) eq_refl)) as S.
      unfold aspect_parse in S. destruct (st_params (fst sb)) eqn:P; cbn [params_shape] in S; try contradiction.
      destruct S as [<- [C _]]. eapply aspect_evaluate_level_err; [exact P|]. now apply H.
    - rewrite eval_satisfaction.
      pose proof (decide_evaluated_shape e req sb _ B (eq_trans (parse_satisfaction _ M) eq_refl)) as S.
      unfold satisfaction_parse in S. destruct (st_params (fst sb)) eqn:P; cbn [params_shape] in S; try contradiction.
      destruct S as [<- [C _]]. eapply satisfaction_evaluate_level_err; [exact P|]. now apply H.
  Qed.

  Theorem rejects_unknown_level_function_decide e req d :
    method_direction (r_method req) d ->
    ~ In (rp_function (r_mp req)) [lv_mul; lv_second d; lv_thresholds] -> is_ok (decide e req) = false.
  Proof.
    intros M H. apply (decide_level_err e req d M). intros lp' s _.
    now rewrite rejects_unknown_level_function.
  Qed.

  Theorem rejects_empty_level_function_decide e req d :
    method_direction (r_method req) d -> rp_function (r_mp req) = "" -> is_ok (decide e req) = false.
  Proof.
    intros M H. apply (decide_level_err e req d M). intros lp' s _. rewrite H. reflexivity.
  Qed.

  Lemma validate_coef_core d lp lp' : lp_core lp lp' -> validate_coef d lp' = validate_coef d lp.
  Proof. intros [A [B C]]. unfold validate_coef. now rewrite A, B, C. Qed.

  Theorem rejects_coefficient_out_of_range_decide e req d :
    method_direction (r_method req) d ->
    rp_function (r_mp req) = lv_mul \/ rp_function (r_mp req) = lv_second d ->
    validate_coef d (rp_lparams (r_mp req)) = false -> is_ok (decide e req) = false.
  Proof.
    intros M F V. apply (decide_level_err e req d M). intros lp' s C.
    rewrite (rejects_coefficient_out_of_range d _ lp' s F); [reflexivity|].
    now rewrite (validate_coef_core d _ _ C).
  Qed.
  (** ** The biases keep the identifiers of the considered / not considered alternatives *)
  Definition same_ids (s s' : state) : Prop :=
    map a_id (st_cons s') = map a_id (st_cons s) /\ map a_id (st_notcons s') = map a_id (st_notcons s).

  Lemma same_ids_refl s : same_ids s s.
  Proof. split; reflexivity. Qed.
  Lemma same_ids_trans s1 s2 s3 : same_ids s1 s2 -> same_ids s2 s3 -> same_ids s1 s3.
  Proof. intros [A B] [C D]. split; congruence. Qed.
  Lemma same_ids_all s s' : same_ids s s' -> map a_id (all_alts s') = map a_id (all_alts s).
  Proof. intros [A B]. unfold all_alts. rewrite !map_app. congruence. Qed.

  Lemma mapM_map_eq {A B C} (f : A -> res B) (ga : A -> C) (gb : B -> C) :
    (forall x y, f x = Ok y -> gb y = ga x) -> forall l r, mapM f l = Ok r -> map gb r = map ga l.
  Proof.
    intros Hf. induction l as [|x l IH]; intros r; cbn [mapM].
    - intros H. injection H as <-. reflexivity.
    - destruct (f x) as [y|] eqn:F; cbn [bind]; [|discriminate].
      destruct (mapM f l) as [ys|]; cbn [bind]; [|discriminate].
      intros H. injection H as <-. cbn [map]. now rewrite (Hf x y F), (IH ys eq_refl).
  Qed.

  Lemma fetch_alt'_id : forall (l : list alt) id a, fetch_alt' l id = Ok a -> a_id a = id.
  Proof.
    induction l as [|x l IH]; intros id a; cbn [fetch_alt']; [discriminate|].
    destruct (String.eqb (a_id x) id) eqn:E; intros H.
    - injection H as <-. now apply String.eqb_eq.
    - now apply (IH id).
  Qed.

  Lemma update_alts_ids old new r : update_alts old new = Ok r -> map a_id r = map a_id old.
  Proof. unfold update_alts. apply mapM_map_eq. intros x y F. now apply fetch_alt'_id in F. Qed.

  Lemma with_criteria_only_id a cs a' : with_criteria_only a cs = Ok a' -> a_id a' = a_id a.
  Proof. unfold with_criteria_only. intros H. ok_step2 H. injection H as <-. reflexivity. Qed.

  Lemma blur_alts_ids crs p f : forall l gv gs acc r gv' gs',
    blur_alts crs l p f gv gs acc = Ok (r, gv', gs') -> map a_id r = map a_id acc ++ map a_id l.
  Proof.
    induction l as [|a l IH]; intros gv gs acc r gv' gs'; cbn [blur_alts].
    - intros H. injection H as <- _ _. cbn [map]. now rewrite app_nil_r.
    - destruct (blur_values crs a p f gv gs []) as [[[vals gv1] gs1]|]; cbn [bind]; [|discriminate].
      intros H. apply IH in H. rewrite H, map_app, <- app_assoc. reflexivity.
  Qed.

  Lemma apply_omission_ids e cur p s r : apply_omission e cur p = Ok (s, r) -> same_ids cur s.
  Proof.
    unfold apply_omission. intros H. repeat ok_step2 H. injection H as <- _. split; cbn [st_cons st_notcons];
      (eapply mapM_map_eq; [|eassumption]); intros x y F; now apply with_criteria_only_id in F.
  Qed.

  Lemma apply_reversal_ids e cur p s r : apply_reversal e cur p = Ok (s, r) -> same_ids cur s.
  Proof.
    unfold apply_reversal. intros H. cbv zeta in H. repeat ok_step2 H. injection H as <- _.
    split; cbn [st_cons st_notcons]; eapply update_alts_ids; eassumption.
  Qed.

  Lemma apply_fatigue_ids e cur p s r : apply_fatigue e cur p = Ok (s, r) -> same_ids cur s.
  Proof.
    unfold apply_fatigue. intros H. repeat ok_step2 H. injection H as <- _.
    split; cbn [st_cons st_notcons];
      match goal with |- map a_id ?x = _ =>
        match goal with E : blur_alts _ _ _ _ _ _ [] = Ok (x, _, _) |- _ => apply blur_alts_ids in E; exact E end end.
  Qed.

  Lemma apply_concealment_ids e cur p s r : apply_concealment e cur p = Ok (s, r) -> same_ids cur s.
  Proof.
    unfold apply_concealment. intros H. cbv zeta in H. repeat ok_step2 H. injection H as <- _.
    split; cbn [st_cons st_notcons]; eapply update_alts_ids; eassumption.
  Qed.

  Lemma apply_mixing_ids e cur p s r : apply_mixing e cur p = Ok (s, r) -> same_ids cur s.
  Proof.
    unfold apply_mixing. intros H. cbv zeta in H. ok_step2 H.
    - injection H as <- _. apply same_ids_refl.
    - repeat ok_step2 H. injection H as <- _.
      split; cbn [st_cons st_notcons]; eapply update_alts_ids; eassumption.
  Qed.

  Lemma apply_inline_ids cur p sc diffs s r : apply_inline cur p sc diffs = Ok (s, r) -> same_ids cur s.
  Proof.
    unfold apply_inline. intros H. cbv zeta in H. ok_step2 H. ok_step2 H. ok_step2 H. ok_step2 H.
    injection H as <- _. split; cbn [st_cons st_notcons]; [eapply update_alts_ids; eassumption|].
    destruct (bp_anch_not_considered p).
    - eapply update_alts_ids; eassumption.
    - match goal with E : Ok _ = Ok _ |- _ => injection E as <- end. reflexivity.
  Qed.

  Lemma apply_new_criterion_ids e cur p sc diffs s r :
    apply_new_criterion e cur p sc diffs = Ok (s, r) -> same_ids cur s.
  Proof.
    unfold apply_new_criterion. intros H. cbv zeta in H. repeat ok_step2 H. injection H as <- _.
    split; cbn [st_cons st_notcons]; eapply update_alts_ids; eassumption.
  Qed.

  Lemma apply_anchoring_ids e cur p s r : apply_anchoring e cur p = Ok (s, r) -> same_ids cur s.
  Proof.
    unfold apply_anchoring. intros H. destruct (bp_anch_alts p) as [|aa0 aas]; [discriminate H|].
    cbv zeta in H. repeat ok_step2 H. injection H as <- _.
    match goal with E : (if _ then _ else _) = Ok ?x |- _ =>
      destruct x as [s' r']; cbn [fst];
      destruct (String.eqb (bp_anch_applier p) ap_inline);
      [eapply apply_inline_ids; exact E | eapply apply_new_criterion_ids; exact E] end.
  Qed.

  Lemma apply_bias_ids e name cur p s r : apply_bias e name cur p = Ok (s, r) -> same_ids cur s.
  Proof.
    unfold apply_bias. intros H. repeat ok_step2 H.
    - now apply (apply_omission_ids e cur p s r).
    - now apply (apply_reversal_ids e cur p s r).
    - now apply (apply_fatigue_ids e cur p s r).
    - now apply (apply_concealment_ids e cur p s r).
    - now apply (apply_mixing_ids e cur p s r).
    - now apply (apply_anchoring_ids e cur p s r).
  Qed.

  Lemma process_biases_ids e : forall bs cur g r, process_biases e bs cur g = Ok r -> same_ids cur (fst r).
  Proof.
    induction bs as [|b rest IH]; intros cur g r H; cbn [process_biases] in H.
    - injection H as <-. apply same_ids_refl.
    - destruct (draw g) as [[d g']|]; cbn [bind fst snd] in H; [|discriminate H].
      destruct (nltb d (b_prob b)).
      + destruct (apply_bias e (b_name b) cur (b_props b)) as [[s rep]|] eqn:A; cbn [bind fst snd] in H; [|discriminate H].
        destruct (process_biases e rest s g') as [r'|] eqn:R; cbn [bind] in H; [|discriminate H].
        injection H as <-. cbn [fst]. eapply same_ids_trans; [eapply apply_bias_ids; exact A|].
        now apply (IH s g').
      + destruct (process_biases e rest cur g') as [r'|] eqn:R; cbn [bind] in H; [|discriminate H].
        injection H as <-. cbn [fst]. now apply (IH cur g').
  Qed.

  Lemma biased_state_ids e req sb :
    biased_state e req = Ok sb -> exists st, prepare req = Ok st /\ same_ids st (fst sb).
  Proof.
    unfold biased_state. intros H. destruct (prepare req) as [st|]; cbn [bind] in H; [|discriminate H].
    exists st. split; [reflexivity|].
    destruct (negb (forallb (fun b => mem_str (b_name b) bias_names) (enabled_biases req))); [discriminate H|].
    destruct (enabled_biases req) as [|b rest].
    - injection H as <-. apply same_ids_refl.
    - now apply (process_biases_ids e _ _ _ _ H).
  Qed.

  (* a current choice that is no known alternative, for ANY biases *)
  Theorem rejects_unknown_current_choice_decide e req :
    In (r_method req) [m_majority; m_satisfaction] ->
    rp_current (r_mp req) <> "" -> ~ In (rp_current (r_mp req)) (map a_id (r_known req)) ->
    is_ok (decide e req) = false.
  Proof.
    intros M NE H. unfold decide. destruct (biased_state e req) as [sb|] eqn:B; cbn [bind]; [|reflexivity].
    apply is_ok_bind_l.
    assert (H' : ~ In (rp_current (r_mp req)) (map a_id (all_alts (fst sb)))).
    { destruct (biased_state_ids e req sb B) as [st [P S]]. rewrite (same_ids_all _ _ S).
      intros I. apply H. now apply (prepared_alts_known req st). }
    cbn [In] in M. destruct M as [M|[M|[]]]; symmetry in M; rewrite M.
    - rewrite eval_majority.
      pose proof (decide_evaluated_shape e req sb _ B (eq_trans (parse_majority _ M) eq_refl)) as S.
      unfold majority_parse in S. destruct (st_params (fst sb)) eqn:P; cbn [params_shape] in S; try contradiction.
      destruct S as [<- _]. eapply majority_evaluate_current_err; [exact P|exact NE|exact H'].
    - rewrite eval_satisfaction.
      pose proof (decide_evaluated_shape e req sb _ B (eq_trans (parse_satisfaction _ M) eq_refl)) as S.
      unfold satisfaction_parse in S. destruct (st_params (fst sb)) eqn:P; cbn [params_shape] in S; try contradiction.
      destruct S as [_ [_ [_ [<- _]]]]. eapply satisfaction_evaluate_current_err; [exact P|exact NE|exact H'].
  Qed.
End Generic.

(** * The requested statements on the exact-rational instance, with the order of [Qc] *)
Section OnQc.
  Local Open Scope Qc_scope.
  Implicit Types (e : @env NumQc) (req : @request NumQc) (c : @crit NumQc) (ec : @ecrit NumQc)
           (f : @linfun NumQc) (b : @biasreq NumQc) (cur : @state NumQc) (lp : @lparams NumQc).

  (** ** 2. *)
  Theorem rejects_inverted_range e req c (mn mx : Qc) :
    In c (r_crits req) -> c_range c = Some (mn, mx) -> mx <= mn -> is_ok (decide e req) = false.
  Proof. intros I R L. apply (rejects_inverted_range_gen e req c mn mx I R). now apply nleb_iff. Qed.

  (** ** 6. *)
  Theorem rejects_choquet_weight_out_of_range e req (w : smap Qc) k (v : Qc) :
    r_method req = m_choquet -> rp_weights (r_mp req) = Some w ->
    In (k, v) w -> v < 0 \/ 1 < v -> is_ok (decide e req) = false.
  Proof.
    intros M W I H. apply (rejects_choquet_weight_out_of_range_gen e req w k v M W I).
    apply orb_true_iff. destruct H as [H|H]; [left|right]; now apply nltb_iff.
  Qed.

  (* through [prepare_weights], for a map whose keys are already normalised *)
  Theorem prepare_weights_rejects_out_of_range (w : smap Qc) names acc k (v : Qc) :
    In (k, v) w -> v < 0 \/ 1 < v -> is_ok (prepare_weights w names acc) = false.
  Proof.
    intros I H. apply (@prepare_weights_out_of_range NumQc w names acc k v I).
    apply orb_true_iff. destruct H as [H|H]; [left|right]; now apply nltb_iff.
  Qed.

  (** ** 7. ELECTRE III: exactly what [validate_ecrit] rejects *)
  Theorem rejects_electre_nonpositive_k e req ecs c ec :
    r_method req = m_electre -> rp_electre (r_mp req) = Some ecs ->
    In c (r_crits req) -> mget (c_id c) ecs = Some ec -> ec_k ec <= 0 -> is_ok (decide e req) = false.
  Proof.
    intros M W I G K. apply (rejects_electre_nonpositive_k_gen e req ecs c ec M W I G). now apply nleb_iff.
  Qed.

  (* a constant, present (b <> 0) threshold that does not exceed the current lower bound *)
  Definition bad_threshold f (cur : Qc) : Prop := lf_a f = 0 /\ lf_b f <> 0 /\ lf_b f <= cur.
  (* the lower bound for the next threshold: b when positive (whatever a), else unchanged *)
  Definition raise f (cur : Qc) : Qc := if @nltb NumQc 0 (lf_b f) then lf_b f else cur.

  Lemma require_b_at_least_spec f (cur : Qc) :
    (bad_threshold f cur /\ require_b_at_least f cur = Err EInvalid) \/
    (~ bad_threshold f cur /\ require_b_at_least f cur = Ok (raise f cur)).
  Proof.
    unfold require_b_at_least, bad_threshold, raise. change (@nzero NumQc) with 0.
    destruct (@neqb NumQc (lf_a f) 0) eqn:A; destruct (@neqb NumQc (lf_b f) 0) eqn:B;
      destruct (@nleb NumQc (lf_b f) cur) eqn:C; cbn [andb negb]; bconv.
    3: left; repeat split; assumption.
    all: right; split; [|reflexivity]; intros [X [Y Z]]; try contradiction.
    all: apply (Qclt_not_le _ _ C); exact Z.
  Qed.

  Theorem validate_ecrit_rejects_iff ec :
    is_ok (validate_ecrit ec) = false <->
    ec_k ec <= 0 \/ bad_threshold (ec_q ec) 0 \/ bad_threshold (ec_p ec) (raise (ec_q ec) 0) \/
    bad_threshold (ec_v ec) (raise (ec_p ec) (raise (ec_q ec) 0)).
  Proof.
    unfold validate_ecrit. change (@nzero NumQc) with 0.
    destruct (@nleb NumQc (ec_k ec) 0) eqn:K; bconv.
    { split; [intros _; left; exact K|reflexivity]. }
    destruct (require_b_at_least_spec (ec_q ec) 0) as [[B1 E1]|[B1 E1]]; rewrite E1; cbn [bind].
    { split; [intros _; right; left; exact B1|reflexivity]. }
    destruct (require_b_at_least_spec (ec_p ec) (raise (ec_q ec) 0)) as [[B2 E2]|[B2 E2]]; rewrite E2; cbn [bind].
    { split; [intros _; right; right; left; exact B2|reflexivity]. }
    destruct (require_b_at_least_spec (ec_v ec) (raise (ec_p ec) (raise (ec_q ec) 0))) as [[B3 E3]|[B3 E3]];
      rewrite E3; cbn [bind is_ok].
    { split; [intros _; right; right; right; exact B3|reflexivity]. }
    split; [discriminate|]. intros [H|[H|[H|H]]]; try contradiction.
    exfalso. exact (Qclt_not_le _ _ K H).
  Qed.

  Lemma raise_pos f (cur : Qc) : 0 < lf_b f -> raise f cur = lf_b f.
  Proof. intros H. unfold raise. apply nltb_iff in H. now rewrite H. Qed.

  Lemma raise_nonpos f (cur : Qc) : lf_b f <= 0 -> raise f cur = cur.
  Proof. intros H. unfold raise. apply nltb_false_iff in H. now rewrite H. Qed.

  Lemma raise_nonneg f (cur : Qc) : 0 <= cur -> 0 <= raise f cur.
  Proof.
    intros H. unfold raise. destruct (@nltb NumQc 0 (lf_b f)) eqn:E; [|exact H].
    apply nltb_iff in E. now apply Qclt_le_weak.
  Qed.

  Lemma pos_neq0 (x : Qc) : 0 < x -> x <> 0.
  Proof. intros H E. rewrite E in H. exact (Qclt_not_le _ _ H (Qcle_refl 0)). Qed.

  (* the three documented orderings of constant thresholds: 0 < p <= q; 0 < v <= p; 0 < v <= q with p absent *)
  Definition thresholds_not_increasing ec : Prop :=
    (lf_a (ec_p ec) = 0 /\ 0 < lf_b (ec_p ec) /\ lf_b (ec_p ec) <= lf_b (ec_q ec)) \/
    (lf_a (ec_v ec) = 0 /\ 0 < lf_b (ec_v ec) /\ lf_b (ec_v ec) <= lf_b (ec_p ec)) \/
    (lf_a (ec_v ec) = 0 /\ lf_b (ec_p ec) <= 0 /\ 0 < lf_b (ec_v ec) /\ lf_b (ec_v ec) <= lf_b (ec_q ec)).

  Lemma validate_ecrit_not_increasing ec : thresholds_not_increasing ec -> is_ok (validate_ecrit ec) = false.
  Proof.
    intros H.
    destruct (is_ok (validate_ecrit ec)) eqn:V; [exfalso|reflexivity].
    assert (NV : ~ (is_ok (validate_ecrit ec) = false)) by (rewrite V; discriminate).
    rewrite validate_ecrit_rejects_iff in NV.
    destruct H as [[A [P L]]|[[A [P L]]|[A [NP [P L]]]]].
    - apply NV. right. right. left. unfold bad_threshold. split; [exact A|]. split; [now apply pos_neq0|].
      rewrite raise_pos; [exact L|]. now apply (Qclt_le_trans _ (lf_b (ec_p ec))).
    - apply NV. right. right. right. unfold bad_threshold. split; [exact A|]. split; [now apply pos_neq0|].
      rewrite raise_pos; [exact L|]. now apply (Qclt_le_trans _ (lf_b (ec_v ec))).
    - apply NV. right. right. right. unfold bad_threshold. split; [exact A|]. split; [now apply pos_neq0|].
      rewrite (raise_nonpos (ec_p ec)) by exact NP.
      rewrite raise_pos; [exact L|]. now apply (Qclt_le_trans _ (lf_b (ec_v ec))).
  Qed.

  Theorem rejects_electre_thresholds_not_increasing e req ecs c ec :
    r_method req = m_electre -> rp_electre (r_mp req) = Some ecs ->
    In c (r_crits req) -> mget (c_id c) ecs = Some ec -> thresholds_not_increasing ec ->
    is_ok (decide e req) = false.
  Proof.
    intros M W I G H. apply (electre_entry_err e req ecs c ec M W I G). now apply validate_ecrit_not_increasing.
  Qed.

  (* a negative constant threshold *)
  Lemma validate_ecrit_negative_threshold ec f :
    In f [ec_q ec; ec_p ec; ec_v ec] -> lf_a f = 0 -> lf_b f < 0 -> is_ok (validate_ecrit ec) = false.
  Proof.
    intros I A Ng. apply validate_ecrit_rejects_iff. right.
    assert (NE : lf_b f <> 0) by (intros E; rewrite E in Ng; exact (Qclt_not_le _ _ Ng (Qcle_refl 0))).
    assert (B : forall x : Qc, 0 <= x -> bad_threshold f x).
    { intros x H. split; [exact A|]. split; [exact NE|].
      apply Qclt_le_weak. now apply (Qclt_le_trans _ 0). }
    cbn [In] in I. destruct I as [<-|[<-|[<-|[]]]].
    - left. apply B, Qcle_refl.
    - right. left. apply B, raise_nonneg, Qcle_refl.
    - right. right. apply B, raise_nonneg, raise_nonneg, Qcle_refl.
  Qed.

  Theorem rejects_electre_negative_threshold e req ecs c ec f :
    r_method req = m_electre -> rp_electre (r_mp req) = Some ecs ->
    In c (r_crits req) -> mget (c_id c) ecs = Some ec ->
    In f [ec_q ec; ec_p ec; ec_v ec] -> lf_a f = 0 -> lf_b f < 0 -> is_ok (decide e req) = false.
  Proof.
    intros M W I G If A Ng. apply (electre_entry_err e req ecs c ec M W I G).
    now apply (validate_ecrit_negative_threshold ec f).
  Qed.

  (** ** 8. the coefficient / min / max of the generated series: the documented domain *)
  Definition coef_domain (d : direction) lp : Prop :=
    (0 < lp_coef lp /\ lp_coef lp < 1) /\
    (d = Increasing -> (0 <= lp_min lp /\ lp_min lp <= 1) /\ (0 <= lp_max lp /\ lp_max lp <= 1)) /\
    (d = Decreasing -> (0 < lp_min lp /\ lp_min lp <= 1) /\ (0 < lp_max lp /\ lp_max lp <= 1)).

  Lemma validate_coef_false d lp : ~ coef_domain d lp -> validate_coef d lp = false.
  Proof.
    intros H. destruct (validate_coef d lp) eqn:V; [|reflexivity].
    apply validate_coef_spec in V. contradiction.
  Qed.

  Theorem rejects_coefficient_out_of_domain d fn lp (s : @state NumQc) :
    fn = lv_mul \/ fn = lv_second d -> ~ coef_domain d lp -> lv_init d fn lp s = Err EInvalid.
  Proof. intros F H. apply rejects_coefficient_out_of_range; [exact F|now apply validate_coef_false]. Qed.

  Theorem rejects_coefficient_out_of_domain_decide e req d :
    method_direction (r_method req) d ->
    rp_function (r_mp req) = lv_mul \/ rp_function (r_mp req) = lv_second d ->
    ~ coef_domain d (rp_lparams (r_mp req)) -> is_ok (decide e req) = false.
  Proof.
    intros M F H. apply (rejects_coefficient_out_of_range_decide e req d M F). now apply validate_coef_false.
  Qed.

  (** ** 9. biases *)
  Lemma is_probability_false (x : Qc) : x < 0 \/ 1 < x -> @is_probability NumQc x = false.
  Proof.
    intros H. unfold is_probability. change (@nzero NumQc) with 0. change (@none NumQc) with 1.
    destruct (@nleb NumQc 0 x) eqn:A; destruct (@nleb NumQc x 1) eqn:B; try reflexivity. bconv.
    exfalso. destruct H as [H|H]; [exact (Qclt_not_le _ _ H A)|exact (Qclt_not_le _ _ H B)].
  Qed.

  Theorem rejects_ratio_out_of_range e b rest cur (d : Qc) g :
    In (b_name b) [b_omission; b_reversal] ->
    bp_ratio (b_props b) < 0 \/ 1 < bp_ratio (b_props b) ->
    @nltb NumQc d (b_prob b) = true -> is_ok (process_biases e (b :: rest) cur (d :: g)) = false.
  Proof.
    intros I H F. apply rejects_ratio_out_of_range_gen; [exact I| |exact F]. now apply is_probability_false.
  Qed.

  Theorem rejects_zero_bounding_scaling e b rest cur (d : Qc) g :
    In (b_name b) [b_fatigue; b_concealment; b_anchoring] -> bp_scaling (b_props b) = 0 ->
    @nltb NumQc d (b_prob b) = true -> is_ok (process_biases e (b :: rest) cur (d :: g)) = false.
  Proof.
    intros I H F. apply rejects_zero_bounding_scaling_gen; [exact I| |exact F]. now apply neqb_iff.
  Qed.

  Theorem rejects_zero_new_criterion_scaling e b rest cur (d : Qc) g :
    b_name b = b_concealment -> bp_new_scaling (b_props b) = 0 ->
    @nltb NumQc d (b_prob b) = true -> is_ok (process_biases e (b :: rest) cur (d :: g)) = false.
  Proof.
    intros I H F. apply rejects_zero_new_criterion_scaling_gen; [exact I| |exact F]. now apply neqb_iff.
  Qed.

  Theorem rejects_mixing_ratio_out_of_range e b rest cur (d : Qc) g :
    b_name b = b_mixing -> (2 <= List.length (st_crits cur))%nat ->
    bp_mix_ratio (b_props b) < 0 \/ 1 < bp_mix_ratio (b_props b) ->
    @nltb NumQc d (b_prob b) = true -> is_ok (process_biases e (b :: rest) cur (d :: g)) = false.
  Proof.
    intros I L H F. apply rejects_mixing_ratio_out_of_range_gen; [exact I|exact L| |exact F].
    now apply is_probability_false.
  Qed.
End OnQc.

(** * What is NOT rejected (evaluated on [NumQc]); see the report.
    - anchoring with the [inline] applier never consults the reference-criterion type: an unknown type is accepted;
    - criteriaMixing with fewer than two criteria does nothing: mixing ratio and reference type are not validated;
    - a bias that does not fire (draw >= applyProbability) or is disabled is not validated at all. *)
Module NotRejected.
  Definition q (n d : Z) : Qc := Q2Qc (Qmake n (Z.to_pos d)).
  Definition c1 : @crit NumQc := {| c_id := "c1"; c_type := TGain; c_range := None |}.
  Definition c2 : @crit NumQc := {| c_id := "c2"; c_type := TGain; c_range := None |}.
  Definition a1 : @alt NumQc := {| a_id := "a1"; a_vals := [("c1", q 1 1); ("c2", q 2 1)] |}.
  Definition a2 : @alt NumQc := {| a_id := "a2"; a_vals := [("c1", q 3 1); ("c2", q 1 1)] |}.
  Definition lin : @fparams NumQc :=
    {| fp_name := "linear"; fp_a := q 1 1; fp_b := q 0 1; fp_alpha := q 0 1; fp_mult := q 0 1 |}.
  (* every field valid except: reference type "bogus", split ratio [ratio], mixing ratio [mix] *)
  Definition props (ratio mix : Qc) : @bprops NumQc := {|
    bp_ordering := ""; bp_ratio := ratio; bp_min := 0; bp_max := 5; bp_seed := 1;
    bp_scaling := q 1 1; bp_nonneg := false;
    bp_ref_type := "bogus"; bp_ref_importance := q 1 2; bp_ref_seed := 1;
    bp_new_scaling := q 1 1; bp_mix_ratio := mix;
    bp_fat_function := "const"; bp_fat_value := q 1 10; bp_fat_alpha := q 0 1; bp_fat_mult := q 0 1; bp_fat_query := 0;
    bp_anch_alts := [{| aa_id := "a1"; aa_coef := q 1 1 |}];
    bp_anch_loss := lin; bp_anch_gain := lin; bp_anch_ref := "ideal"; bp_anch_applier := "inline";
    bp_anch_not_considered := false |}.
  Definition rp : @rawparams NumQc := {|
    rp_weights := Some [("c1", q 1 1); ("c2", q 1 1)]; rp_electre := None; rp_dist := None; rp_current := "";
    rp_seed := 0; rp_random_order := false; rp_draw := ""; rp_function := "";
    rp_lparams := {| lp_coef := q 0 1; lp_max := q 0 1; lp_min := q 0 1; lp_ths := [] |} |}.
  Definition req (bs : list (@biasreq NumQc)) (crs : list (@crit NumQc)) : @request NumQc := {|
    r_method := "weightedSum"; r_biases := bs; r_seed := 7;
    r_known := [a1; a2]; r_chose := ["a1"; "a2"]; r_crits := crs; r_mp := rp |}.
  (* the bias stream of seed 7 draws 1/2 *)
  Definition env1 : @env NumQc := {| env_streams := [(7%Z, [q 1 2]); (1%Z, [q 1 4; q 1 4])]; env_exp := [] |}.
  Definition bias (name : string) (disabled : bool) (prob ratio mix : Qc) : @biasreq NumQc :=
    {| b_name := name; b_disabled := disabled; b_prob := prob; b_props := props ratio mix |}.

  (* fired anchoring (1/2 < 1), inline applier, reference type "bogus": 200 *)
  Example anchoring_inline_ignores_reference_type :
    is_ok (decide env1 (req [bias "anchoring" false (q 1 1) (q 1 2) (q 1 2)] [c1; c2])) = true.
  Proof. vm_compute. reflexivity. Qed.

  (* fired mixing on a single criterion, mixing ratio 7, reference type "bogus": 200 (and 400 with two criteria) *)
  Example mixing_single_criterion_not_validated :
    is_ok (decide env1 (req [bias "criteriaMixing" false (q 1 1) (q 1 2) (q 7 1)] [c1])) = true /\
    is_ok (decide env1 (req [bias "criteriaMixing" false (q 1 1) (q 1 2) (q 7 1)] [c1; c2])) = false.
  Proof. vm_compute. split; reflexivity. Qed.

  (* omission with ratio 7: not fired (1/2 >= 1/4) -> 200; fired -> 400 *)
  Example unfired_bias_not_validated :
    is_ok (decide env1 (req [bias "criteriaOmission" false (q 1 4) (q 7 1) (q 1 2)] [c1; c2])) = true /\
    is_ok (decide env1 (req [bias "criteriaOmission" false (q 1 1) (q 7 1) (q 1 2)] [c1; c2])) = false.
  Proof. vm_compute. split; reflexivity. Qed.

  (* a disabled bias with an unregistered name: 200; enabled: 400 *)
  Example disabled_bias_not_validated :
    is_ok (decide env1 (req [bias "noSuchBias" true (q 1 1) (q 1 2) (q 1 2)] [c1; c2])) = true /\
    is_ok (decide env1 (req [bias "noSuchBias" false (q 1 1) (q 1 2) (q 1 2)] [c1; c2])) = false.
  Proof. vm_compute. split; reflexivity. Qed.
End NotRejected.

(** * Assumptions: every statement is closed under the global context *)
Print Assumptions status_of_outcome.
Print Assumptions err_is_final.
Print Assumptions rejects_blank_method.
Print Assumptions rejects_unknown_method.
Print Assumptions rejects_duplicate_criterion.
Print Assumptions rejects_inverted_range.
Print Assumptions rejects_missing_value.
Print Assumptions rejects_unknown_alternative.
Print Assumptions rejects_missing_weights.
Print Assumptions rejects_missing_weight.
Print Assumptions rejects_missing_weight_owa.
Print Assumptions rejects_owa_count.
Print Assumptions rejects_choquet_non_gain.
Print Assumptions rejects_choquet_weight_out_of_range.
Print Assumptions prepare_weights_rejects_out_of_range.
Print Assumptions rejects_choquet_missing_subset.
Print Assumptions rejects_choquet_missing_subset_canonical.
Print Assumptions rejects_electre_missing.
Print Assumptions rejects_electre_missing_entry.
Print Assumptions rejects_electre_nonpositive_k.
Print Assumptions validate_ecrit_rejects_iff.
Print Assumptions rejects_electre_thresholds_not_increasing.
Print Assumptions rejects_electre_negative_threshold.
Print Assumptions rejects_unknown_draw_policy.
Print Assumptions rejects_unknown_draw_policy_decide.
Print Assumptions rejects_empty_level_function.
Print Assumptions rejects_unknown_level_function.
Print Assumptions rejects_unknown_level_function_decide.
Print Assumptions rejects_empty_level_function_decide.
Print Assumptions rejects_coefficient_out_of_range.
Print Assumptions rejects_coefficient_out_of_range_decide.
Print Assumptions rejects_coefficient_out_of_domain.
Print Assumptions rejects_coefficient_out_of_domain_decide.
Print Assumptions rejects_threshold_missing_criterion.
Print Assumptions rejects_threshold_missing_criterion_decide.
Print Assumptions rejects_unknown_current_choice.
Print Assumptions rejects_unknown_current_choice_decide.
Print Assumptions rejects_unknown_bias.
Print Assumptions decide_rejects_fired_bias.
Print Assumptions rejects_unknown_ordering.
Print Assumptions rejects_ratio_out_of_range.
Print Assumptions rejects_max_below_min.
Print Assumptions rejects_zero_bounding_scaling.
Print Assumptions rejects_zero_new_criterion_scaling.
Print Assumptions rejects_mixing_ratio_out_of_range.
Print Assumptions rejects_unknown_reference_type.
Print Assumptions rejects_unknown_fatigue_function.
Print Assumptions rejects_anchoring_no_alternatives.
Print Assumptions rejects_anchoring_unknown_function.
Print Assumptions anchoring_unknown_alternative.
Print Assumptions NotRejected.anchoring_inline_ignores_reference_type.
Print Assumptions NotRejected.mixing_single_criterion_not_validated.
