(** * C04 — a utility ranking is exactly the order of the utilities.
    Property theorems only; each is closed by [exact] of a lemma of Proofs/RankFacts.v.
    Carrier: any [Num] with [OrdLaws] (holds for exact rationals; see DESIGN.md §3.1 for binary64). *)
From Coq Require Import List Permutation String Relations QArith Qcanon.
From RDM Require Import Base.Num Base.NumQc Base.Util Model.Data Model.Rank Check.C04 Proofs.RankFacts.
Import ListNotations.

Section C04.
  Context {N : Num} {L : OrdLaws N}.

  (** the result lists exactly the alternatives it was given *)
  Theorem C04_same_alternatives : forall l, Permutation (map eid (ranking l)) (ids l).
  Proof. exact ranking_ids_perm. Qed.

  (** ordered by non-increasing (rounded) value, equal values by ascending id *)
  Theorem C04_sorted : forall l, okl l -> NoDup (ids l) -> sorted_by before (ranking l) = true.
  Proof. exact ranking_sorted. Qed.

  (** betterThanOrSameAs = the other alternatives with the same value + all alternatives holding
      the next lower distinct value ([links_spec] is the order-independent characterisation) *)
  Theorem C04_links_exact : forall l e, okl l -> NoDup (ids l) -> In e (ranking l) ->
      e_links e = links_spec (ranking l) e.
  Proof. exact ranking_links_exact. Qed.

  (** following the links from an entry reaches precisely the alternatives whose value is not higher *)
  Theorem C04_links_reach : forall l e x, okl l -> NoDup (ids l) -> In e (ranking l) -> In x (ranking l) ->
      (clos_refl_trans entry (fun a b => In a (ranking l) /\ In b (ranking l) /\ In (eid b) (e_links a)) e x
       <-> nleb (val x) (val e) = true).
  Proof. exact links_reach. Qed.

  (** value, position and links do not depend on the order in which alternatives are listed *)
  Theorem C04_listing_order : forall l l', okl l -> NoDup (ids l) -> Permutation l l' -> ranking l = ranking l'.
  Proof. exact ranking_perm_invariant. Qed.

  (** the model satisfies the boolean checker that is evaluated on the implementation's output *)
  Theorem C04_model_passes_checker : forall l, okl l -> NoDup (ids l) -> C04_ok (ranking l) = true.
  Proof. exact ranking_C04_ok. Qed.

  (** and the checker is sound for the specification *)
  Theorem C04_checker_sound : forall obs, C04_ok obs = true ->
      (forall e, In e obs -> exists v, e_eval e = EValue v) /\ sorted_by before obs = true /\
      (forall e, In e obs -> e_links e = links_spec obs e).
  Proof. exact C04_ok_sound. Qed.
End C04.

Print Assumptions C04_same_alternatives.
Print Assumptions C04_sorted.
Print Assumptions C04_links_exact.
Print Assumptions C04_links_reach.
Print Assumptions C04_listing_order.
Print Assumptions C04_model_passes_checker.
Print Assumptions C04_checker_sound.

(** non-vacuity: a concrete tie pattern (two equal values, then two equal lower values, one lowest)
    meets the hypotheses on the rational instance, and the checker accepts the model's output *)
Definition ex_items : list (@scored NumQc) :=
  map (fun p => ({| a_id := fst p; a_vals := [] |}, snd p))
      [("a"%string, Q2Qc 2); ("b"%string, Q2Qc 1); ("c"%string, Q2Qc 2); ("d"%string, Q2Qc 1); ("e"%string, Q2Qc 0)].
Example C04_nonvacuous :
  NoDup (ids ex_items) /\ C04_ok (ranking ex_items) = true
  /\ map eid (ranking ex_items) = ["a"; "c"; "b"; "d"; "e"]%string
  /\ map (@e_links NumQc) (ranking ex_items) = [["c"; "b"; "d"]; ["a"; "b"; "d"]; ["d"; "e"]; ["b"; "e"]; []]%string.
Proof.
  split; [|vm_compute; auto].
  repeat constructor; cbn; intuition discriminate.
Qed.

(** obligation over the inventory of constants regenerated from the source on every run (Gen/Consts.v, tools/gen_consts.py): every
    non-zero floating-point literal of the source is a constant of the model with the same exact value - among them roundPrecision,
    the 1e8 of [nround8] that the ranking rounds with - every constant the model relies on is still in its package, and the names the
    model dispatches on are the declared ones (statement: [consts_agree = true], Proofs/ConstSites.v) *)
From RDM Require Import Gen.Consts Proofs.ConstSites Proofs.ConstAgree.
Theorem C04_consts_agree_now : consts_agree = true.
Proof. exact consts_agree_now. Qed.
Print Assumptions C04_consts_agree_now.

(** the rounding helper of the model multiplies and divides by the classified roundPrecision *)
Theorem C04_round8_uses_precision_Qc (x : Qc) :
  nround8 (Num := NumQc) x = Q2Qc (inject_Z (q_round_half_away (this x * inject_Z 100000000)) / inject_Z 100000000).
Proof. exact (round8_uses_precision_Qc x). Qed.
Print Assumptions C04_round8_uses_precision_Qc.
