(** * C04 — a utility ranking is exactly the order of the utilities (property theorems only) *)
From Coq Require Import List Permutation.
From RDM Require Import Base.Num Base.Util Model.Data Model.Rank Proofs.SortFacts.
Import ListNotations.

Theorem C04_placeholder_sorted_is_permutation :
  forall {N : Num} (l : list scored), Permutation (isort rank_lt (rounded l)) (rounded l).
Proof. intros. exact (isort_perm rank_lt (rounded l)). Qed.
Print Assumptions C04_placeholder_sorted_is_permutation.
