(** * C01 — every decision is a complete, well-formed ranking.
    Property theorems only (closed by [exact]); proofs in Proofs/WfFacts.v, Proofs/BiasFacts.v. *)
From Coq Require Import List Permutation String ZArith Bool.
From RDM Require Import Base.Num Base.NumQc Base.Util Model.Data Model.Rank Model.Utility Model.Heuristics Model.Electre
     Model.Pipeline Check.C04 Check.C01 Proofs.RankFacts Proofs.WfFacts.
Import ListNotations.
Local Open Scope string_scope.

Section C01.
  Context {N : Num} {L : OrdLaws N}.

  (** what the checker means: exactly the expected alternatives, links inside the result, never the
      entry's own alternative, never twice *)
  Theorem C01_checker_sound : forall expected obs, NoDup expected -> C01_ok expected obs = true ->
      Permutation (map eid obs) expected /\
      forall e, In e obs -> incl (e_links e) (map eid obs) /\ ~ In (eid e) (e_links e) /\ NoDup (e_links e).
  Proof. exact C01_ok_sound. Qed.

  (** each ranking builder produces a well-formed ranking for any evaluations and any tie pattern *)
  Theorem C01_utility_ranking : forall l, okl l -> NoDup (ids l) -> C01_ok (ids l) (ranking l) = true.
  Proof. exact ranking_wf. Qed.
  Theorem C01_sequential_ranking : forall l, NoDup (map (fun x => a_id (fst x)) l) ->
      C01_ok (map (fun x => a_id (fst x)) l) (sequential_ranking l) = true.
  Proof. exact sequential_ranking_wf. Qed.
  Theorem C01_majority_groups : forall groups, NoDup (map (fun x => a_id (fst x)) (List.concat groups)) ->
      C01_ok (map (fun x => a_id (fst x)) (List.concat groups)) (prepare_ranking groups) = true.
  Proof. exact prepare_ranking_wf. Qed.
  Theorem C01_electre_ranking : forall asc desc alts, NoDup (map a_id alts) ->
      List.length asc = List.length alts -> List.length desc = List.length alts ->
      C01_ok (map a_id alts) (evaluate_ranking asc desc alts) = true.
  Proof. exact evaluate_ranking_wf. Qed.

  (** the search order of the heuristics loses and duplicates nothing (current choice inside or outside) *)
  Theorem C01_search_order : forall s cur rnd g c rest g',
      search_order s cur rnd g = Ok (c, rest, g') -> NoDup (map a_id (st_cons s)) ->
      Permutation (map a_id (c :: rest))
                  (if negb (String.eqb cur "") && negb (mem_str cur (map a_id (st_cons s)))
                   then cur :: map a_id (st_cons s) else map a_id (st_cons s)).
  Proof. exact search_order_ids. Qed.

  (** the seven methods, on any state with pairwise distinct considered alternatives *)
  Theorem C01_majority : forall e s w cur seed rnd drawp r,
      st_params s = PMajority w cur seed rnd drawp -> NoDup (map a_id (st_cons s)) ->
      majority_evaluate e s = Ok r -> C01_ok (cur_ids cur (map a_id (st_cons s))) r = true.
  Proof. exact majority_evaluate_wf. Qed.
  Theorem C01_aspect : forall e s r, NoDup (map a_id (st_cons s)) -> aspect_evaluate e s = Ok r ->
      C01_ok (map a_id (st_cons s)) r = true.
  Proof. exact aspect_evaluate_wf. Qed.
  Theorem C01_satisfaction : forall e s fn lp seed cur rnd r,
      st_params s = PSatisf fn lp seed cur rnd -> NoDup (map a_id (st_cons s)) ->
      satisfaction_evaluate e s = Ok r -> C01_ok (cur_ids cur (map a_id (st_cons s))) r = true.
  Proof. exact satisfaction_evaluate_wf. Qed.
  Theorem C01_electre : forall s r, NoDup (map a_id (st_cons s)) -> electre_evaluate s = Ok r ->
      C01_ok (map a_id (st_cons s)) r = true.
  Proof. exact electre_evaluate_wf. Qed.
  Theorem C01_utility : forall s r, NoDup (map a_id (st_cons s)) ->
      (forall a v, In a (st_cons s) -> utility_value (st_params s) a = Ok v -> okv v) ->
      utility_evaluate s = Ok r -> C01_ok (map a_id (st_cons s)) r = true.
  Proof. exact utility_evaluate_wf. Qed.

  (** whole requests without enabled biases: the decision lists exactly [expected_ids] *)
  Theorem C01_decide_nobias : forall e req resp,
      filter (fun b => negb (b_disabled b)) (r_biases req) = [] -> NoDup (r_chose req) ->
      (forall st a v, prepare req = Ok st -> In a (st_cons st) -> utility_value (st_params st) a = Ok v -> okv v) ->
      decide e req = Ok resp -> C01_ok (expected_ids req) (resp_result resp) = true.
  Proof. exact decide_wf_nobias. Qed.
End C01.

Print Assumptions C01_checker_sound.
Print Assumptions C01_utility_ranking.
Print Assumptions C01_sequential_ranking.
Print Assumptions C01_majority_groups.
Print Assumptions C01_electre_ranking.
Print Assumptions C01_search_order.
Print Assumptions C01_majority.
Print Assumptions C01_aspect.
Print Assumptions C01_satisfaction.
Print Assumptions C01_electre.
Print Assumptions C01_utility.
Print Assumptions C01_decide_nobias.
