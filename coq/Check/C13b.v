(** * Second checker for C13: within one aspiration level the ranking follows the search order
    (current choice first, then the considered alternatives as listed). Decidable from the response
    alone when the order is not randomised. *)
From Coq Require Import ZArith Bool List String.
From RDM Require Import Base.Num Base.Util Model.Data Model.Heuristics Check.C04 Check.C13.
Import ListNotations.
Local Open Scope string_scope.

Section C13b.
  Context {N : Num}.

  Fixpoint pos_of (id : string) (l : list string) (i : nat) : nat :=
    match l with [] => i | x :: r => if String.eqb x id then i else pos_of id r (S i) end.

  Definition search_ids (st : state) (cur : string) : list string :=
    let ids := map a_id (st_cons st) in
    if String.eqb cur "" then ids else cur :: filter (fun x => negb (String.eqb x cur)) ids.

  Fixpoint order_ok (order : list string) (l : list entry) : bool :=
    match l with
    | [] => true
    | x :: r => match r with
                | [] => true
                | y :: _ => (negb (Z.eqb (s_idx x) (s_idx y)) || Nat.ltb (pos_of (eid x) order 0) (pos_of (eid y) order 0))
                            && order_ok order r
                end
    end.

  (* the search order: current choice first, then the considered alternatives as listed, or as shuffled by the stream of
     the request's seed *)
  Definition C13_order_ok (e : env) (st : state) (obs : list entry) : bool :=
    match st_params st with
    | PSatisf _ _ seed cur rnd =>
        match search_order st cur rnd (new_rng e seed) with
        | Ok (c, rest, _) => order_ok (map a_id (c :: rest)) obs
        | Err _ => false
        end
    | _ => false
    end.
End C13b.
