(** * Short constructors used by the generated case files (instance [NumF]). *)
From Coq Require Import ZArith Bool List String Floats.
From RDM Require Import Base.Num Base.NumF Base.Util Model.Data Model.Listeners Model.Biases Model.Pipeline.
Import ListNotations.

Definition mkA (id : string) (vals : list (string * float)) : @alt NumF :=
  {| a_id := id; a_vals := vals |}.
Definition mkC (id : string) (t : nat) (range : option (float * float)) : @crit NumF :=
  {| c_id := id; c_type := match t with O => TGain | S O => TCost | _ => TOther end; c_range := range |}.
Definition mkLF (a b : float) : @linfun NumF := {| lf_a := a; lf_b := b |}.
Definition mkEC (k : float) (q p v : @linfun NumF) : @ecrit NumF := {| ec_k := k; ec_q := q; ec_p := p; ec_v := v |}.
Definition mkLP (coef mx mn : float) (ths : list (list (string * float))) : @lparams NumF :=
  {| lp_coef := coef; lp_max := mx; lp_min := mn; lp_ths := ths |}.
Definition mkRP (w : option (list (string * float))) (el : option (list (string * @ecrit NumF)))
           (dist : option (@linfun NumF)) (cur : string) (seed : Z) (rnd : bool) (draw fn : string)
           (lp : @lparams NumF) : @rawparams NumF :=
  {| rp_weights := w; rp_electre := el; rp_dist := dist; rp_current := cur; rp_seed := seed;
     rp_random_order := rnd; rp_draw := draw; rp_function := fn; rp_lparams := lp |}.
Definition mkReq (m : string) (bs : list (@biasreq NumF)) (seed : Z) (known : list (@alt NumF))
           (chose : list string) (cs : list (@crit NumF)) (rp : @rawparams NumF) : @request NumF :=
  {| r_method := m; r_biases := bs; r_seed := seed; r_known := known; r_chose := chose; r_crits := cs; r_mp := rp |}.
Definition mkEnv (streams : list (Z * list float)) (exps : list (float * float)) : @env NumF :=
  {| env_streams := streams; env_exp := exps |}.

Definition mkE (a : @alt NumF) (ev : @evaluation NumF) (links : list string) : @entry NumF :=
  {| e_alt := a; e_eval := ev; e_links := links |}.
Definition EV (v : float) : @evaluation NumF := EValue v.
Definition EE (a d : Z) : @evaluation NumF := EElectre a d.
Definition EM (v : float) (cw : string) (cv : float) : @evaluation NumF := EMajority v cw cv.
Definition EA (th : list (string * float)) (i : Z) : @evaluation NumF := EAspect th i.
Definition ES (th : list (string * float)) (i : Z) : @evaluation NumF := ESatisf th i.

(** states and parsed parameters as dumped from the running code *)
Definition mkWC (c : @crit NumF) (w : float) : @wcrit NumF := (c, w).
Definition mkState (nc cs : list (@alt NumF)) (cr : list (@crit NumF)) (p : @mparams NumF) : @state NumF :=
  {| st_notcons := nc; st_cons := cs; st_crits := cr; st_params := p |}.
Definition P_ws (wc : list (@wcrit NumF)) : @mparams NumF := PWs wc.
Definition P_owa (wc : list (@wcrit NumF)) : @mparams NumF := POwa wc.
Definition P_choquet (w : list (string * float)) (cs : list (@crit NumF)) : @mparams NumF := PChoquet w cs.
Definition P_electre (ec : list (string * @ecrit NumF)) (d : @linfun NumF) : @mparams NumF := PElectre ec d.
Definition P_majority (w : list (string * float)) (cur : string) (seed : Z) (rnd : bool) (dr : string) : @mparams NumF :=
  PMajority w cur seed rnd dr.
Definition P_aspect (fn : string) (lp : @lparams NumF) (seed : Z) (w : list (string * float)) (rnd : bool) : @mparams NumF :=
  PAspect fn lp seed w rnd.
Definition P_satisf (fn : string) (lp : @lparams NumF) (seed : Z) (cur : string) (rnd : bool) : @mparams NumF :=
  PSatisf fn lp seed cur rnd.

(** bias requests *)
Definition mkAA (id : string) (k : float) : @anchor_alt NumF := {| aa_id := id; aa_coef := k |}.
Definition mkFP (name : string) (a b alpha mult : float) : @fparams NumF :=
  {| fp_name := name; fp_a := a; fp_b := b; fp_alpha := alpha; fp_mult := mult |}.
Definition mkBP (ordering : string) (ratio : float) (mn mx : Z) (seed : Z) (scaling : float) (nonneg : bool)
           (ref_type : string) (ref_imp : float) (ref_seed : Z) (new_scaling mix_ratio : float)
           (fat_fn : string) (fat_value fat_alpha fat_mult : float) (fat_query : Z)
           (anch : list (@anchor_alt NumF)) (loss gain : @fparams NumF) (refp applier : string) (notcons : bool)
  : @bprops NumF :=
  {| bp_ordering := ordering; bp_ratio := ratio; bp_min := mn; bp_max := mx; bp_seed := seed;
     bp_scaling := scaling; bp_nonneg := nonneg; bp_ref_type := ref_type; bp_ref_importance := ref_imp;
     bp_ref_seed := ref_seed; bp_new_scaling := new_scaling; bp_mix_ratio := mix_ratio;
     bp_fat_function := fat_fn; bp_fat_value := fat_value; bp_fat_alpha := fat_alpha; bp_fat_mult := fat_mult;
     bp_fat_query := fat_query; bp_anch_alts := anch; bp_anch_loss := loss; bp_anch_gain := gain;
     bp_anch_ref := refp; bp_anch_applier := applier; bp_anch_not_considered := notcons |}.
Definition mkB (name : string) (disabled : bool) (prob : float) (p : @bprops NumF) : @biasreq NumF :=
  {| b_name := name; b_disabled := disabled; b_prob := prob; b_props := p |}.

(** observed reports *)
Definition R_none : @report NumF := RNone.
Definition R_omission (l : list (@crit NumF)) : @report NumF := ROmission l.
Definition R_reversal (l : list (@crit NumF * (float * float) * list (string * float))) : @report NumF := RReversal l.
Definition R_fatigue (f : float) (c n : list (@alt NumF)) : @report NumF := RFatigue f c n.
Definition R_concealment (c : @crit NumF) (v : list (string * float)) (a : @addition NumF) : @report NumF := RConcealment c v a.
Definition mkCP (id : string) (t : nat) (v : list (string * float)) : @component NumF :=
  {| cp_id := id; cp_type := match t with O => TGain | S O => TCost | _ => TOther end; cp_values := v |}.
Definition R_mixing (a b c : @component NumF) (ad : @addition NumF) : @report NumF := RMixing a b c ad.
Definition R_anchoring (refs : list (@alt NumF)) (sc : list (string * (float * (float * float))))
           (d : list (@alt NumF * list (string * list (string * float)))) (ar : @applier_report NumF) : @report NumF :=
  RAnchoring refs sc d ar.
Definition AR_inline (l : list (@alt NumF)) : @applier_report NumF := ARInline l.
Definition AR_new (r : @crit NumF) (l : list (@crit NumF * list (string * float) * @addition NumF)) : @applier_report NumF := ARNew r l.
Definition A_weight (id : string) (w : float) : @addition NumF := AWeight (mkC id 0 None) w.
Definition A_electre (id : string) (ec : @ecrit NumF) : @addition NumF := AElectre id ec.
Definition A_aspect (id : string) (w : float) (t : option (list float)) : @addition NumF := AAspect id w t.
Definition A_satisf (id : string) (t : option (list float)) : @addition NumF := ASatisf id t.
Definition A_unknown : @addition NumF := AUnknown.
