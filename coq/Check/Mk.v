(** * Short constructors used by the generated case files (instance [NumF]). *)
From Coq Require Import ZArith Bool List String Floats.
From RDM Require Import Base.Num Base.NumF Base.Util Model.Data Model.Pipeline.
Import ListNotations.

Definition mkA (id : string) (vals : list (string * float)) : @alt NumF :=
  {| a_id := id; a_vals := vals |}.
Definition mkC (id : string) (t : nat) (range : option (float * float)) : @crit NumF :=
  {| c_id := id; c_type := match t with O => TGain | S O => TCost | _ => TOther end; c_range := range |}.
Definition mkLF (a b : float) : @linfun NumF := {| lf_a := a; lf_b := b |}.
Definition mkEC (k : float) (q p v : @linfun NumF) : @ecrit NumF := {| ec_k := k; ec_q := q; ec_p := p; ec_v := v |}.
Definition mkLP (coef mx mn : float) (ths : list (list (string * float))) : @lparams NumF :=
  {| lp_coef := coef; lp_max := mx; lp_min := mn; lp_ths := ths |}.
Definition mkRP (w : option (list (string * float))) (el : option (list (string * @ecrit NumF)))
           (dist : option (@linfun NumF)) (cur : string) (seed : Z) (rnd : bool) (draw fn : string)
           (lp : @lparams NumF) : @rawparams NumF :=
  {| rp_weights := w; rp_electre := el; rp_dist := dist; rp_current := cur; rp_seed := seed;
     rp_random_order := rnd; rp_draw := draw; rp_function := fn; rp_lparams := lp |}.
Definition mkReq (m : string) (bs : list (@biasreq NumF)) (seed : Z) (known : list (@alt NumF))
           (chose : list string) (cs : list (@crit NumF)) (rp : @rawparams NumF) : @request NumF :=
  {| r_method := m; r_biases := bs; r_seed := seed; r_known := known; r_chose := chose; r_crits := cs; r_mp := rp |}.
Definition mkEnv (streams : list (Z * list float)) (exps : list (float * float)) : @env NumF :=
  {| env_streams := streams; env_exp := exps |}.

Definition mkE (a : @alt NumF) (ev : @evaluation NumF) (links : list string) : @entry NumF :=
  {| e_alt := a; e_eval := ev; e_links := links |}.
Definition EV (v : float) : @evaluation NumF := EValue v.
Definition EE (a d : Z) : @evaluation NumF := EElectre a d.
Definition EM (v : float) (cw : string) (cv : float) : @evaluation NumF := EMajority v cw cv.
Definition EA (th : list (string * float)) (i : Z) : @evaluation NumF := EAspect th i.
Definition ES (th : list (string * float)) (i : Z) : @evaluation NumF := ESatisf th i.

(** states and parsed parameters as dumped from the running code *)
Definition mkWC (c : @crit NumF) (w : float) : @wcrit NumF := (c, w).
Definition mkState (nc cs : list (@alt NumF)) (cr : list (@crit NumF)) (p : @mparams NumF) : @state NumF :=
  {| st_notcons := nc; st_cons := cs; st_crits := cr; st_params := p |}.
Definition P_ws (wc : list (@wcrit NumF)) : @mparams NumF := PWs wc.
Definition P_owa (wc : list (@wcrit NumF)) : @mparams NumF := POwa wc.
Definition P_choquet (w : list (string * float)) (cs : list (@crit NumF)) : @mparams NumF := PChoquet w cs.
Definition P_electre (ec : list (string * @ecrit NumF)) (d : @linfun NumF) : @mparams NumF := PElectre ec d.
Definition P_majority (w : list (string * float)) (cur : string) (seed : Z) (rnd : bool) (dr : string) : @mparams NumF :=
  PMajority w cur seed rnd dr.
Definition P_aspect (fn : string) (lp : @lparams NumF) (seed : Z) (w : list (string * float)) (rnd : bool) : @mparams NumF :=
  PAspect fn lp seed w rnd.
Definition P_satisf (fn : string) (lp : @lparams NumF) (seed : Z) (cur : string) (rnd : bool) : @mparams NumF :=
  PSatisf fn lp seed cur rnd.
