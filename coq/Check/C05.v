(** * Checker for C05: indices and links recomputed from the entries' own criteria values and the
    final parameters by the executable definition of the two distillations. *)
From Coq Require Import ZArith Bool List String.
From RDM Require Import Base.Num Base.Util Model.Data Model.Electre Check.C04.
Import ListNotations.

Section C05.
  Context {N : Num}.

  Definition asc_of (e : entry) : Z := match e_eval e with EElectre a _ => a | _ => 0%Z end.
  Definition desc_of (e : entry) : Z := match e_eval e with EElectre _ d => d | _ => 0%Z end.

  (* class numbers are exactly 1..K *)
  Definition consecutive (l : list Z) : bool :=
    match l with
    | [] => true
    | _ => let mx := fold_left Z.max l 0%Z in
           forallb (fun x => (1 <=? x)%Z) l
           && forallb (fun k => existsb (Z.eqb k) l) (seqZ 1 (Z.to_nat mx))
    end.

  (* b in links a  <->  a <> b, asc a <= asc b, desc a <= desc b ; in result order *)
  Definition links_by_indices (obs : list entry) (e : entry) : list string :=
    map eid (filter (fun x => negb (String.eqb (eid x) (eid e)) && (asc_of e <=? asc_of x)%Z && (desc_of e <=? desc_of x)%Z) obs).

  Definition C05_struct_ok (obs : list entry) : bool :=
    forallb (fun e => match e_eval e with EElectre _ _ => true | _ => false end) obs
    && consecutive (map asc_of obs) && consecutive (map desc_of obs)
    && forallb (fun e => list_eqb String.eqb (e_links e) (links_by_indices obs e)) obs.

  (* recomputation from the final state *)
  Definition C05_ok (st : state) (obs : list entry) : bool :=
    C05_struct_ok obs &&
    match st_params st with
    | PElectre ecs f =>
        match cred_matrix (map e_alt obs) (st_crits st) ecs with
        | Ok m => match rank_ascending m f, rank_descending m f with
                  | Ok a, Ok d => list_eqb Z.eqb a (map asc_of obs) && list_eqb Z.eqb d (map desc_of obs)
                  | _, _ => false
                  end
        | Err _ => false
        end
    | _ => false
    end.
End C05.
