(** * Checker for C14: a generated series of aspiration levels, as returned by the implementation. *)
From Coq Require Import ZArith Bool List String.
From RDM Require Import Base.Num Base.Util Model.Data Model.Levels.
Import ListNotations.
Local Open Scope string_scope.

Section C14.
  Context {N : Num}.

  Definition generated (d : direction) (fn : string) : option series :=
    if String.eqb fn lv_mul then Some SMul
    else if String.eqb fn (match d with Increasing => lv_additive | Decreasing => lv_subtractive end) then Some SAdd
    else None.

  (* the threshold of criterion c at ratio r *)
  Definition threshold_at (c : crit) (r : num * num) (ratio : num) : num :=
    if is_cost c then nsub (snd r) (nmul (range_diff r) ratio) else nadd (fst r) (nmul (range_diff r) ratio).

  (* expected ratios: start value, then the documented update while the continuation test holds *)
  Fixpoint ratios (fuel : nat) (d : direction) (s : series) (lp : lparams) (cur : num) : list num :=
    match fuel with
    | O => []
    | S f => if has_next d lp cur then cur :: ratios f d s lp (update_value d s cur (lp_coef lp)) else []
    end.

  Fixpoint strictly (lt : num -> num -> bool) (l : list num) : bool :=
    match l with
    | [] => true
    | x :: r => match r with [] => true | y :: _ => lt x y && strictly lt r end
    end.

  Definition C14_ok (d : direction) (fn : string) (lp : lparams) (st : state) (levels : list (smap num)) : bool :=
    match generated d fn with
    | None => true
    | Some s =>
        validate_coef d lp &&
        let rs := ratios (S (List.length levels)) d s lp (initial_value d lp) in
        (* as many levels as ratios below (above) the bound, strictly monotone ratios inside [0,1] *)
        Nat.eqb (List.length rs) (List.length levels)
        && strictly (match d with Increasing => nltb | Decreasing => fun a b => nltb b a end) rs
        && forallb (fun r => nleb nzero r && nleb r none) rs
        && forallb (fun c =>
                      match values_range (all_alts st) c with
                      | Ok rg =>
                          (* every level places the criterion at min + r x range (gain) / max - r x range (cost) *)
                          list_eqb (fun t r => match mget (c_id c) t with
                                               | Some v => approx8 v (threshold_at c rg r)
                                               | None => false
                                               end) levels rs
                          (* and the thresholds move strictly in the documented direction on a non-degenerate range *)
                          && (negb (nltb (fst rg) (snd rg)) ||
                              let vs := map (fun t => match mget (c_id c) t with Some v => v | None => nzero end) levels in
                              let up := match d with Increasing => negb (is_cost c) | Decreasing => is_cost c end in
                              strictly (if up then nltb else fun a b => nltb b a) vs)
                      | Err _ => false
                      end) (st_crits st)
        && forallb (fun t => Nat.eqb (List.length t) (List.length (st_crits st))) levels
    end.

  (* correspondence: 0 agree, 1 model rejects / code accepts, 2 model accepts / code rejects, 3 series differ, 12 fuel *)
  Definition levels_agree (d : direction) (fn : string) (lp : lparams) (st : state) (obs : option (list (smap num))) : nat :=
    match lv_init d fn lp st with
    | Err _ => match obs with None => 0 | Some _ => 1 end
    | Ok src =>
        match obs with
        | None => 2
        | Some l => match lv_all (S (S (List.length l))) src with
                    | Ok ml => if list_eqb smap_same ml l then 0 else 3
                    | Err _ => 3
                    end
        end
    end.
End C14.
