(** * Checker for C06 on one response: dominance and equality between the returned alternatives. *)
From Coq Require Import ZArith Bool List String.
From RDM Require Import Base.Num Base.Util Model.Data Model.Electre Check.C04 Check.C05.
Import ListNotations.

Section C06.
  Context {N : Num}.

  (* a is at least as good as b on every criterion (signed values) *)
  Definition dominates (cs : list crit) (a b : alt) : bool :=
    forallb (fun c => match mget (c_id c) (a_vals a), mget (c_id c) (a_vals b) with
                      | Some va, Some vb => nleb (sgn c vb) (sgn c va)
                      | _, _ => false
                      end) cs.

  Definition pair_ok (cs : list crit) (ea eb : entry) : bool :=
    if String.eqb (eid ea) (eid eb) then true
    else if dominates cs (e_alt ea) (e_alt eb) then
      (* b is never in a better class than a, and a lists b *)
      (asc_of ea <=? asc_of eb)%Z && (desc_of ea <=? desc_of eb)%Z && mem_str (eid eb) (e_links ea)
    else true.

  Definition C06_ok (st : state) (obs : list entry) : bool :=
    forallb (fun ea => forallb (fun eb => pair_ok (st_crits st) ea eb) obs) obs.
End C06.
