(** * Checker for C12 (aspect elimination), on the returned entries and the final state.
    Claimed for pairwise distinct criterion weights (ties are broken by the seeded generator inside
    an unstable sort; then only the order-free clauses are checked). *)
From Coq Require Import ZArith Bool List String.
From RDM Require Import Base.Num Base.Util Model.Data Model.Utility Model.Levels Model.Heuristics Check.C04.
Import ListNotations.
Local Open Scope string_scope.

Section C12.
  Context {N : Num}.

  Definition a_idx (e : entry) : Z := match e_eval e with EAspect _ i => i | _ => (-1)%Z end.
  Definition a_ths (e : entry) : smap num := match e_eval e with EAspect t _ => t | _ => [] end.
  Definition is_survivor (e : entry) : bool := match a_ths e with [] => true | _ => false end.

  (* a fails the check (level t, criterion c): value worse than the threshold *)
  Definition fails (a : alt) (t : smap num) (c : crit) : bool :=
    match mget (c_id c) (a_vals a), mget (c_id c) t with
    | Some v, Some th => nltb (sgn c v) (sgn c th)
    | _, _ => false
    end.

  Fixpoint position (id : string) (cs : list wcrit) (i : nat) : option nat :=
    match cs with [] => None | c :: r => if String.eqb (c_id (fst c)) id then Some i else position id r (S i) end.

  Definition distinct_weights (cs : list wcrit) : bool :=
    let ws := map snd cs in
    forallb (fun p => Nat.eqb (fst p) (snd p) || negb (neqb (nth (fst p) ws nzero) (nth (snd p) ws nzero)))
            (list_prod (seq 0 (List.length ws)) (seq 0 (List.length ws))).

  (* the check (level index, criterion position in walk order) an eliminated entry reports *)
  Definition check_of (cs : list wcrit) (e : entry) : option (Z * nat) :=
    match a_ths e with
    | [(cid, _)] => match position cid cs 0 with Some p => Some (a_idx e, p) | None => None end
    | _ => None
    end.
  Definition check_leb (x y : Z * nat) : bool :=
    (fst x <? fst y)%Z || (Z.eqb (fst x) (fst y) && Nat.leb (snd x) (snd y)).

  Definition eliminated_ok (cs : list wcrit) (levels : list (smap num)) (distinct : bool) (e : entry) : bool :=
    match a_ths e, nth_opt (Z.to_nat (a_idx e)) levels with
    | [(cid, th)], Some lv =>
        (0 <=? a_idx e)%Z
        && match find (fun c => String.eqb (c_id (fst c)) cid) cs, mget cid lv with
           | Some c, Some lth =>
               nsame th lth                                   (* reports the threshold of that level *)
               && fails (e_alt e) lv (fst c)                  (* really fails it *)
               && forallb (fun lv' => forallb (fun c' => negb (fails (e_alt e) lv' (fst c'))) cs)
                          (firstn (Z.to_nat (a_idx e)) levels)  (* passed every earlier level *)
               && (negb distinct ||
                   match position cid cs 0 with
                   | Some p => forallb (fun c' => negb (fails (e_alt e) lv (fst c'))) (firstn p cs)
                   | None => false
                   end)                                       (* and the heavier criteria of this level *)
           | _, _ => false
           end
    | _, _ => false
    end.

  Fixpoint rev_order_ok (cs : list wcrit) (l : list entry) : bool :=
    match l with
    | [] => true
    | x :: r => match r with
                | [] => true
                | y :: _ => match check_of cs x, check_of cs y with
                            | Some cx, Some cy => check_leb cy cx && rev_order_ok cs r
                            | _, _ => false
                            end
                end
    end.

  Definition passes_all (cs : list wcrit) (levels : list (smap num)) (a : alt) : bool :=
    forallb (fun lv => forallb (fun c => negb (fails a lv (fst c))) cs) levels.

  Definition C12_ok (st : state) (obs : list entry) : bool :=
    match st_params st with
    | PAspect fn lp _ w _ =>
        match lv_init Increasing fn lp st, zip_with_weights (st_crits st) w with
        | Ok src, Ok cw =>
            let cs := isort wc_gt cw in
            let distinct := distinct_weights cs in
            let survivors := filter is_survivor obs in
            let eliminated := filter (fun e => negb (is_survivor e)) obs in
            match survivors with
            | [] => match obs with [] => true | _ => false end     (* somebody always survives *)
            | s0 :: _ =>
                let ns := Z.to_nat (a_idx s0) in
                let levels := lv_prefix ns src in
                (0 <=? a_idx s0)%Z
                (* survivors first, all with the index after the last level used *)
                && list_eqb (fun a b => String.eqb (eid a) (eid b)) obs (survivors ++ eliminated)
                && forallb (fun s => Z.eqb (a_idx s) (a_idx s0)) survivors
                && forallb (fun e => (a_idx e <? a_idx s0)%Z) eliminated
                && Nat.eqb (List.length levels) ns
                (* each eliminated entry reports the check it really failed, having passed the earlier ones *)
                && forallb (eliminated_ok cs levels distinct) eliminated
                (* reverse order of elimination *)
                && (negb distinct || rev_order_ok cs eliminated)
                (* stop as soon as one is left: several survivors only when the levels ran out *)
                && (if Nat.leb (List.length survivors) 1
                    then (match eliminated with
                          | [] => true
                          | _ => Z.eqb (fold_left Z.max (map a_idx eliminated) (-1)%Z + 1) (a_idx s0)
                          end)
                         && passes_all cs (firstn (ns - 1) levels) (e_alt s0)
                    else Nat.eqb (List.length (lv_prefix (S ns) src)) ns
                         && forallb (fun s => passes_all cs levels (e_alt s)) survivors)
            end
        | _, _ => false
        end
    | _ => false
    end.
End C12.
