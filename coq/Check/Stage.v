(** * Per-stage correspondence and invariants of one bias application (C07, C09 and the tie for
    C15-C19): the model's [apply_bias] is run on the state the real bias received, and compared
    with the state and the report the real bias produced. *)
From Coq Require Import ZArith Bool List String.
From RDM Require Import Base.Num Base.Util Model.Data Model.Utility Model.Levels Model.Heuristics Model.Listeners
     Model.Biases Model.Anchoring.
Import ListNotations.
Local Open Scope string_scope.
Local Open Scope list_scope.

Section Stage.
  Context {N : Num}.

  Definition num_list_same (a b : list num) : bool := list_eqb nsame a b.
  Definition wcrit_same (a b : wcrit) : bool := crit_same (fst a) (fst b) && nsame (snd a) (snd b).
  Definition linfun_same (a b : linfun) : bool := nsame (lf_a a) (lf_a b) && nsame (lf_b a) (lf_b b).
  Definition ecrit_same (a b : ecrit) : bool :=
    nsame (ec_k a) (ec_k b) && linfun_same (ec_q a) (ec_q b) && linfun_same (ec_p a) (ec_p b) && linfun_same (ec_v a) (ec_v b).
  Definition lparams_same (a b : lparams) : bool :=
    nsame (lp_coef a) (lp_coef b) && nsame (lp_max a) (lp_max b) && nsame (lp_min a) (lp_min b)
    && list_eqb smap_same (lp_ths a) (lp_ths b).
  Definition params_same (a b : mparams) : bool :=
    match a, b with
    | PWs x, PWs y => list_eqb wcrit_same x y
    | POwa x, POwa y => list_eqb wcrit_same x y
    | PChoquet w1 c1, PChoquet w2 c2 => smap_same w1 w2 && list_eqb crit_same c1 c2
    | PElectre e1 f1, PElectre e2 f2 =>
        list_eqb (fun x y => String.eqb (fst x) (fst y) && ecrit_same (snd x) (snd y)) e1 e2 && linfun_same f1 f2
    | PMajority w1 c1 s1 r1 d1, PMajority w2 c2 s2 r2 d2 =>
        smap_same w1 w2 && String.eqb c1 c2 && Z.eqb s1 s2 && Bool.eqb r1 r2 && String.eqb d1 d2
    | PAspect f1 l1 s1 w1 r1, PAspect f2 l2 s2 w2 r2 =>
        String.eqb f1 f2 && lparams_same l1 l2 && Z.eqb s1 s2 && smap_same w1 w2 && Bool.eqb r1 r2
    | PSatisf f1 l1 s1 c1 r1, PSatisf f2 l2 s2 c2 r2 =>
        String.eqb f1 f2 && lparams_same l1 l2 && Z.eqb s1 s2 && String.eqb c1 c2 && Bool.eqb r1 r2
    | _, _ => false
    end.
  Definition state_same (a b : state) : bool :=
    list_eqb alt_same (st_cons a) (st_cons b) && list_eqb alt_same (st_notcons a) (st_notcons b)
    && list_eqb crit_same (st_crits a) (st_crits b) && params_same (st_params a) (st_params b).

  Definition addition_same (m o : addition) : bool :=
    match m, o with
    | _, AUnknown => true
    | AWeight c1 w1, AWeight c2 w2 => String.eqb (c_id c1) (c_id c2) && nsame w1 w2
    | AElectre i1 e1, AElectre i2 e2 => String.eqb i1 i2 && ecrit_same e1 e2
    | AAspect i1 w1 t1, AAspect i2 w2 t2 => String.eqb i1 i2 && nsame w1 w2 && option_eqb num_list_same t1 t2
    | ASatisf i1 t1, ASatisf i2 t2 => String.eqb i1 i2 && option_eqb num_list_same t1 t2
    | _, _ => false
    end.
  Definition component_same (a b : component) : bool :=
    String.eqb (cp_id a) (cp_id b) && ctype_eqb (cp_type a) (cp_type b) && smap_same (cp_values a) (cp_values b).
  Definition pair_same (a b : num * num) : bool := nsame (fst a) (fst b) && nsame (snd a) (snd b).
  (* the report of the new-criterion applier carries the range observed over the produced values;
     it is compared through the values *)
  Definition applier_same (m o : applier_report) : bool :=
    match m, o with
    | ARInline a, ARInline b => list_eqb alt_same a b
    | ARNew r1 l1, ARNew r2 l2 =>
        String.eqb (c_id r1) (c_id r2)
        && list_eqb (fun x y => String.eqb (c_id (fst (fst x))) (c_id (fst (fst y)))
                                && ctype_eqb (c_type (fst (fst x))) (c_type (fst (fst y)))
                                && smap_same (snd (fst x)) (snd (fst y)) && addition_same (snd x) (snd y)) l1 l2
    | _, _ => false
    end.
  Definition report_same (m o : report) : bool :=
    match m, o with
    | RNone, RNone => true
    | ROmission a, ROmission b => list_eqb crit_same a b
    | RReversal a, RReversal b =>
        list_eqb (fun x y => String.eqb (c_id (fst (fst x))) (c_id (fst (fst y)))
                             && ctype_eqb (c_type (fst (fst x))) (c_type (fst (fst y)))
                             && pair_same (snd (fst x)) (snd (fst y)) && smap_same (snd x) (snd y)) a b
    | RFatigue f1 c1 n1, RFatigue f2 c2 n2 => nsame f1 f2 && list_eqb alt_same c1 c2 && list_eqb alt_same n1 n2
    | RConcealment c1 v1 a1, RConcealment c2 v2 a2 => crit_same c1 c2 && smap_same v1 v2 && addition_same a1 a2
    | RMixing x1 y1 z1 a1, RMixing x2 y2 z2 a2 =>
        component_same x1 x2 && component_same y1 y2 && component_same z1 z2 && addition_same a1 a2
    | RAnchoring r1 s1 d1 a1, RAnchoring r2 s2 d2 a2 =>
        list_eqb alt_same r1 r2
        && list_eqb (fun x y => String.eqb (fst x) (fst y) && nsame (fst (snd x)) (fst (snd y)) && pair_same (snd (snd x)) (snd (snd y))) s1 s2
        && list_eqb (fun x y => alt_same (fst x) (fst y)
                                && list_eqb (fun p q => String.eqb (fst p) (fst q) && smap_same (snd p) (snd q)) (snd x) (snd y)) d1 d2
        && applier_same a1 a2
    | _, _ => false
    end.

  (** ** invariants of the working data (C07) *)
  Definition covers_weights (w : smap num) (cs : list crit) : bool := forallb (fun c => mhas (c_id c) w) cs.
  Definition params_cover (p : mparams) (cs : list crit) : bool :=
    match p with
    | PWs wc | POwa wc => Nat.eqb (List.length wc) (List.length cs)
                          && forallb (fun c => existsb (fun x => String.eqb (c_id (fst x)) (c_id c)) wc) cs
    | PChoquet w _ => forallb (fun s => mhas (criterion_key s) w) (power_set (map c_id cs))
    | PElectre ecs _ => forallb (fun c => mhas (c_id c) ecs) cs
    | PMajority w _ _ _ _ => covers_weights w cs
    | PAspect fn lp _ w _ => covers_weights w cs && forallb (fun t => covers_weights t cs) (lp_ths lp)
    | PSatisf fn lp _ _ _ => forallb (fun t => covers_weights t cs) (lp_ths lp)
    end.
  Definition inv (s : state) : bool :=
    forallb (fun a => forallb (fun c => mhas (c_id c) (a_vals a)) (st_crits s)) (all_alts s)
    && params_cover (st_params s) (st_crits s)
    && nodup_str (map c_id (st_crits s)).
  Definition same_split (a b : state) : bool :=
    list_eqb String.eqb (map a_id (st_cons a)) (map a_id (st_cons b))
    && list_eqb String.eqb (map a_id (st_notcons a)) (map a_id (st_notcons b)).

  (* values of the criteria in [cs] are the same in both states, alternative by alternative *)
  Definition values_kept (cs : list crit) (a b : state) : bool :=
    list_eqb (fun x y => forallb (fun c => option_eqb nsame (mget (c_id c) (a_vals x)) (mget (c_id c) (a_vals y))) cs)
             (all_alts a) (all_alts b).
  Definition crit_ids (s : state) : list string := map c_id (st_crits s).
  Definition is_prefix_crits (a b : list crit) : bool :=
    list_eqb crit_same a (firstn (List.length a) b).

  (* frame condition of one stage: what a bias may change *)
  Definition frame_ok (name : string) (p : bprops) (before after : state) : bool :=
    same_split before after &&
    (if String.eqb name b_omission then
       forallb (fun c => existsb (crit_same c) (st_crits before)) (st_crits after)
       && values_kept (st_crits after) before after
     else if String.eqb name b_reversal then
       list_eqb crit_same (st_crits before) (st_crits after) && params_same (st_params before) (st_params after)
     else if String.eqb name b_fatigue then
       list_eqb crit_same (st_crits before) (st_crits after) && params_same (st_params before) (st_params after)
     else if String.eqb name b_concealment || String.eqb name b_mixing then
       (state_same before after   (* mixing with fewer than two criteria *)
        || (Nat.eqb (List.length (st_crits after)) (S (List.length (st_crits before)))
            && is_prefix_crits (st_crits before) (st_crits after)
            && values_kept (st_crits before) before after))
     else if String.eqb name b_anchoring then
       is_prefix_crits (st_crits before) (st_crits after)
       && (if String.eqb (bp_anch_applier p) ap_inline
           then list_eqb crit_same (st_crits before) (st_crits after) && params_same (st_params before) (st_params after)
                && (bp_anch_not_considered p || list_eqb alt_same (st_notcons before) (st_notcons after))
           else values_kept (st_crits before) before after)
     else false).

  (* C07, "criteria disappear or appear only as the bias reports them": the criteria after a bias are exactly the criteria
     before it minus the ones the report lists as omitted, plus the ones it lists as added (as sets of ids; an omission
     hands the kept criteria on in the order of its ranking) *)
  Definition same_id_set (l1 l2 : list string) : bool :=
    Nat.eqb (List.length l1) (List.length l2) && nodup_str l1 && nodup_str l2
    && forallb (fun i => mem_str i l2) l1.
  Definition crits_as_reported (before after : state) (rep : report) : bool :=
    let ids := fun (s : state) => map c_id (st_crits s) in
    match rep with
    | ROmission omitted =>
        forallb (fun i => mem_str i (ids before)) (map c_id omitted)
        && same_id_set (ids after) (filter (fun i => negb (mem_str i (map c_id omitted))) (ids before))
    | RConcealment c _ _ => same_id_set (ids after) (ids before ++ [c_id c])
    | RMixing _ _ cn _ => same_id_set (ids after) (ids before ++ [cp_id cn])
    | RAnchoring _ _ _ (ARNew _ added) => same_id_set (ids after) (ids before ++ map (fun x => c_id (fst (fst x))) added)
    | _ => same_id_set (ids after) (ids before)
    end.
End Stage.
