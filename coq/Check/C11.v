(** * Checker for C11 (majority heuristic = sequential pairwise tournament), evaluated on the
    entries returned by the implementation and the final (post-bias) state. *)
From Coq Require Import ZArith Bool List String.
From RDM Require Import Base.Num Base.Util Model.Data Model.Utility Model.Heuristics Check.C04.
Import ListNotations.
Local Open Scope string_scope.

Section C11.
  Context {N : Num}.

  Definition m_value (e : entry) : num := match e_eval e with EMajority v _ _ => v | _ => nzero end.
  Definition m_with (e : entry) : string := match e_eval e with EMajority _ c _ => c | _ => "" end.
  Definition m_other (e : entry) : num := match e_eval e with EMajority _ _ w => w | _ => nzero end.

  Fixpoint index_of (id : string) (l : list entry) (i : nat) : option nat :=
    match l with [] => None | e :: r => if String.eqb (eid e) id then Some i else index_of id r (S i) end.
  Definition find_entry (id : string) (l : list entry) : option entry :=
    find (fun e => String.eqb (eid e) id) l.

  (* total weight of the criteria on which a1 is strictly (by more than 1e-6) better, and vice versa *)
  Definition scores (cw : list wcrit) (a1 a2 : alt) : res (num * num) := compare_alts cw a1 a2.

  Definition check_entry (cw : list wcrit) (obs : list entry) (i : nat) (e : entry) : bool :=
    match e_eval e with
    | EMajority v cw_id cv =>
        if String.eqb cw_id "" then
          (* only the undefeated alternative, ranked first, has no opponent *)
          Nat.eqb i 0
        else
          match find_entry cw_id obs, index_of cw_id obs 0 with
          | Some o, Some j =>
              negb (String.eqb cw_id (eid e))
              && match scores cw (e_alt e) (e_alt o) with
                 | Ok (se, so) => nsame v se && nsame cv so
                 | Err _ => false
                 end
              && nleb v (nadd cv c_eps6)                (* did not score higher than the opponent *)
              && (Nat.ltb j i                           (* ranked below it ... *)
                  || (mem_str cw_id (e_links e) && mem_str (eid e) (e_links o)))   (* ... or in its tie group *)
          | _, _ => false
          end
    | _ => false
    end.

  Fixpoint check_entries (cw : list wcrit) (obs : list entry) (i : nat) (l : list entry) : bool :=
    match l with [] => true | e :: r => check_entry cw obs i e && check_entries cw obs (S i) r end.

  Definition C11_ok (st : state) (obs : list entry) : bool :=
    match st_params st with
    | PMajority w _ _ _ _ =>
        match zip_with_weights (st_crits st) w with
        | Ok cw =>
            match obs with
            | [] => false
            | first :: _ => String.eqb (m_with first) "" && check_entries cw obs 0 obs
            end
        | Err _ => false
        end
    | _ => false
    end.
End C11.
