(** * Boolean checker for C04 on an observed ranking (the list the implementation returned). *)
From Coq Require Import ZArith Bool List String.
From RDM Require Import Base.Num Base.Util Model.Data Model.Rank.
Import ListNotations.

Section C04.
  Context {N : Num}.

  Definition ev_value (e : entry) : option num :=
    match e_eval e with EValue v => Some v | _ => None end.
  Definition val (e : entry) : num := match e_eval e with EValue v => v | _ => nzero end.
  Definition eid (e : entry) : string := a_id (e_alt e).

  (* e1 must be listed before e2: higher value, or equal value and smaller id *)
  Definition before (e1 e2 : entry) : bool :=
    nltb (val e2) (val e1) || (neqb (val e1) (val e2) && String.ltb (eid e1) (eid e2)).

  Fixpoint sorted_by (lt : entry -> entry -> bool) (l : list entry) : bool :=
    match l with
    | [] => true
    | x :: r => match r with [] => true | y :: _ => lt x y && sorted_by lt r end
    end.

  (* r is linked from e: same value and another alternative, or r holds the next lower distinct
     value (lower than e, and nothing lies strictly between) *)
  Definition is_link (all : list entry) (e r : entry) : bool :=
    (neqb (val r) (val e) && negb (String.eqb (eid r) (eid e)))
    || (nltb (val r) (val e)
        && forallb (fun s => negb (nltb (val s) (val e)) || nleb (val s) (val r)) all).

  Definition links_spec (all : list entry) (e : entry) : list string :=
    map eid (filter (is_link all e) all).

  Definition C04_ok (obs : list entry) : bool :=
    forallb (fun e => match ev_value e with Some _ => true | None => false end) obs
    && sorted_by before obs
    && forallb (fun e => list_eqb String.eqb (e_links e) (links_spec obs e)) obs.
End C04.
