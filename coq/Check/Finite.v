(** * Finite-number test (GENERATED from Check/Close.v by renaming [_close] to [_fin] and [fclose] to [ffin2]): [X_fin x x]
    holds iff every float inside [x] is a number (neither NaN nor an infinity); the structural parts compare a value with itself.
    Used only by the judges: the service's JSON encoder refuses NaN / Inf, and the properties speak about numbers, so a result
    in which the binary64 model itself leaves the finite range (exp overflow) is counted and not judged. *)
From Coq Require Import ZArith Bool List String Floats.
From RDM Require Import Base.Num Base.NumF Base.Util Model.Data Model.Listeners Model.Biases Model.Anchoring.
Import ListNotations.
Local Open Scope string_scope.
Local Open Scope list_scope.

Definition ffinite (a : float) : bool := PrimFloat.ltb (PrimFloat.abs a) infinity.
Definition ffin2 (a b : float) : bool := ffinite a && ffinite b.

Section Finite.
  Local Existing Instance NumF.
  Let N := NumF.
  Definition smap_fin (a b : smap num) : bool :=
    list_eqb (fun x y => String.eqb (fst x) (fst y) && ffin2 (snd x) (snd y)) a b.
  Definition alt_fin (a b : alt) : bool := String.eqb (a_id a) (a_id b) && smap_fin (a_vals a) (a_vals b).
  Definition range_fin (a b : option (num * num)) : bool :=
    option_eqb (fun x y => ffin2 (fst x) (fst y) && ffin2 (snd x) (snd y)) a b.
  Definition crit_fin (a b : crit) : bool :=
    String.eqb (c_id a) (c_id b) && ctype_eqb (c_type a) (c_type b) && range_fin (c_range a) (c_range b).
  Definition eval_fin (a b : evaluation) : bool :=
    match a, b with
    | EValue x, EValue y => ffin2 x y
    | EElectre a1 d1, EElectre a2 d2 => Z.eqb a1 a2 && Z.eqb d1 d2
    | EMajority v1 c1 w1, EMajority v2 c2 w2 => ffin2 v1 v2 && String.eqb c1 c2 && ffin2 w1 w2
    | EAspect t1 i1, EAspect t2 i2 => smap_fin t1 t2 && Z.eqb i1 i2
    | ESatisf t1 i1, ESatisf t2 i2 => smap_fin t1 t2 && Z.eqb i1 i2
    | _, _ => false
    end.
  Definition entry_fin (a b : entry) : bool :=
    alt_fin (e_alt a) (e_alt b) && eval_fin (e_eval a) (e_eval b) && list_eqb String.eqb (e_links a) (e_links b).

  Definition num_list_fin (a b : list num) : bool := list_eqb ffin2 a b.
  Definition wcrit_fin (a b : wcrit) : bool := crit_fin (fst a) (fst b) && ffin2 (snd a) (snd b).
  Definition linfun_fin (a b : linfun) : bool := ffin2 (lf_a a) (lf_a b) && ffin2 (lf_b a) (lf_b b).
  Definition ecrit_fin (a b : ecrit) : bool :=
    ffin2 (ec_k a) (ec_k b) && linfun_fin (ec_q a) (ec_q b) && linfun_fin (ec_p a) (ec_p b) && linfun_fin (ec_v a) (ec_v b).
  Definition lparams_fin (a b : lparams) : bool :=
    ffin2 (lp_coef a) (lp_coef b) && ffin2 (lp_max a) (lp_max b) && ffin2 (lp_min a) (lp_min b)
    && list_eqb smap_fin (lp_ths a) (lp_ths b).
  Definition params_fin (a b : mparams) : bool :=
    match a, b with
    | PWs x, PWs y => list_eqb wcrit_fin x y
    | POwa x, POwa y => list_eqb wcrit_fin x y
    | PChoquet w1 c1, PChoquet w2 c2 => smap_fin w1 w2 && list_eqb crit_fin c1 c2
    | PElectre e1 f1, PElectre e2 f2 =>
        list_eqb (fun x y => String.eqb (fst x) (fst y) && ecrit_fin (snd x) (snd y)) e1 e2 && linfun_fin f1 f2
    | PMajority w1 c1 s1 r1 d1, PMajority w2 c2 s2 r2 d2 =>
        smap_fin w1 w2 && String.eqb c1 c2 && Z.eqb s1 s2 && Bool.eqb r1 r2 && String.eqb d1 d2
    | PAspect f1 l1 s1 w1 r1, PAspect f2 l2 s2 w2 r2 =>
        String.eqb f1 f2 && lparams_fin l1 l2 && Z.eqb s1 s2 && smap_fin w1 w2 && Bool.eqb r1 r2
    | PSatisf f1 l1 s1 c1 r1, PSatisf f2 l2 s2 c2 r2 =>
        String.eqb f1 f2 && lparams_fin l1 l2 && Z.eqb s1 s2 && String.eqb c1 c2 && Bool.eqb r1 r2
    | _, _ => false
    end.
  Definition state_fin (a b : state) : bool :=
    list_eqb alt_fin (st_cons a) (st_cons b) && list_eqb alt_fin (st_notcons a) (st_notcons b)
    && list_eqb crit_fin (st_crits a) (st_crits b) && params_fin (st_params a) (st_params b).

  Definition addition_fin (m o : addition) : bool :=
    match m, o with
    | _, AUnknown => true
    | AWeight c1 w1, AWeight c2 w2 => String.eqb (c_id c1) (c_id c2) && ffin2 w1 w2
    | AElectre i1 e1, AElectre i2 e2 => String.eqb i1 i2 && ecrit_fin e1 e2
    | AAspect i1 w1 t1, AAspect i2 w2 t2 => String.eqb i1 i2 && ffin2 w1 w2 && option_eqb num_list_fin t1 t2
    | ASatisf i1 t1, ASatisf i2 t2 => String.eqb i1 i2 && option_eqb num_list_fin t1 t2
    | _, _ => false
    end.
  Definition component_fin (a b : component) : bool :=
    String.eqb (cp_id a) (cp_id b) && ctype_eqb (cp_type a) (cp_type b) && smap_fin (cp_values a) (cp_values b).
  Definition pair_fin (a b : num * num) : bool := ffin2 (fst a) (fst b) && ffin2 (snd a) (snd b).
  (* the report of the new-criterion applier carries the range observed over the produced values;
     it is compared through the values *)
  Definition applier_fin (m o : applier_report) : bool :=
    match m, o with
    | ARInline a, ARInline b => list_eqb alt_fin a b
    | ARNew r1 l1, ARNew r2 l2 =>
        String.eqb (c_id r1) (c_id r2)
        && list_eqb (fun x y => String.eqb (c_id (fst (fst x))) (c_id (fst (fst y)))
                                && ctype_eqb (c_type (fst (fst x))) (c_type (fst (fst y)))
                                && smap_fin (snd (fst x)) (snd (fst y)) && addition_fin (snd x) (snd y)) l1 l2
    | _, _ => false
    end.
  Definition report_fin (m o : report) : bool :=
    match m, o with
    | RNone, RNone => true
    | ROmission a, ROmission b => list_eqb crit_fin a b
    | RReversal a, RReversal b =>
        list_eqb (fun x y => String.eqb (c_id (fst (fst x))) (c_id (fst (fst y)))
                             && ctype_eqb (c_type (fst (fst x))) (c_type (fst (fst y)))
                             && pair_fin (snd (fst x)) (snd (fst y)) && smap_fin (snd x) (snd y)) a b
    | RFatigue f1 c1 n1, RFatigue f2 c2 n2 => ffin2 f1 f2 && list_eqb alt_fin c1 c2 && list_eqb alt_fin n1 n2
    | RConcealment c1 v1 a1, RConcealment c2 v2 a2 => crit_fin c1 c2 && smap_fin v1 v2 && addition_fin a1 a2
    | RMixing x1 y1 z1 a1, RMixing x2 y2 z2 a2 =>
        component_fin x1 x2 && component_fin y1 y2 && component_fin z1 z2 && addition_fin a1 a2
    | RAnchoring r1 s1 d1 a1, RAnchoring r2 s2 d2 a2 =>
        list_eqb alt_fin r1 r2
        && list_eqb (fun x y => String.eqb (fst x) (fst y) && ffin2 (fst (snd x)) (fst (snd y)) && pair_fin (snd (snd x)) (snd (snd y))) s1 s2
        && list_eqb (fun x y => alt_fin (fst x) (fst y)
                                && list_eqb (fun p q => String.eqb (fst p) (fst q) && smap_fin (snd p) (snd q)) (snd x) (snd y)) d1 d2
        && applier_fin a1 a2
    | _, _ => false
    end.

End Finite.
