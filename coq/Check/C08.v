(** * Checker for C08: bias switches and apply-probabilities, on the echoes of a response. *)
From Coq Require Import ZArith Bool List String.
From RDM Require Import Base.Num Base.Util Model.Data Model.Biases Model.Pipeline.
Import ListNotations.
Local Open Scope string_scope.

Section C08.
  Context {N : Num}.

  (* observed echo: name, applyProbability, props present *)
  Definition oecho := (string * num * bool)%type.

  Fixpoint echoes_ok (bs : list biasreq) (stream : list num) (obs : list oecho) : bool :=
    match bs, obs with
    | [], [] => true
    | b :: bs', (n, p, fired) :: obs' =>
        match stream with
        | d :: stream' =>
            String.eqb n (b_name b) && nsame p (b_prob b)
            (* fires iff its probability exceeds the draw at its enabled position; criteria mixing may
               fire and still report nothing (fewer than two criteria) *)
            && (Bool.eqb fired (nltb d (b_prob b)) || (String.eqb n b_mixing && negb fired && nltb d (b_prob b)))
            && echoes_ok bs' stream' obs'
        | [] => false
        end
    | _, _ => false
    end.

  Definition C08_ok (e : env) (req : request) (obs : list oecho) : bool :=
    echoes_ok (enabled_biases req) (new_rng e (r_seed req)) obs.
End C08.
