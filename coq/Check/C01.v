(** * Checker for C01: the result is a complete, well-formed ranking *)
From Coq Require Import ZArith Bool List String.
From RDM Require Import Base.Num Base.Util Model.Data Model.Pipeline Check.C04.
Import ListNotations.
Local Open Scope string_scope.

Section C01.
  Context {N : Num}.

  (* choseToMake, plus the heuristic's currentChoice when one is given and it is not listed *)
  Definition has_current (m : string) : bool := String.eqb m m_majority || String.eqb m m_satisfaction.
  Definition expected_ids (req : request) : list string :=
    let cur := rp_current (r_mp req) in
    if has_current (r_method req) && negb (String.eqb cur "") && negb (mem_str cur (r_chose req))
    then cur :: r_chose req else r_chose req.

  Definition wf_links (ids : list string) (e : entry) : bool :=
    forallb (fun x => mem_str x ids) (e_links e)
    && negb (mem_str (eid e) (e_links e))
    && nodup_str (e_links e).

  Definition C01_ok (expected : list string) (obs : list entry) : bool :=
    let ids := map eid obs in
    Nat.eqb (List.length ids) (List.length expected)
    && forallb (fun x => mem_str x ids) expected
    && nodup_str ids
    && forallb (wf_links ids) obs.
End C01.
