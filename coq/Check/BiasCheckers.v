(** * Checkers for the bias properties C15-C19, evaluated on what the real bias received
    ([before]), produced ([after]) and reported ([rep]). Formulas are the documented ones; equality of
    reals is taken up to [approx8] where the documented formula fixes no operation order. *)
From Coq Require Import ZArith Bool List String.
From RDM Require Import Base.Num Base.Util Model.Data Model.Utility Model.Levels Model.Heuristics Model.Listeners
     Model.Biases Model.Anchoring Check.Stage.
Import ListNotations.
Local Open Scope string_scope.
Local Open Scope list_scope.

Section BiasCheckers.
  Context {N : Num}.

  Definition has_crit (id : string) (cs : list crit) : bool := existsb (fun c => String.eqb (c_id c) id) cs.
  Definition val_of (a : alt) (id : string) : num := match mget id (a_vals a) with Some v => v | None => nzero end.
  Definition find_alt (id : string) (l : list alt) : option alt := find (fun a => String.eqb (a_id a) id) l.
  Definition within (lo hi v : num) : bool := nleb lo v && nleb v hi.
  Definition near (a b : num) : bool := approx8 a b.

  (** ** C15: criteria omission *)
  Definition importance_of (ranked : list wcrit) (id : string) : option num :=
    match find (fun x => String.eqb (c_id (fst x)) id) ranked with Some x => Some (snd x) | None => None end.

  Definition C15_ok (p : bprops) (before after : state) (rep : report) : bool :=
    match rep with
    | ROmission omitted =>
        let n := List.length (st_crits before) in
        let k := split_pivot n p in
        let kept := st_crits after in
        (* exactly k criteria are omitted, all declared, reported = removed *)
        Z.eqb (Z.of_nat (List.length omitted)) k
        && Nat.eqb (List.length kept + List.length omitted) n
        && forallb (fun c => has_crit (c_id c) (st_crits before)) omitted
        && forallb (fun c => negb (has_crit (c_id c) kept)) omitted
        && forallb (fun c => has_crit (c_id c) (st_crits before)) kept
        && nodup_str (map c_id omitted)
        (* every remaining structure is restricted to the kept criteria *)
        && forallb (fun a => list_eqb String.eqb (mkeys (a_vals a)) (mkeys (fold_left (fun m c => mset (c_id c) nzero m) kept ([] : smap num))))
                   (all_alts after)
        && values_kept kept before after
        && match on_criteria_removed kept (st_params before) with
           | Ok pr => params_same pr (st_params after)
           | Err _ => false
           end
        (* weakest: no kept criterion is less important than an omitted one; strongest: the reverse *)
        && (let o := bp_ordering p in
            if String.eqb o "" || String.eqb o o_weakest || String.eqb o o_strongest then
              match rank_criteria before with
              | Ok ranked =>
                  forallb (fun oc => forallb (fun kc =>
                                                match importance_of ranked (c_id oc), importance_of ranked (c_id kc) with
                                                | Some io, Some ik => if String.eqb o o_strongest then nleb ik io else nleb io ik
                                                | _, _ => false
                                                end) kept) omitted
              | Err _ => false
              end
            else true)
    | _ => false
    end.

  (** ** C16: preference reversal *)
  Definition C16_ok (p : bprops) (before after : state) (rep : report) : bool :=
    match rep with
    | RReversal items =>
        let n := List.length (st_crits before) in
        Z.eqb (Z.of_nat (List.length items)) (split_pivot n p)
        && list_eqb crit_same (st_crits before) (st_crits after)
        && params_same (st_params before) (st_params after)
        && nodup_str (map (fun it => c_id (fst (fst it))) items)
        && forallb (fun it =>
                      let '(c, (mn, mx), vals) := it in
                      has_crit (c_id c) (st_crits before)
                      (* [mn, mx] is the declared range, else the range observed over all known alternatives now *)
                      && match find (fun x => String.eqb (c_id x) (c_id c)) (st_crits before) with
                         | Some c0 => match values_range (all_alts before) c0 with
                                      | Ok r => nsame (fst r) mn && nsame (snd r) mx
                                      | Err _ => false
                                      end
                         | None => false
                         end
                      (* every known alternative: v -> max + min - v ; the report lists the new values *)
                      && list_eqb (fun a b =>
                                     near (val_of b (c_id c)) (nsub (nadd mx mn) (val_of a (c_id c)))
                                     && option_eqb nsame (mget (a_id b) vals) (mget (c_id c) (a_vals b)))
                                  (all_alts before) (all_alts after)
                      && Nat.eqb (List.length vals) (List.length (all_alts before)))
                   items
        (* all other values unchanged *)
        && values_kept (filter (fun c => negb (existsb (fun it => String.eqb (c_id (fst (fst it))) (c_id c)) items)) (st_crits before))
                       before after
        && same_split before after
    | _ => false
    end.

  (** ** C17: fatigue *)
  Definition bounding_off (p : bprops) : bool := negb (nltb nzero (bp_scaling p)) && negb (bp_nonneg p).

  Definition C17_ok (e : env) (p : bprops) (before after : state) (rep : report) : bool :=
    match rep with
    | RFatigue f cons_r ncons_r =>
        (* the report carries f and exactly the values handed on *)
        list_eqb alt_same cons_r (st_cons after) && list_eqb alt_same ncons_r (st_notcons after)
        && match fatigue_ratio e p with Ok f' => nsame f f' | Err _ => false end
        && list_eqb crit_same (st_crits before) (st_crits after)
        && params_same (st_params before) (st_params after)
        && same_split before after
        && list_eqb (fun a b =>
                       forallb (fun c =>
                                  match mget (c_id c) (a_vals a), mget (c_id c) (a_vals b), values_range (all_alts before) c with
                                  | Some v, Some v', Ok r =>
                                      let d := nabs (nmul f v) in
                                      let slack := nmul c_tol_rel (nadd (nabs v) d) in
                                      if bounding_off p then
                                        nleb (nabs (nsub v' v)) (nadd d slack)
                                        && (negb (neqb f nzero) || neqb v' v)
                                      else
                                        within (nsub (bound_value p r (nsub v d)) slack) (nadd (bound_value p r (nadd v d)) slack) v'
                                        && (negb (neqb f nzero) || neqb v' (bound_value p r v))
                                  | _, _, _ => false
                                  end) (st_crits before)
                       && Nat.eqb (List.length (a_vals b)) (List.length (st_crits before)))
                    (all_alts before) (all_alts after)
    | _ => false
    end.

  (** ** C18: concealment and mixing add one well-formed criterion *)
  Definition new_weight_ok (before after : state) (newid : string) : bool :=
    (* for weight-based methods the new weight is a fraction in [0,1) of an existing criterion's weight *)
    let frac (wn wr : num) := (nleb nzero wn && nltb wn wr) || (neqb wn nzero && neqb wr nzero) || (nleb wn nzero && nltb wr wn) in
    match st_params before, st_params after with
    | PWs w0, PWs w1 | POwa w0, POwa w1 =>
        match find (fun x => String.eqb (c_id (fst x)) newid) w1 with
        | Some x => existsb (fun r => frac (snd x) (snd r)) w0
        | None => false
        end
    | PMajority w0 _ _ _ _, PMajority w1 _ _ _ _ | PAspect _ _ _ w0 _, PAspect _ _ _ w1 _ =>
        match mget newid w1 with Some x => existsb (fun r => frac x (snd r)) w0 | None => false end
    | PElectre e0 _, PElectre e1 _ =>
        match mget newid e1 with Some x => existsb (fun r => frac (ec_k x) (ec_k (snd r))) e0 | None => false end
    | _, _ => true
    end.

  Definition added_one (before after : state) (c : crit) : bool :=
    Nat.eqb (List.length (st_crits after)) (S (List.length (st_crits before)))
    && is_prefix_crits (st_crits before) (st_crits after)
    && match last_opt (st_crits after) with Some l => crit_same l c | None => false end
    && negb (has_crit (c_id c) (st_crits before))
    && ctype_eqb (c_type c) TGain
    && values_kept (st_crits before) before after
    && same_split before after
    && inv after
    && new_weight_ok before after (c_id c).

  Definition C18_ok (name : string) (p : bprops) (before after : state) (rep : report) : bool :=
    match rep with
    | RNone => (* mixing does nothing when fewer than two criteria exist *)
        String.eqb name b_mixing && Nat.ltb (List.length (st_crits before)) 2 && state_same before after
    | RConcealment c vals _ =>
        added_one before after c
        && forallb (fun a => option_eqb nsame (mget (a_id a) vals) (mget (c_id c) (a_vals a))) (all_alts after)
        && Nat.eqb (List.length vals) (List.length (all_alts after))
        && match c_range c with
           | Some (lo, hi) =>
               (* the range is the reference criterion's range scaled about its centre, for one of the existing criteria *)
               existsb (fun rc => match values_range (all_alts before) rc with
                                  | Ok r => let sr := scale_equally r (bp_new_scaling p) in near lo (fst sr) && near hi (snd sr)
                                  | Err _ => false
                                  end) (st_crits before)
               (* concealed values lie in that range (then bounded as configured) *)
               && forallb (fun kv => let lo' := nmin lo hi in let hi' := nmax lo hi in
                                     within (bound_value p (lo, hi) lo') (bound_value p (lo, hi) hi') (snd kv)) vals
           | None => false
           end
    | RMixing c1 c2 cn _ =>
        match last_opt (st_crits after) with
        | Some nc =>
            added_one before after nc
            && String.eqb (c_id nc) (cp_id cn)
            && negb (String.eqb (cp_id c1) (cp_id c2))
            && has_crit (cp_id c1) (st_crits before) && has_crit (cp_id c2) (st_crits before)
            && forallb (fun a =>
                          match mget (a_id a) (cp_values c1), mget (a_id a) (cp_values c2), mget (a_id a) (cp_values cn) with
                          | Some x, Some y, Some z =>
                              (* mixingRatio x c1 + (1 - mixingRatio) x c2, hence between the components *)
                              near z (nadd (nmul (bp_mix_ratio p) x) (nmul (nsub none (bp_mix_ratio p)) y))
                              && within (nsub (nmin x y) c_tol_abs) (nadd (nmax x y) c_tol_abs) z
                              && option_eqb nsame (Some z) (mget (c_id nc) (a_vals a))
                          | _, _, _ => false
                          end) (all_alts after)
            (* components are the two criteria rescaled to [0, T], cost criteria inverted *)
            && match c_range nc with
               | Some (lo, T) =>
                   neqb lo nzero
                   && forallb (fun cp =>
                                 match find (fun x => String.eqb (c_id x) (cp_id cp)) (st_crits before) with
                                 | Some c0 =>
                                     match values_range (all_alts before) c0 with
                                     | Ok r =>
                                         let sc := if neqb (range_diff r) nzero then nzero else ndiv T (range_diff r) in
                                         forallb (fun a => match mget (a_id a) (cp_values cp) with
                                                           | Some s => near s (nmul (if is_cost c0 then nsub (snd r) (val_of a (c_id c0))
                                                                                     else nsub (val_of a (c_id c0)) (fst r)) sc)
                                                           | None => false
                                                           end) (all_alts before)
                                     | Err _ => false
                                     end
                                 | None => false
                                 end) [c1; c2]
               | None => false
               end
        | None => false
        end
    | _ => false
    end.

  (** ** C19: anchoring *)
  Definition mapped_diff (e : env) (p : bprops) (d : num) : res num :=
    if nltb nzero d then eval_fun e (bp_anch_gain p) d
    else do l <- eval_fun e (bp_anch_loss p) (nopp d); Ok (nopp l).

  Definition C19_ok (e : env) (p : bprops) (before after : state) (rep : report) : bool :=
    match rep with
    | RAnchoring refs scaling diffs ar =>
        let all := all_alts before in
        let nadir := String.eqb (bp_anch_ref p) rp_nadir in
        (* reference point: per criterion the coefficient-weighted best / worst value of the anchoring alternatives *)
        match refs with
        | [rp] =>
            forallb (fun c =>
                       let cands := flat_map (fun aa => match find_alt (aa_id aa) all with
                                                        | Some a => [(val_of a (c_id c), aa_coef aa)] | None => [] end)
                                             (bp_anch_alts p) in
                       let score (vk : num * num) := if is_cost c then ndiv (fst vk) (snd vk) else nmul (fst vk) (snd vk) in
                       let better (x y : num * num) :=   (* x at least as good as y *)
                         if xorb (is_cost c) nadir then nleb (score x) (score y) else nleb (score y) (score x) in
                       match mget (c_id c) (a_vals rp) with
                       (* a coefficient of 0 has no weighted comparison (the value of a cost criterion is divided by it): there the
                          reference value is only required to be the value of one of the anchoring alternatives *)
                       | Some v => existsb (fun x => nsame (fst x) v
                                                     && (existsb (fun y => neqb (snd y) nzero) cands || forallb (fun y => better x y) cands)) cands
                       | None => false
                       end) (st_crits before)
        | _ => false
        end
        (* differences: signed, scaled by the value range, gain function if better, negated loss otherwise *)
        && forallb (fun c => match mget (c_id c) scaling, values_range all c with
                             | Some (sc, r), Ok r' => pair_same r r'
                                                      && nsame sc (if neqb (range_diff r') nzero then nzero else ndiv none (range_diff r'))
                             | _, _ => false
                             end) (st_crits before)
        && list_eqb (fun a ad =>
                       alt_same a (fst ad)
                       && forallb (fun rd =>
                                     match find_alt (fst rd) refs with
                                     | Some r =>
                                         forallb (fun c =>
                                                    match mget (c_id c) scaling, mget (c_id c) (snd rd) with
                                                    | Some (sc, _), Some got =>
                                                        let d := nmul (nsub (sgn c (val_of a (c_id c))) (sgn c (val_of r (c_id c)))) sc in
                                                        match mapped_diff e p d with Ok want => near got want | Err _ => false end
                                                    | _, _ => false
                                                    end) (st_crits before)
                                     | None => false
                                     end) (snd ad))
                    all diffs
        && same_split before after
        && match ar with
           | ARInline applied =>
               list_eqb crit_same (st_crits before) (st_crits after) && params_same (st_params before) (st_params after)
               && (bp_anch_not_considered p || list_eqb alt_same (st_notcons before) (st_notcons after))
               (* v' = bound (v + range x mean mapped difference); the report is exactly v' - v *)
               && forallb (fun b =>
                             match find_alt (a_id b) all, find (fun ad => String.eqb (a_id (fst ad)) (a_id b)) diffs with
                             | Some a, Some ad =>
                                 let touched := existsb (fun x => String.eqb (a_id x) (a_id b)) (st_cons before) || bp_anch_not_considered p in
                                 if negb touched then alt_same a b else
                                 forallb (fun c =>
                                            match mget (c_id c) scaling with
                                            | Some (_, r) =>
                                                let ds := flat_map (fun rd => match mget (c_id c) (snd rd) with Some x => [x] | None => [] end) (snd ad) in
                                                let mean := ndiv (nsum ds) (nofZ (Z.of_nat (List.length ds))) in
                                                let v := val_of a (c_id c) in
                                                near (val_of b (c_id c)) (bound_value p r (nadd v (nmul (range_diff r) mean)))
                                                && match find_alt (a_id b) applied with
                                                   | Some dd => nsame (val_of dd (c_id c)) (nsub (val_of b (c_id c)) v)
                                                   | None => false
                                                   end
                                            | None => false
                                            end) (st_crits before)
                             | _, _ => false
                             end) (all_alts after)
           | ARNew refc added =>
               has_crit (c_id refc) (st_crits before)
               && Nat.eqb (List.length added) (List.length refs)
               && Nat.eqb (List.length (st_crits after)) (List.length (st_crits before) + List.length added)
               && is_prefix_crits (st_crits before) (st_crits after)
               && values_kept (st_crits before) before after
               && inv after
               && match rank_criteria before, mget (c_id refc) scaling with
                  | Ok ranked, Some (_, rr) =>
                      let ws := normalize_weights ranked in
                      near (nsum (map snd ws)) none
                      && forallb (fun nr =>
                                    let '(nc, vals, _) := fst nr in
                                    negb (has_crit (c_id nc) (st_crits before))
                                    && forallb (fun b =>
                                                  match find (fun ad => String.eqb (a_id (fst ad)) (a_id b)) diffs with
                                                  | Some ad =>
                                                      match find (fun rd => String.eqb (fst rd) (snd nr)) (snd ad) with
                                                      | Some rd =>
                                                          let cv := nsum (map (fun w => nmul (snd w) (match mget (c_id (fst w)) (snd rd) with Some x => x | None => nzero end)) ws) in
                                                          let half := ndiv (range_diff rr) c_two in
                                                          near (val_of b (c_id nc)) (bound_value p rr (nadd (nadd (fst rr) half) (nmul half cv)))
                                                          && option_eqb nsame (mget (a_id b) vals) (mget (c_id nc) (a_vals b))
                                                      | None => false
                                                      end
                                                  | None => false
                                                  end) (all_alts after))
                                 (zip added (map a_id refs))
                  | _, _ => false
                  end
           end
    | _ => false
    end.

  (** ** C09: what a bias reports about the data it produced is what the next stage receives.
      (the inline anchoring applier reports differences new - old: covered by [C19_ok], which has the state before) *)
  Definition values_faithful (cid : string) (vals : smap num) (after : state) : bool :=
    forallb (fun a => option_eqb nsame (mget (a_id a) vals) (mget cid (a_vals a))) (all_alts after)
    && Nat.eqb (List.length vals) (List.length (all_alts after)).
  Definition report_faithful (after : state) (rep : report) : bool :=
    match rep with
    | RNone => true
    | ROmission omitted =>
        forallb (fun c => negb (has_crit (c_id c) (st_crits after))
                          && forallb (fun a => negb (mhas (c_id c) (a_vals a))) (all_alts after)) omitted
    | RReversal items => forallb (fun it => let '(c, _, vals) := it in values_faithful (c_id c) vals after) items
    | RFatigue _ cons_r ncons_r => list_eqb alt_same cons_r (st_cons after) && list_eqb alt_same ncons_r (st_notcons after)
    | RConcealment c vals _ => has_crit (c_id c) (st_crits after) && values_faithful (c_id c) vals after
    | RMixing _ _ cn _ => has_crit (cp_id cn) (st_crits after) && values_faithful (cp_id cn) (cp_values cn) after
    | RAnchoring _ _ _ (ARNew _ added) =>
        forallb (fun x => let '(c, vals, _) := x in has_crit (c_id c) (st_crits after) && values_faithful (c_id c) vals after) added
    | RAnchoring _ _ _ (ARInline _) => true
    end.
End BiasCheckers.
