(** * Checker for C03: reported utility = defining aggregate of the entry's own (final) criteria
    values under the final (post-bias) parameters, up to the 1e-8 rounding of the API. *)
From Coq Require Import ZArith Bool List String.
From RDM Require Import Base.Num Base.Util Model.Data Model.Rank Model.Utility Spec.Aggregates Check.C04.
Import ListNotations.

Section C03.
  Context {N : Num}.

  (* what the pinned implementation computes for weighted sum (defect D2): the weights are ignored *)
  Definition ws_unweighted (wc : list wcrit) (a : alt) : res num := ws_value wc a.
  Definition owa_spec_alt (wc : list wcrit) (a : alt) : res num :=
    if Nat.eqb (List.length (a_vals a)) (List.length wc) then Ok (owa_spec (map snd wc) (mvals (a_vals a))) else Err EInvalid.
  (* Choquet integral with values within 1e-5 treated as tied (the property text asks the oracle to
     tie them as the implementation does); Proofs relate it to [choquet_textbook] *)
  Definition choquet_spec (w : smap num) (a : alt) : res num := choquet_value w a.

  (* 0 = satisfied; 1 = violated; 2 = violated in exactly the way of the recorded finding D2
     (weighted sum reports the unweighted sum) *)
  Definition check_value (p : mparams) (e : entry) : nat :=
    match e_eval e with
    | EValue v =>
        match p with
        | PWs wc =>
            match ws_spec wc (e_alt e) with
            | Ok s => if approx8 v (nround8 s) then 0
                      else match ws_unweighted wc (e_alt e) with
                           | Ok u => if approx8 v (nround8 u) then 2 else 1
                           | Err _ => 1
                           end
            | Err _ => 1
            end
        | POwa wc => match owa_spec_alt wc (e_alt e) with Ok s => if approx8 v (nround8 s) then 0 else 1 | Err _ => 1 end
        | PChoquet w _ => match choquet_spec w (e_alt e) with Ok s => if approx8 v (nround8 s) then 0 else 1 | Err _ => 1 end
        | _ => 1
        end
    | _ => 1
    end.

  Definition C03_code (st : state) (obs : list entry) : nat :=
    fold_left (fun acc e => let c := check_value (st_params st) e in
                            if Nat.eqb acc 1 then 1 else if Nat.eqb c 0 then acc else c) obs 0.
  Definition C03_ok (st : state) (obs : list entry) : bool := Nat.eqb (C03_code st obs) 0.

  (* the entries are the considered alternatives of the final state *)
  Definition same_alts (st : state) (obs : list entry) : bool :=
    Nat.eqb (List.length obs) (List.length (st_cons st))
    && forallb (fun e => existsb (fun a => alt_same a (e_alt e)) (st_cons st)) obs.
End C03.
