(** * Judging a case: does the model agree with what the implementation returned, and does the
    implementation's output satisfy the property checkers. Evaluated by [vm_compute] on [NumF]. *)
From Coq Require Import ZArith Bool List String Floats.
From RDM Require Import Base.Num Base.NumF Base.Util Model.Data Model.Rank Model.Pipeline Check.Mk Check.C04.
Import ListNotations.

Definition obs_echo := (string * float * bool)%type.
Inductive observed :=
| ObsOk (r : list (@entry NumF)) (b : list obs_echo)
| ObsErr.

Definition echo_same (m : @echo NumF) (o : obs_echo) : bool :=
  let '(n, p, f) := o in String.eqb (ec_name m) n && f_same (ec_prob m) p && Bool.eqb (ec_fired m) f.

(* verdict codes: 0 agree; 1 model rejects, code accepts; 2 model accepts, code rejects;
   3 both accept, results differ; 4 both accept, bias echoes differ;
   10+k: model stopped for a harness reason (out of random numbers / oracle / fuel) *)
Definition agree (m : res (@response NumF)) (o : observed) : nat :=
  match m, o with
  | Err EOutOfRandom, _ => 10
  | Err EOutOfOracle, _ => 11
  | Err EOutOfFuel, _ => 12
  | Err _, ObsErr => 0
  | Err _, ObsOk _ _ => 1
  | Ok _, ObsErr => 2
  | Ok r, ObsOk er eb =>
      if negb (list_eqb entry_same (resp_result r) er) then 3
      else if negb (list_eqb echo_same (resp_biases r) eb) then 4 else 0
  end.

Record case := { k_env : @env NumF; k_req : @request NumF; k_obs : observed }.
Definition mkCase e r o := {| k_env := e; k_req := r; k_obs := o |}.

Definition obs_result (o : observed) : option (list (@entry NumF)) :=
  match o with ObsOk r _ => Some r | ObsErr => None end.

(* [agree code; C04 checker] *)
Definition judge_C04 (c : case) : list nat :=
  [ agree (decide (k_env c) (k_req c)) (k_obs c);
    match obs_result (k_obs c) with Some r => if C04_ok r then 0 else 1 | None => 0 end ].

(* component level: model.AlternativeResults.Ranking on (id, value) pairs *)
Definition judge_ranking (items : list (string * float)) (obs : list (@entry NumF)) : list nat :=
  [ if list_eqb entry_same (ranking (map (fun x => (mkA (fst x) [], snd x)) items)) obs then 0 else 3;
    if C04_ok obs then 0 else 1 ].

Definition jr (c : list (string * float) * list (@entry NumF)) : list nat := judge_ranking (fst c) (snd c).
(* checker only, on what the implementation returned *)
Definition j_C04_obs (o : observed) : list nat :=
  [ match obs_result o with Some r => if C04_ok r then 0 else 1 | None => 0 end ].

(* full correspondence of a request: [agree code] *)
Definition j_agree (c : case) : list nat := [ agree (decide (k_env c) (k_req c)) (k_obs c) ].
