(** * Judging a case: does the model agree with what the implementation returned, and does the
    implementation's output satisfy the property checkers. Evaluated by [vm_compute] on [NumF]. *)
From Coq Require Import ZArith Bool List String Floats.
From RDM Require Import Base.Num Base.NumF Base.Util Model.Data Model.Rank Model.Pipeline Model.Listeners Model.Biases Check.Stage Check.Mk Check.Close Check.Finite Check.C04 Check.C01 Check.C03 Check.C05 Check.C11 Check.C12 Check.C13 Check.C06 Check.C08 Check.C13b.
Import ListNotations.

Definition obs_echo := (string * float * bool)%type.
Inductive observed :=
| ObsOk (r : list (@entry NumF)) (b : list obs_echo)
| ObsErr.

Definition echo_same (m : @echo NumF) (o : obs_echo) : bool :=
  let '(n, p, f) := o in String.eqb (ec_name m) n && f_same (ec_prob m) p && Bool.eqb (ec_fired m) f.

(* the service encodes its answer as JSON, and the encoder refuses NaN and the infinities: an answer the binary64 model
   computes with such a value in it (a ranking value, a threshold, a bias report) cannot be sent - code 21, which the driver
   counts as agreement when the implementation failed in the encoder and as code 2 otherwise *)
Definition resp_finite (r : @response NumF) : bool :=
  forallb (fun e => entry_fin e e) (resp_result r)
  && forallb (fun b => ffinite (ec_prob b) && report_fin (ec_report b) (ec_report b)) (resp_biases r).

(* verdict codes: 0 agree; 1 model rejects, code accepts; 2 model accepts, code rejects;
   3 both accept, results differ; 4 both accept, bias echoes differ; 20 agree up to float drift (1e-9 relative);
   10+k: model stopped for a harness reason (out of random numbers / oracle / fuel) *)
Definition agree (m : res (@response NumF)) (o : observed) : nat :=
  match m, o with
  | Err EOutOfRandom, _ => 10
  | Err EOutOfOracle, _ => 11
  | Err EOutOfFuel, _ => 12
  | Err _, ObsErr => 0
  | Err _, ObsOk _ _ => 1
  | Ok r, ObsErr => if resp_finite r then 2 else 21
  | Ok r, ObsOk er eb =>
      if negb (list_eqb echo_same (resp_biases r) eb) then 4
      else if list_eqb entry_same (resp_result r) er then 0
      else if list_eqb entry_close (resp_result r) er then 20   (* agree up to last-bit drift of the floats *)
      else 3
  end.

Record case := { k_env : @env NumF; k_req : @request NumF; k_obs : observed }.
Definition mkCase e r o := {| k_env := e; k_req := r; k_obs := o |}.

Definition obs_result (o : observed) : option (list (@entry NumF)) :=
  match o with ObsOk r _ => Some r | ObsErr => None end.

(* [agree code; C04 checker] *)
Definition judge_C04 (c : case) : list nat :=
  [ agree (decide (k_env c) (k_req c)) (k_obs c);
    match obs_result (k_obs c) with Some r => if C04_ok r then 0 else 1 | None => 0 end ].

(* component level: model.AlternativeResults.Ranking on (id, value) pairs *)
Definition judge_ranking (items : list (string * float)) (obs : list (@entry NumF)) : list nat :=
  [ if list_eqb entry_same (ranking (map (fun x => (mkA (fst x) [], snd x)) items)) obs then 0 else 3;
    if C04_ok obs then 0 else 1 ].

Definition jr (c : list (string * float) * list (@entry NumF)) : list nat := judge_ranking (fst c) (snd c).
(* checker only, on what the implementation returned *)
Definition j_C04_obs (o : observed) : list nat :=
  [ match obs_result o with Some r => if C04_ok r then 0 else 1 | None => 0 end ].

(* full correspondence of a request: [agree code] *)
Definition j_agree (c : case) : list nat := [ agree (decide (k_env c) (k_req c)) (k_obs c) ].

(** ** universal judge: one pass computes the agreement code and every method-level checker.
    [x_final] is the state the method was evaluated on, as dumped from the running code. *)
Record xcase := { x_env : @env NumF; x_req : @request NumF; x_final : option (@state NumF); x_obs : observed }.
Definition mkX e r f o := {| x_env := e; x_req := r; x_final := f; x_obs := o |}.

Definition b2n (b : bool) : nat := if b then 0 else 1.
Definition is_method (c : xcase) (m : string) : bool := String.eqb (r_method (x_req c)) m.

(* structure-only correspondence for C01: the ranking *builders* of the model applied to the
   implementation's own evaluations must give the implementation's entries *)
Fixpoint sequential_links_ok (l : list (@entry NumF)) : bool :=
  match l with
  | [] => true
  | e :: r => match r with
              | [] => match e_links e with [] => true | _ => false end
              | e2 :: _ => list_eqb String.eqb (e_links e) [eid e2] && sequential_links_ok r
              end
  end.
Definition C01_struct (c : xcase) (r : list (@entry NumF)) (ag : nat) : bool :=
  if is_method c m_ws || is_method c m_owa || is_method c m_choquet then
    (* the reported values are already rounded; rounding them again is not exactly idempotent on binary64 for
       magnitudes above ~1e7, hence the comparison up to last-bit drift (ids, order and links exact) *)
    (let rebuilt := ranking (map (fun e => (e_alt e, val e)) r) in
     list_eqb entry_same rebuilt r || list_eqb entry_close rebuilt r)
  else if is_method c m_electre then
    forallb (fun e => list_eqb String.eqb (e_links e) (links_by_indices r e)) r
  else if is_method c m_aspect || is_method c m_satisfaction then sequential_links_ok r
  else Nat.eqb ag 0.

(* values-only correspondence for C03: every alternative gets the value the model computes *)
Definition values_agree (m : res (@response NumF)) (r : list (@entry NumF)) : bool :=
  match m with
  | Ok mr => forallb (fun e => match find (fun x => String.eqb (eid x) (eid e)) (resp_result mr) with
                               | Some x => eval_same (e_eval x) (e_eval e) || eval_close (e_eval x) (e_eval e)
                                           (* up to last-bit drift of a re-associated sum, which may flip the 8th decimal of the rounded value *)
                                           || match e_eval x, e_eval e with EValue a, EValue b => approx8 a b | _, _ => false end
                               | None => false
                               end) r
  | Err _ => false
  end.

(* columns: 0 agree | 1 C01 | 2 C03 (0 ok, 1 violated, 2 = known unweighted weighted-sum) | 3 C04
            | 4 C05 | 5 C11 | 6 C12 | 7 C13 | 8 C01 structure correspondence | 9 C03 values correspondence | 10 C06 | 11 C08 | 12 C13 order within a level
            | 13 the state the method is evaluated on is coherent: every alternative has a value and the method parameters an entry for every criterion *)
Definition judge_all (c : xcase) : list nat :=
  let md := decide (x_env c) (x_req c) in
  let ag := agree md (x_obs c) in
  let c08 := match x_obs c with ObsOk _ eb => b2n (@C08_ok NumF (x_env c) (x_req c) eb) | ObsErr => 0 end in
  match x_obs c, x_final c with
  | ObsOk r _, Some st =>
      let util := is_method c m_ws || is_method c m_owa || is_method c m_choquet in
      [ ag;
        b2n (C01_ok (expected_ids (x_req c)) r);
        if util then C03_code st r else 0;
        if util then b2n (C04_ok r) else 0;
        if is_method c m_electre then b2n (C05_ok st r) else 0;
        if is_method c m_majority then b2n (C11_ok st r) else 0;
        if is_method c m_aspect then b2n (C12_ok st r) else 0;
        if is_method c m_satisfaction then b2n (C13_ok st r) else 0;
        b2n (C01_struct c r ag);
        if util then b2n (values_agree md r) else 0;
        if is_method c m_electre then b2n (C06_ok st r) else 0;
        c08;
        if is_method c m_satisfaction then b2n (C13_order_ok (x_env c) st r) else 0;
        b2n (inv st) ]
  | ObsOk r _, None => [ ag; b2n (C01_ok (expected_ids (x_req c)) r); 0; 0; 0; 0; 0; 0; b2n (C01_struct c r ag); 0; 0; c08; 0; 0 ]
  | ObsErr, _ => [ ag; 0; 0; 0; 0; 0; 0; 0; 0; 0; 0; 0; 0; 0 ]
  end.

(** ** one bias application (a stage of the trace) *)
From RDM Require Import Model.Listeners Model.Biases Model.Anchoring Check.Stage Check.BiasCheckers.

Record scase := { s_env : @env NumF; s_name : string; s_props : @bprops NumF; s_before : @state NumF;
                  s_after : option (@state NumF); s_report : @report NumF; s_after_final : option (@state NumF);
                  s_report_final : @report NumF }.
Definition mkS e n p b a r af rf :=
  {| s_env := e; s_name := n; s_props := p; s_before := b; s_after := a; s_report := r; s_after_final := af; s_report_final := rf |}.

(* columns: 0 stage correspondence (0 agree, 1 model rejects/code accepts, 2 model accepts/code rejects,
   3 states differ, 4 reports differ, 10.. harness) | 1 inv after | 2 frame | 3 later stages did not rewrite the
   state/report handed on (C09) | 4 C15 | 5 C16 | 6 C17 | 7 C18 | 8 C19 | 9 criteria changed only as reported (C07) | 10 the report is what was handed on (C09)
   | 11 the binary64 model itself leaves the finite range on this stage (1) *)
Definition judge_stage (c : scase) : list nat :=
  let m := apply_bias (s_env c) (s_name c) (s_before c) (s_props c) in
  let ag := match m, s_after c with
            | Err EOutOfRandom, _ => 10 | Err EOutOfOracle, _ => 11 | Err EOutOfFuel, _ => 12
            | Err _, None => 0
            | Err _, Some _ => 1
            | Ok _, None => 2
            | Ok (st, rep), Some st' =>
                if state_same st st' && report_same rep (s_report c) then 0
                else if negb (state_close st st') then 3
                else if negb (report_close rep (s_report c)) then 4 else 20
            end in
  match s_after c with
  | None => [ag; 0; 0; 0; 0; 0; 0; 0; 0; 0; 0; 0]
  | Some a =>
      let nm := s_name c in let p := s_props c in let b := s_before c in let r := s_report c in
      [ ag;
        b2n (inv a);
        b2n (frame_ok nm p b a);
        b2n (match s_after_final c with Some af => state_same a af && report_same r (s_report_final c) | None => false end);
        if String.eqb nm b_omission then b2n (C15_ok p b a r) else 0;
        if String.eqb nm b_reversal then b2n (C16_ok p b a r) else 0;
        if String.eqb nm b_fatigue then b2n (C17_ok (s_env c) p b a r) else 0;
        if String.eqb nm b_concealment || String.eqb nm b_mixing then b2n (C18_ok nm p b a r) else 0;
        if String.eqb nm b_anchoring then b2n (C19_ok (s_env c) p b a r) else 0;
        b2n (crits_as_reported b a r);
        b2n (report_faithful a r);
        match m with Ok (st, rep) => if state_fin st st && report_fin rep rep then 0 else 1 | Err _ => 0 end ]
  end.

(** ** level sources (component level) *)
From RDM Require Import Model.Levels Check.C14.
Definition judge_levels (c : bool * string * @lparams NumF * @state NumF * option (list (list (string * float)))) : list nat :=
  let '(inc, fn, lp, st, obs) := c in
  let d := if inc then Increasing else Decreasing in
  [ levels_agree d fn lp st obs;
    match obs with Some l => b2n (C14_ok d fn lp st l) | None => 0 end ].
Definition mkLC (inc : bool) (fn : string) (lp : @lparams NumF) (st : @state NumF)
           (obs : option (list (list (string * float)))) := (inc, fn, lp, st, obs).

(** ** ELECTRE distillations on raw credibility matrices (component level) *)
From RDM Require Import Model.Electre.
Definition mkRC (m : list (list float)) (a b : float) (obs : option (list Z * list Z)) := (m, a, b, obs).
Definition judge_rank (c : list (list float) * float * float * option (list Z * list Z)) : list nat :=
  let '(m, a, b, obs) := c in
  let f := mkLF a b in
  (* the diagonal is removed by the code before distilling *)
  let m0 := map (fun ir => map (fun jx => if Nat.eqb (fst ir) (fst jx) then 0%float else snd jx)
                               (zip (seq 0 (List.length (snd ir))) (snd ir)))
                (zip (seq 0 (List.length m)) m) in
  match @rank_ascending NumF m0 f, @rank_descending NumF m0 f, obs with
  | Ok ma, Ok md, Some (oa, od) => [ if list_eqb Z.eqb ma oa && list_eqb Z.eqb md od then 0 else 3;
                                     b2n (consecutive oa && consecutive od) ]
  | Err _, _, None | _, Err _, None => [0; 0]
  | _, _, None => [2; 0]
  | _, _, Some _ => [1; 0]
  end.

(** ** ELECTRE credibility matrix of the state the method is evaluated on (component level):
    the code's own evaluateCredibilityMatrix against [cred_matrix]; off-diagonal entries only
    (the code keeps 1 on the diagonal and removes it before distilling, the model starts from 0).
    codes: 0 same, 20 same up to float drift, 3 different, 2 model rejects, 9 not an ELECTRE state *)
Definition mkCC (st : @state NumF) (obs : list (list float)) := (st, obs).
Definition judge_cred (c : @state NumF * list (list float)) : list nat :=
  let '(st, obs) := c in
  match st_params st with
  | PElectre ecs _ =>
      match @cred_matrix NumF (st_cons st) (st_crits st) ecs with
      | Ok m =>
          let o0 := map (fun ir => map (fun jx => if Nat.eqb (fst ir) (fst jx) then 0%float else snd jx)
                                       (zip (seq 0 (List.length (snd ir))) (snd ir)))
                        (zip (seq 0 (List.length obs)) obs) in
          [ if list_eqb (list_eqb f_same) m o0 then 0
            else if list_eqb (list_eqb fclose) m o0 then 20 else 3 ]
      | Err _ => [2]
      end
  | _ => [9]
  end.

(** ** the name generator of the criterion-adding biases (component level): Criteria.NotUsedName against [not_used_name];
    codes: column 0 correspondence (0 same, 3 different), column 1 the generated id is already in use (C18: "an id not used before") *)
From RDM Require Import Model.Biases.
Definition mkNC (ids : list string) (name : string) (obs : string) := (ids, name, obs).
Definition judge_name (c : list string * string * string) : list nat :=
  let '(ids, name, obs) := c in
  let cs := map (fun i => {| c_id := i; c_type := TGain; c_range := (None : option (float * float)) |}) ids in
  [ if String.eqb (@not_used_name NumF cs name) obs then 0 else 3;
    if mem_str obs ids then 1 else 0 ].
