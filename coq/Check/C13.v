(** * Checker for C13 (satisfaction heuristic), on the returned entries and the final state. *)
From Coq Require Import ZArith Bool List String.
From RDM Require Import Base.Num Base.Util Model.Data Model.Utility Model.Levels Model.Heuristics Check.C04.
Import ListNotations.
Local Open Scope string_scope.

Section C13.
  Context {N : Num}.

  Definition s_idx (e : entry) : Z := match e_eval e with ESatisf _ i => i | _ => (-1)%Z end.
  Definition s_ths (e : entry) : smap num := match e_eval e with ESatisf t _ => t | _ => [] end.

  (* the alternative meets level t on every criterion (signed comparison) *)
  Definition meets (cs : list crit) (a : alt) (t : smap num) : bool :=
    forallb (fun c => match mget (c_id c) (a_vals a), mget (c_id c) t with
                      | Some v, Some th => negb (nltb (sgn c v) (sgn c th))
                      | _, _ => false
                      end) cs.

  Fixpoint nondecreasing (l : list Z) : bool :=
    match l with
    | [] => true
    | x :: r => match r with [] => true | y :: _ => (x <=? y)%Z && nondecreasing r end
    end.

  (* levels: the aspiration levels of the final state (explicit list or generated series) *)
  Definition check_entry (cs : list crit) (levels : list (smap num)) (low : smap num) (e : entry) : bool :=
    match e_eval e with
    | ESatisf t i =>
        let nl := Z.of_nat (List.length levels) in
        if (i <? 0)%Z then false
        else if (i <? nl)%Z then
          (* accepted at level i: reports that level, satisfies it, fails every earlier one *)
          match nth_opt (Z.to_nat i) levels with
          | Some lv => smap_same t lv && meets cs (e_alt e) lv
                       && forallb (fun lv' => negb (meets cs (e_alt e) lv')) (firstn (Z.to_nat i) levels)
          | None => false
          end
        else
          (* met no level: index after the last level, the worst value of every criterion's range *)
          Z.eqb i nl && smap_same t low && forallb (fun lv' => negb (meets cs (e_alt e) lv')) levels
    | _ => false
    end.

  Definition C13_ok (st : state) (obs : list entry) : bool :=
    match st_params st with
    | PSatisf fn lp _ _ _ =>
        match lv_init Decreasing fn lp st with
        | Ok src =>
            match lv_all level_fuel src, lowest_thresholds st with
            | Ok levels, Ok low =>
                nondecreasing (map s_idx obs)
                && forallb (check_entry (st_crits st) levels low) obs
            | _, _ => false
            end
        | Err _ => false
        end
    | _ => false
    end.
End C13.
