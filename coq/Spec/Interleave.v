(** * C10: concurrent requests do not influence each other (abstract interleaving model)

    Self-contained (Coq standard library only, no axioms).

    k threads run against one memory.  Locations are either [Shared n] (the process-wide registered objects)
    or [Private t n] (data allocated by request/thread [t]).  A thread is a [program]: a function from the
    list of values it has observed so far to its next action, so its behaviour may depend on what it reads.

    NOTE on the history: the informal specification says "the list of values READ so far".  Taken literally a
    thread could never get past a write (a write would leave the history unchanged, so the program would return
    the same [AWrite] forever; see [literal_write_loops] at the end).  Therefore a write appends the written value
    to the history as an acknowledgement ("values observed so far": results of reads and the values of the thread's
    own writes, oldest first).  Nothing else changes.

    Discipline [thread_ok t prog]: for every history [h] the action [prog h] never writes a [Shared] location and
    never reads or writes [Private t' n] with [t' <> t].

    Main results (all threads [thread_ok]):
    - [shared_never_written]          every [Shared n] keeps its initial value under every schedule;
    - [noninterference]               thread [t]'s history, done/result status and private locations after any
                                      schedule equal those after running [t] alone for [count_occ sched t] steps;
    - [noninterference_alone]         the same, stated with the independent single-thread semantics [run_alone];
    - [race_free]                     no two accesses of any run conflict;
    - [schedule_independent_results]  any two schedules giving [t] enough steps give [t] the same result;
    - examples: a positive instance, and a counterexample (a thread writing a shared location) showing that the
      hypothesis is needed. *)
From Coq Require Import List Arith Lia Bool.
Import ListNotations.

(** ** Model *)

Definition tid := nat.
Inductive loc := Shared (n : nat) | Private (t : tid) (n : nat).
Inductive effect := Read (l : loc) | Write (l : loc) (v : nat).      (* values are abstract naturals *)

Inductive action := ARead (l : loc) | AWrite (l : loc) (v : nat) | ADone (result : nat).
Definition program := list nat -> action.     (* input: the values observed so far, oldest first *)

Definition mem := loc -> nat.

Definition loc_eqb (a b : loc) : bool :=
  match a, b with
  | Shared n, Shared n' => Nat.eqb n n'
  | Private t n, Private t' n' => Nat.eqb t t' && Nat.eqb n n'
  | _, _ => false
  end.

Definition upd (m : mem) (l : loc) (v : nat) : mem := fun l' => if loc_eqb l l' then v else m l'.

(* per-thread state: values observed so far and, when finished, the result *)
Record tstate := { hist : list nat; result : option nat }.
Definition tstate0 : tstate := {| hist := []; result := None |}.

(* one step of one thread against a memory; a finished thread does nothing *)
Definition tstep (prog : program) (m : mem) (s : tstate) : mem * tstate :=
  match result s with
  | Some _ => (m, s)
  | None =>
      match prog (hist s) with
      | ARead l => (m, {| hist := hist s ++ [m l]; result := None |})
      | AWrite l v => (upd m l v, {| hist := hist s ++ [v]; result := None |})
      | ADone r => (m, {| hist := hist s; result := Some r |})
      end
  end.

(* the memory access performed by that step, if any *)
Definition tstep_effect (prog : program) (s : tstate) : option effect :=
  match result s with
  | Some _ => None
  | None =>
      match prog (hist s) with
      | ARead l => Some (Read l)
      | AWrite l v => Some (Write l v)
      | ADone _ => None
      end
  end.

(** *** A pool of threads *)

Record cfg := { cmem : mem; cthr : tid -> tstate }.
Definition cfg0 (m : mem) : cfg := {| cmem := m; cthr := fun _ => tstate0 |}.

Definition tupd (f : tid -> tstate) (t : tid) (s : tstate) : tid -> tstate :=
  fun t' => if Nat.eqb t t' then s else f t'.

(* the scheduler picks thread [t] *)
Definition step (progs : tid -> program) (t : tid) (c : cfg) : cfg :=
  let r := tstep (progs t) (cmem c) (cthr c t) in
  {| cmem := fst r; cthr := tupd (cthr c) t (snd r) |}.

(* a schedule is a list of thread ids *)
Fixpoint run (progs : tid -> program) (sched : list tid) (c : cfg) : cfg :=
  match sched with
  | [] => c
  | t :: rest => run progs rest (step progs t c)
  end.

(** *** One thread by itself (independent of the pool semantics) *)

Fixpoint run_thread (prog : program) (fuel : nat) (m : mem) (s : tstate) : mem * tstate :=
  match fuel with
  | 0 => (m, s)
  | S k => let r := tstep prog m s in run_thread prog k (fst r) (snd r)
  end.

(* [t] is not used: a program does not know its thread id; kept for readability of the statements *)
Definition run_alone (t : tid) (prog : program) (m : mem) (fuel : nat) : mem * tstate :=
  run_thread prog fuel m tstate0.

(** *** Traces of accesses and conflicts *)

Record access := { a_tid : tid; a_eff : effect }.
Definition eff_loc (e : effect) : loc := match e with Read l => l | Write l _ => l end.
Definition eff_is_write (e : effect) : bool := match e with Read _ => false | Write _ _ => true end.
Definition a_loc (a : access) : loc := eff_loc (a_eff a).
Definition a_is_write (a : access) : bool := eff_is_write (a_eff a).

Definition step_accesses (progs : tid -> program) (t : tid) (c : cfg) : list access :=
  match tstep_effect (progs t) (cthr c t) with
  | Some e => [ {| a_tid := t; a_eff := e |} ]
  | None => []
  end.

Fixpoint trace (progs : tid -> program) (sched : list tid) (c : cfg) : list access :=
  match sched with
  | [] => []
  | t :: rest => step_accesses progs t c ++ trace progs rest (step progs t c)
  end.

(* different threads, same location, at least one write *)
Definition conflict (a b : access) : Prop :=
  a_tid a <> a_tid b /\ a_loc a = a_loc b /\ (a_is_write a = true \/ a_is_write b = true).

(** ** Discipline *)

Definition loc_readable (t : tid) (l : loc) : Prop :=
  match l with Shared _ => True | Private t' _ => t' = t end.
Definition loc_writable (t : tid) (l : loc) : Prop :=
  match l with Shared _ => False | Private t' _ => t' = t end.
Definition action_ok (t : tid) (a : action) : Prop :=
  match a with
  | ARead l => loc_readable t l
  | AWrite l _ => loc_writable t l
  | ADone _ => True
  end.
Definition thread_ok (t : tid) (prog : program) : Prop := forall h, action_ok t (prog h).
Definition all_ok (progs : tid -> program) : Prop := forall t, thread_ok t (progs t).

(** ** Basic facts *)

Lemma loc_eqb_eq : forall a b, loc_eqb a b = true <-> a = b.
Proof.
  intros [n|t n] [n'|t' n']; cbn [loc_eqb]; split; intros H; try discriminate.
  - apply Nat.eqb_eq in H. now subst.
  - inversion H. apply Nat.eqb_refl.
  - apply andb_true_iff in H. destruct H as [H1 H2].
    apply Nat.eqb_eq in H1. apply Nat.eqb_eq in H2. now subst.
  - inversion H. now rewrite !Nat.eqb_refl.
Qed.

Lemma loc_eqb_neq : forall a b, a <> b -> loc_eqb a b = false.
Proof.
  intros a b H. destruct (loc_eqb a b) eqn:E; [|reflexivity].
  apply loc_eqb_eq in E. contradiction.
Qed.

Lemma upd_same : forall m l v, upd m l v l = v.
Proof. intros m l v. unfold upd. now rewrite (proj2 (loc_eqb_eq l l) eq_refl). Qed.

Lemma upd_other : forall m l v l', l <> l' -> upd m l v l' = m l'.
Proof. intros m l v l' H. unfold upd. now rewrite (loc_eqb_neq _ _ H). Qed.

Lemma tupd_same : forall f t s, tupd f t s t = s.
Proof. intros f t s. unfold tupd. now rewrite Nat.eqb_refl. Qed.

Lemma tupd_other : forall f t s t', t <> t' -> tupd f t s t' = f t'.
Proof. intros f t s t' H. unfold tupd. apply Nat.eqb_neq in H. now rewrite H. Qed.

Lemma writable_readable : forall t l, loc_writable t l -> loc_readable t l.
Proof. intros t [n|t' n]; cbn; auto. Qed.

(* what one thread may write, another thread may not even read *)
Lemma writable_not_readable : forall t t' l, t' <> t -> loc_writable t' l -> loc_readable t l -> False.
Proof. intros t t' [n|t0 n]; cbn; intros Hne Hw Hr; [assumption | congruence]. Qed.

Lemma step_cmem : forall progs t c,
  cmem (step progs t c) = fst (tstep (progs t) (cmem c) (cthr c t)).
Proof. reflexivity. Qed.

Lemma step_cthr_self : forall progs t c,
  cthr (step progs t c) t = snd (tstep (progs t) (cmem c) (cthr c t)).
Proof. intros. unfold step. cbn [cthr]. apply tupd_same. Qed.

Lemma step_cthr_other : forall progs t c t',
  t <> t' -> cthr (step progs t c) t' = cthr c t'.
Proof. intros. unfold step. cbn [cthr]. now apply tupd_other. Qed.

Lemma run_app : forall progs s1 s2 c, run progs (s1 ++ s2) c = run progs s2 (run progs s1 c).
Proof. intros progs s1. induction s1 as [|t s1 IH]; intros s2 c; cbn [run app]; [reflexivity | apply IH]. Qed.

(** ** The view of a thread: the locations it is allowed to read *)

Definition view_eq (t : tid) (m1 m2 : mem) : Prop := forall l, loc_readable t l -> m1 l = m2 l.

Lemma view_eq_refl : forall t m, view_eq t m m.
Proof. intros t m l _. reflexivity. Qed.

Lemma view_eq_trans : forall t m1 m2 m3, view_eq t m1 m2 -> view_eq t m2 m3 -> view_eq t m1 m3.
Proof. intros t m1 m2 m3 H12 H23 l Hl. now rewrite (H12 l Hl), (H23 l Hl). Qed.

(* a disciplined step of thread [t] is a function of [t]'s view only, and maps equal views to equal views *)
Lemma tstep_view : forall t prog m1 m2 s,
  thread_ok t prog -> view_eq t m1 m2 ->
  snd (tstep prog m1 s) = snd (tstep prog m2 s) /\
  view_eq t (fst (tstep prog m1 s)) (fst (tstep prog m2 s)).
Proof.
  intros t prog m1 m2 s Hok Hv. unfold tstep.
  destruct (result s) as [r|]; [split; [reflexivity | exact Hv]|].
  specialize (Hok (hist s)). destruct (prog (hist s)) as [l|l v|r]; cbn [fst snd].
  - cbn [action_ok] in Hok. rewrite (Hv l Hok). split; [reflexivity | exact Hv].
  - split; [reflexivity|]. intros l' Hl'. unfold upd.
    destruct (loc_eqb l l'); [reflexivity | now apply Hv].
  - split; [reflexivity | exact Hv].
Qed.

(* a disciplined step of another thread [t'] does not change [t]'s view *)
Lemma tstep_frame : forall t t' prog m s,
  thread_ok t' prog -> t' <> t -> view_eq t (fst (tstep prog m s)) m.
Proof.
  intros t t' prog m s Hok Hne. unfold tstep.
  destruct (result s) as [r|]; [apply view_eq_refl|].
  specialize (Hok (hist s)). destruct (prog (hist s)) as [l|l v|r]; cbn [fst]; try apply view_eq_refl.
  cbn [action_ok] in Hok. intros l' Hl'. apply upd_other. intros ->.
  exact (writable_not_readable t t' l' Hne Hok Hl').
Qed.

(* a disciplined step never changes a shared location *)
Lemma tstep_shared : forall t prog m s n,
  thread_ok t prog -> fst (tstep prog m s) (Shared n) = m (Shared n).
Proof.
  intros t prog m s n Hok. unfold tstep.
  destruct (result s) as [r|]; [reflexivity|].
  specialize (Hok (hist s)). destruct (prog (hist s)) as [l|l v|r]; cbn [fst]; try reflexivity.
  cbn [action_ok] in Hok. apply upd_other. intros ->. exact Hok.
Qed.

(** ** Theorem 1: shared state is never written *)

Lemma step_shared : forall progs t c n,
  all_ok progs -> cmem (step progs t c) (Shared n) = cmem c (Shared n).
Proof. intros progs t c n OK. rewrite step_cmem. apply (tstep_shared t). apply OK. Qed.

Lemma shared_never_written_from : forall progs, all_ok progs ->
  forall sched c n, cmem (run progs sched c) (Shared n) = cmem c (Shared n).
Proof.
  intros progs OK sched. induction sched as [|t rest IH]; intros c n; cbn [run]; [reflexivity|].
  rewrite IH. now apply step_shared.
Qed.

Theorem shared_never_written : forall progs, all_ok progs ->
  forall sched m n, cmem (run progs sched (cfg0 m)) (Shared n) = m (Shared n).
Proof. intros progs OK sched m n. now rewrite shared_never_written_from. Qed.

(** ** Theorem 2: noninterference *)

(* two configurations look the same to thread [t] *)
Definition agree (t : tid) (c1 c2 : cfg) : Prop :=
  cthr c1 t = cthr c2 t /\ view_eq t (cmem c1) (cmem c2).

Lemma agree_refl : forall t c, agree t c c.
Proof. intros t c. split; [reflexivity | apply view_eq_refl]. Qed.

Lemma step_self_agree : forall progs t c1 c2,
  thread_ok t (progs t) -> agree t c1 c2 -> agree t (step progs t c1) (step progs t c2).
Proof.
  intros progs t c1 c2 Hok [Hs Hv]. unfold agree.
  rewrite !step_cthr_self, !step_cmem, Hs.
  exact (tstep_view t (progs t) (cmem c1) (cmem c2) (cthr c2 t) Hok Hv).
Qed.

Lemma step_other_agree : forall progs t t' c1 c2,
  thread_ok t' (progs t') -> t' <> t -> agree t c1 c2 -> agree t (step progs t' c1) c2.
Proof.
  intros progs t t' c1 c2 Hok Hne [Hs Hv]. unfold agree. split.
  - now rewrite step_cthr_other.
  - rewrite step_cmem. eapply view_eq_trans; [|exact Hv]. exact (tstep_frame t t' _ _ _ Hok Hne).
Qed.

Lemma noninterference_agree : forall progs, all_ok progs ->
  forall sched t c1 c2, agree t c1 c2 ->
  agree t (run progs sched c1) (run progs (repeat t (count_occ Nat.eq_dec sched t)) c2).
Proof.
  intros progs OK sched t. induction sched as [|t' rest IH]; intros c1 c2 Hag; cbn [run count_occ].
  - exact Hag.
  - destruct (Nat.eq_dec t' t) as [->|Hne].
    + cbn [repeat run]. apply IH. apply step_self_agree; [apply OK | exact Hag].
    + apply IH. apply step_other_agree; [apply OK | exact Hne | exact Hag].
Qed.

(* general form: from an arbitrary configuration *)
Theorem noninterference_from : forall progs, all_ok progs ->
  forall sched t c,
    cthr (run progs sched c) t = cthr (run progs (repeat t (count_occ Nat.eq_dec sched t)) c) t /\
    (forall n, cmem (run progs sched c) (Private t n)
               = cmem (run progs (repeat t (count_occ Nat.eq_dec sched t)) c) (Private t n)).
Proof.
  intros progs OK sched t c.
  destruct (noninterference_agree progs OK sched t c c (agree_refl t c)) as [Hs Hv].
  split; [exact Hs|]. intros n. apply Hv. reflexivity.
Qed.

Theorem noninterference : forall progs, all_ok progs ->
  forall sched t m,
    cthr (run progs sched (cfg0 m)) t
      = cthr (run progs (repeat t (count_occ Nat.eq_dec sched t)) (cfg0 m)) t /\
    (forall n, cmem (run progs sched (cfg0 m)) (Private t n)
               = cmem (run progs (repeat t (count_occ Nat.eq_dec sched t)) (cfg0 m)) (Private t n)).
Proof. intros progs OK sched t m. now apply noninterference_from. Qed.

(** *** Link with the independent single-thread semantics *)

(* scheduling only [t] is running [t] alone (no discipline needed) *)
Lemma run_repeat_thread : forall progs t k c,
  cthr (run progs (repeat t k) c) t = snd (run_thread (progs t) k (cmem c) (cthr c t)) /\
  cmem (run progs (repeat t k) c) = fst (run_thread (progs t) k (cmem c) (cthr c t)).
Proof.
  intros progs t k. induction k as [|k IH]; intros c; cbn [repeat run run_thread].
  - split; reflexivity.
  - specialize (IH (step progs t c)). rewrite step_cthr_self, step_cmem in IH. exact IH.
Qed.

Lemma run_repeat_alone : forall progs t k m,
  cthr (run progs (repeat t k) (cfg0 m)) t = snd (run_alone t (progs t) m k) /\
  cmem (run progs (repeat t k) (cfg0 m)) = fst (run_alone t (progs t) m k).
Proof. intros progs t k m. exact (run_repeat_thread progs t k (cfg0 m)). Qed.

Theorem noninterference_alone : forall progs, all_ok progs ->
  forall sched t m,
    cthr (run progs sched (cfg0 m)) t
      = snd (run_alone t (progs t) m (count_occ Nat.eq_dec sched t)) /\
    (forall n, cmem (run progs sched (cfg0 m)) (Private t n)
               = fst (run_alone t (progs t) m (count_occ Nat.eq_dec sched t)) (Private t n)).
Proof.
  intros progs OK sched t m.
  destruct (noninterference progs OK sched t m) as [Hs Hp].
  destruct (run_repeat_alone progs t (count_occ Nat.eq_dec sched t) m) as [As Am].
  split.
  - now rewrite Hs.
  - intros n. now rewrite Hp, Am.
Qed.

(* in particular: if [t] finishes in the interleaved run, it returns the result it returns alone *)
Corollary noninterference_result : forall progs, all_ok progs ->
  forall sched t m r,
    result (cthr (run progs sched (cfg0 m)) t) = Some r ->
    result (snd (run_alone t (progs t) m (count_occ Nat.eq_dec sched t))) = Some r.
Proof.
  intros progs OK sched t m r H.
  destruct (noninterference_alone progs OK sched t m) as [Hs _]. now rewrite <- Hs.
Qed.

(** ** Theorem 3: race freedom *)

(* what a disciplined thread may do to a location *)
Definition access_ok (a : access) : Prop :=
  match a_eff a with
  | Read l => loc_readable (a_tid a) l
  | Write l _ => loc_writable (a_tid a) l
  end.

Lemma step_accesses_ok : forall progs t c a,
  thread_ok t (progs t) -> In a (step_accesses progs t c) -> access_ok a.
Proof.
  intros progs t c a Hok Hin. unfold step_accesses, tstep_effect in Hin.
  destruct (result (cthr c t)) as [r|]; [contradiction|].
  specialize (Hok (hist (cthr c t))).
  destruct (progs t (hist (cthr c t))) as [l|l v|r]; cbn [In] in Hin; try contradiction;
    destruct Hin as [<-|[]]; exact Hok.
Qed.

Lemma trace_accesses_ok : forall progs, all_ok progs ->
  forall sched c a, In a (trace progs sched c) -> access_ok a.
Proof.
  intros progs OK sched. induction sched as [|t rest IH]; intros c a Hin; cbn [trace] in Hin.
  - contradiction.
  - apply in_app_or in Hin. destruct Hin as [Hin|Hin].
    + eapply step_accesses_ok; [apply OK | exact Hin].
    + eapply IH; exact Hin.
Qed.

Lemma access_ok_no_conflict : forall a b, access_ok a -> access_ok b -> ~ conflict a b.
Proof.
  intros [ta ea] [tb eb] Ha Hb [Hne [Hloc Hw]].
  unfold access_ok, a_loc, a_is_write in *. cbn [a_tid a_eff] in *.
  destruct ea as [la|la va], eb as [lb|lb vb]; cbn [eff_loc eff_is_write] in *; subst lb.
  - destruct Hw; discriminate.
  - apply (writable_not_readable ta tb la); auto.
  - apply (writable_not_readable tb ta la); auto.
  - apply (writable_not_readable ta tb la); auto using writable_readable.
Qed.

Theorem race_free : forall progs, all_ok progs ->
  forall sched c a b,
    In a (trace progs sched c) -> In b (trace progs sched c) -> ~ conflict a b.
Proof.
  intros progs OK sched c a b Ha Hb.
  apply access_ok_no_conflict; eapply trace_accesses_ok; eauto.
Qed.

(* positional form: no two positions of the trace conflict *)
Corollary race_free_nth : forall progs, all_ok progs ->
  forall sched c i j a b,
    nth_error (trace progs sched c) i = Some a ->
    nth_error (trace progs sched c) j = Some b -> ~ conflict a b.
Proof.
  intros progs OK sched c i j a b Hi Hj.
  eapply race_free; eauto using nth_error_In.
Qed.

(** ** Theorem 4: results do not depend on the schedule *)

Lemma tstep_done : forall prog m s r, result s = Some r -> tstep prog m s = (m, s).
Proof. intros prog m s r H. unfold tstep. now rewrite H. Qed.

Lemma run_thread_done : forall prog k m s r, result s = Some r -> run_thread prog k m s = (m, s).
Proof.
  intros prog k. induction k as [|k IH]; intros m s r H; cbn [run_thread]; [reflexivity|].
  rewrite (tstep_done prog m s r H). cbn [fst snd]. now apply (IH m s r).
Qed.

Lemma run_thread_add : forall prog a b m s,
  run_thread prog (a + b) m s
  = run_thread prog b (fst (run_thread prog a m s)) (snd (run_thread prog a m s)).
Proof.
  intros prog a. induction a as [|a IH]; intros b m s; cbn [run_thread plus]; [reflexivity | apply IH].
Qed.

(* once finished, more fuel changes nothing *)
Lemma run_alone_stable : forall t prog m k k' r,
  result (snd (run_alone t prog m k)) = Some r -> k <= k' ->
  run_alone t prog m k' = run_alone t prog m k.
Proof.
  intros t prog m k k' r H Hle. unfold run_alone in *.
  replace k' with (k + (k' - k)) by lia. rewrite run_thread_add.
  rewrite (run_thread_done prog (k' - k) _ _ r H). now destruct (run_thread prog k m tstate0).
Qed.

(* if [t] needs [k] steps to finish alone with result [r], every schedule giving it at least [k] steps
   leaves it finished with result [r], in the state (history, private data) it reaches alone *)
Theorem enough_steps_same_as_alone : forall progs, all_ok progs ->
  forall t m k r sched,
    result (snd (run_alone t (progs t) m k)) = Some r ->
    k <= count_occ Nat.eq_dec sched t ->
    cthr (run progs sched (cfg0 m)) t = snd (run_alone t (progs t) m k) /\
    (forall n, cmem (run progs sched (cfg0 m)) (Private t n) = fst (run_alone t (progs t) m k) (Private t n)).
Proof.
  intros progs OK t m k r sched Hdone Hle.
  destruct (noninterference_alone progs OK sched t m) as [Hs Hp].
  rewrite (run_alone_stable t (progs t) m k _ r Hdone Hle) in Hs, Hp. now split.
Qed.

Theorem schedule_independent_results : forall progs, all_ok progs ->
  forall t m k r s1 s2,
    result (snd (run_alone t (progs t) m k)) = Some r ->
    k <= count_occ Nat.eq_dec s1 t ->
    k <= count_occ Nat.eq_dec s2 t ->
    result (cthr (run progs s1 (cfg0 m)) t) = Some r /\
    result (cthr (run progs s2 (cfg0 m)) t) = Some r.
Proof.
  intros progs OK t m k r s1 s2 Hdone H1 H2.
  destruct (enough_steps_same_as_alone progs OK t m k r s1 Hdone H1) as [E1 _].
  destruct (enough_steps_same_as_alone progs OK t m k r s2 Hdone H2) as [E2 _].
  rewrite E1, E2. now split.
Qed.

(* stronger: the whole thread state and the thread's private data coincide *)
Theorem schedule_independent_state : forall progs, all_ok progs ->
  forall t m k r s1 s2,
    result (snd (run_alone t (progs t) m k)) = Some r ->
    k <= count_occ Nat.eq_dec s1 t ->
    k <= count_occ Nat.eq_dec s2 t ->
    cthr (run progs s1 (cfg0 m)) t = cthr (run progs s2 (cfg0 m)) t /\
    (forall n, cmem (run progs s1 (cfg0 m)) (Private t n) = cmem (run progs s2 (cfg0 m)) (Private t n)).
Proof.
  intros progs OK t m k r s1 s2 Hdone H1 H2.
  destruct (enough_steps_same_as_alone progs OK t m k r s1 Hdone H1) as [E1 P1].
  destruct (enough_steps_same_as_alone progs OK t m k r s2 Hdone H2) as [E2 P2].
  split; [now rewrite E1, E2 | intros n; now rewrite P1, P2].
Qed.

(** ** Theorem 5: non-vacuity *)

Module Examples.

  (* reads Shared 0 twice, writes the sum to its own Private t 0, returns it *)
  Definition sum_prog (t : tid) : program := fun h =>
    match h with
    | [] => ARead (Shared 0)
    | [_] => ARead (Shared 0)
    | [a; b] => AWrite (Private t 0) (a + b)
    | a :: b :: _ => ADone (a + b)
    end.

  Definition idle : program := fun _ => ADone 0.

  Definition good_progs (t : tid) : program :=
    match t with 0 => sum_prog 0 | 1 => sum_prog 1 | _ => idle end.

  Definition m0 : mem := fun l => match l with Shared 0 => 5 | _ => 0 end.

  Lemma sum_prog_ok : forall t, thread_ok t (sum_prog t).
  Proof. intros t h. destruct h as [|a [|b [|c h]]]; cbn; auto. Qed.

  Lemma good_progs_ok : all_ok good_progs.
  Proof. intros [|[|t]]; cbn [good_progs]; [apply sum_prog_ok | apply sum_prog_ok | intros h; exact I]. Qed.

  (* alone, each needs 4 steps and returns 10 *)
  Example alone_0 : snd (run_alone 0 (good_progs 0) m0 4) = {| hist := [5; 5; 10]; result := Some 10 |}.
  Proof. vm_compute. reflexivity. Qed.
  Example alone_1 : snd (run_alone 1 (good_progs 1) m0 4) = {| hist := [5; 5; 10]; result := Some 10 |}.
  Proof. vm_compute. reflexivity. Qed.

  (* an interleaved schedule: both get the result they compute alone, and their private cells hold it *)
  Definition sched_mix : list tid := [0; 1; 1; 0; 2; 1; 0; 0; 1].

  Example interleaved_results :
    let c := run good_progs sched_mix (cfg0 m0) in
    (result (cthr c 0), result (cthr c 1), cmem c (Private 0 0), cmem c (Private 1 0), cmem c (Shared 0))
    = (Some 10, Some 10, 10, 10, 5).
  Proof. vm_compute. reflexivity. Qed.

  Example interleaved_trace :
    trace good_progs sched_mix (cfg0 m0)
    = [ {| a_tid := 0; a_eff := Read (Shared 0) |};
        {| a_tid := 1; a_eff := Read (Shared 0) |};
        {| a_tid := 1; a_eff := Read (Shared 0) |};
        {| a_tid := 0; a_eff := Read (Shared 0) |};
        {| a_tid := 1; a_eff := Write (Private 1 0) 10 |};
        {| a_tid := 0; a_eff := Write (Private 0 0) 10 |} ].
  Proof. vm_compute. reflexivity. Qed.

  (* the theorems apply to this instance *)
  Example interleaved_by_theorem :
    result (cthr (run good_progs sched_mix (cfg0 m0)) 1) = Some 10.
  Proof.
    apply (schedule_independent_results good_progs good_progs_ok 1 m0 4 10 sched_mix sched_mix).
    - vm_compute. reflexivity.
    - vm_compute. lia.
    - vm_compute. lia.
  Qed.

  (** *** The hypothesis is needed: a thread that writes a shared location *)

  Definition bad_writer : program := fun h =>
    match h with [] => AWrite (Shared 0) 7 | _ => ADone 0 end.

  Definition bad_progs (t : tid) : program :=
    match t with 0 => bad_writer | 1 => sum_prog 1 | _ => idle end.

  Lemma bad_writer_not_ok : ~ thread_ok 0 bad_writer.
  Proof. intros H. exact (H []). Qed.

  Lemma bad_progs_not_ok : ~ all_ok bad_progs.
  Proof. intros H. exact (bad_writer_not_ok (H 0)). Qed.

  (* thread 1 is itself disciplined *)
  Lemma bad_progs_reader_ok : thread_ok 1 (bad_progs 1).
  Proof. apply sum_prog_ok. Qed.

  Definition sched_a : list tid := [1; 1; 1; 1; 0; 0].
  Definition sched_b : list tid := [1; 0; 1; 1; 1; 0].
  Definition sched_c : list tid := [0; 1; 1; 1; 1; 0].

  (* thread 1 is scheduled 4 times in each, which is what it needs alone *)
  Example bad_counts :
    (count_occ Nat.eq_dec sched_a 1, count_occ Nat.eq_dec sched_b 1, count_occ Nat.eq_dec sched_c 1) = (4, 4, 4).
  Proof. vm_compute. reflexivity. Qed.

  Example bad_alone : result (snd (run_alone 1 (bad_progs 1) m0 4)) = Some 10.
  Proof. vm_compute. reflexivity. Qed.

  (* ... but its result depends on the schedule: 10, 12 or 14 *)
  Example bad_results :
    (result (cthr (run bad_progs sched_a (cfg0 m0)) 1),
     result (cthr (run bad_progs sched_b (cfg0 m0)) 1),
     result (cthr (run bad_progs sched_c (cfg0 m0)) 1))
    = (Some 10, Some 12, Some 14).
  Proof. vm_compute. reflexivity. Qed.

  (* so the conclusions of [noninterference], [schedule_independent_results] and [shared_never_written] fail *)
  Example noninterference_needs_hypothesis :
    cthr (run bad_progs sched_b (cfg0 m0)) 1
    <> cthr (run bad_progs (repeat 1 (count_occ Nat.eq_dec sched_b 1)) (cfg0 m0)) 1.
  Proof. vm_compute. intros H. discriminate H. Qed.

  Example schedule_independence_needs_hypothesis :
    result (cthr (run bad_progs sched_a (cfg0 m0)) 1) <> result (cthr (run bad_progs sched_b (cfg0 m0)) 1).
  Proof. vm_compute. intros H. discriminate H. Qed.

  Example shared_written : cmem (run bad_progs sched_b (cfg0 m0)) (Shared 0) <> m0 (Shared 0).
  Proof. vm_compute. intros H. discriminate H. Qed.

  (* and the run has a data race: thread 1's read and thread 0's write of Shared 0 *)
  Example bad_race :
    exists a b, In a (trace bad_progs sched_b (cfg0 m0)) /\ In b (trace bad_progs sched_b (cfg0 m0)) /\ conflict a b.
  Proof.
    exists {| a_tid := 1; a_eff := Read (Shared 0) |}, {| a_tid := 0; a_eff := Write (Shared 0) 7 |}.
    vm_compute. repeat split; auto. intros H; discriminate H.
  Qed.

  (** *** Why a write appends to the history (see the note at the top of the file) *)

  (* the literal reading: a write leaves the history unchanged *)
  Definition tstep_literal (prog : program) (m : mem) (s : tstate) : mem * tstate :=
    match result s with
    | Some _ => (m, s)
    | None =>
        match prog (hist s) with
        | ARead l => (m, {| hist := hist s ++ [m l]; result := None |})
        | AWrite l v => (upd m l v, s)
        | ADone r => (m, {| hist := hist s; result := Some r |})
        end
    end.

  (* then a thread whose next action is a write repeats that write forever and never finishes *)
  Lemma literal_write_loops : forall prog m s l v,
    result s = None -> prog (hist s) = AWrite l v ->
    snd (tstep_literal prog m s) = s /\
    forall m', snd (tstep_literal prog m' (snd (tstep_literal prog m s))) = s.
  Proof.
    intros prog m s l v Hr Hp. unfold tstep_literal. rewrite Hr, Hp. cbn [snd].
    split; [reflexivity|]. intros m'. now rewrite Hr, Hp.
  Qed.

End Examples.
