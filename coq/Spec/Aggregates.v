(** * Declarative definitions of the three utility aggregates (what C03 calls the defining formula) *)
From Coq Require Import ZArith Bool List String.
From RDM Require Import Base.Num Base.Util Model.Data Model.Utility.
Import ListNotations.

Section Aggregates.
  Context {N : Num}.

  (* weighted sum: sum over the weighted criteria of weight x value, value negated for cost criteria *)
  Definition ws_spec (wc : list wcrit) (a : alt) : res num :=
    do vs <- mapM (fun x => do v <- crit_value a (fst x); Ok (nmul (snd x) v)) wc; Ok (nsum vs).

  (* OWA: ascending-sorted weights times ascending-sorted values *)
  Fixpoint dot (xs ys : list num) : num :=
    match xs, ys with x :: r, y :: s => nadd (nmul x y) (dot r s) | _, _ => nzero end.
  Definition owa_spec (ws vs : list num) : num := dot (isort nltb vs) (isort nltb ws).

  (* Choquet integral, textbook form: values ascending v(1)<=..<=v(n), v(0)=0,
     sum of (v(k) - v(k-1)) x capacity of the criteria (k)..(n) *)
  Fixpoint choquet_textbook_from (sorted : list (string * num)) (prev : num) (mu : list string -> res num) : res num :=
    match sorted with
    | [] => Ok nzero
    | (c, v) :: rest =>
        do m <- mu (map fst sorted);
        do r <- choquet_textbook_from rest v mu;
        Ok (nadd (nmul (nsub v prev) m) r)
    end.
  Definition choquet_textbook (w : smap num) (a : alt) : res num :=
    choquet_textbook_from (isort cw_lt (a_vals a)) nzero (fun names => union_weight names w).
End Aggregates.
