(** * Bias listeners of the seven methods (…-bias-listener.go, bias-listener.go, criterion.go,
    satisfaction-levels/threshold-satisfaction-levels.go) *)
From Coq Require Import ZArith Bool List String.
From RDM Require Import Base.Num Base.Util Model.Data Model.Rank Model.Utility Model.Levels Model.Heuristics Model.Electre.
Import ListNotations.
Local Open Scope string_scope.
Local Open Scope list_scope.

Section Listeners.
  Context {N : Num}.

  (** ** Criteria.SortByWeights: one entry per criterion (weight looked up by id), stable ascending *)
  Definition sort_by_weights (cs : list crit) (w : smap num) : res (list wcrit) :=
    do wc <- zip_with_weights cs w; Ok (isort wc_lt wc).

  (* PrepareCumulatedWeightsMap: per criterion, the mapped values of the considered alternatives
     accumulated in alternatives order; every value an alternative holds takes part *)
  Definition cumulated_weights (s : state) (mapper : string -> num -> res num) : res (smap num) :=
    let init := fold_left (fun m c => mset (c_id c) nzero m) (st_crits s) [] in
    fold_left (fun acc a =>
                 fold_left (fun acc2 kv =>
                              do m <- acc2;
                              do x <- mapper (fst kv) (snd kv);
                              match mget (fst kv) m with
                              | Some w => Ok (mset (fst kv) (nadd w x) m)
                              | None => Ok (mset (fst kv) x m)
                              end) (a_vals a) acc)
              (st_cons s) (Ok init).

  Fixpoint find_wc (id : string) (wc : list wcrit) : res wcrit :=
    match wc with
    | [] => Err EMissing
    | x :: r => if String.eqb (c_id (fst x)) id then Ok x else find_wc id r
    end.

  (* Choquet: decomposeWeights *)
  Definition choquet_decompose (s : state) (w : smap num) : res (smap num) :=
    let init := fold_left (fun m c => mset (c_id c) nzero m) (st_crits s) [] in
    fold_left (fun acc a =>
                 do m <- acc;
                 do comps <- choquet_components w a;
                 fold_left (fun acc2 comp =>
                              fold_left (fun acc3 c =>
                                           do m3 <- acc3;
                                           match mget c m3 with
                                           | Some x => Ok (mset c (nadd x (snd comp)) m3)
                                           | None => Err EMissing
                                           end) (fst comp) acc2)
                           (snd comps) (Ok m))
              (st_cons s) (Ok init).

  (** ** RankCriteriaAscending *)
  Definition rank_criteria (s : state) : res (list wcrit) :=
    match st_params s with
    | PWs wc =>
        do w <- cumulated_weights s (fun c v => do x <- find_wc c wc; Ok (nmul (snd x) v));
        sort_by_weights (st_crits s) w
    | POwa _ => do w <- cumulated_weights s (fun _ v => Ok v); sort_by_weights (st_crits s) w
    | PSatisf _ _ _ _ _ => do w <- cumulated_weights s (fun _ v => Ok v); sort_by_weights (st_crits s) w
    | PChoquet w _ => do d <- choquet_decompose s w; sort_by_weights (st_crits s) d
    | PElectre ecs _ => sort_by_weights (st_crits s) (map (fun kv => (fst kv, ec_k (snd kv))) ecs)
    | PMajority w _ _ _ _ => sort_by_weights (st_crits s) w
    | PAspect _ _ _ w _ => sort_by_weights (st_crits s) w
    end.

  (** ** level-source listeners *)
  Definition known_level_source (d : direction) (fn : string) : bool :=
    String.eqb fn lv_thresholds || String.eqb fn lv_mul
    || String.eqb fn (match d with Increasing => lv_additive | Decreasing => lv_subtractive end).

  Definition preserve_only (w : smap num) (left : list crit) : res (smap num) :=
    fold_left (fun acc c => do m <- acc; do v <- of_option (mget (c_id c) w) EMissing; Ok (mset (c_id c) v m)) left (Ok []).

  Definition levels_removed (d : direction) (fn : string) (lp : lparams) (left : list crit) : res lparams :=
    if negb (known_level_source d fn) then Err EInvalid else
    if String.eqb fn lv_thresholds then
      do ths <- mapM (fun t => preserve_only t left) (lp_ths lp);
      Ok {| lp_coef := lp_coef lp; lp_max := lp_max lp; lp_min := lp_min lp; lp_ths := ths |}
    else Ok lp.

  (* ThresholdSatisfactionLevelsSource.OnCriterionAdded: one draw per level, then sorted
     ascending (aspect elimination) / descending (satisfaction) *)
  Definition levels_added (d : direction) (fn : string) (lp : lparams) (ref : crit) (g : rng)
    : res (option (list num) * rng) :=
    if negb (known_level_source d fn) then Err EInvalid else
    if String.eqb fn lv_thresholds then
      do r <- fold_left (fun acc t => do vg <- acc;
                                      do x <- of_option (mget (c_id ref) t) EMissing;
                                      do dg <- draw (snd vg);
                                      Ok (fst vg ++ [nmul x (fst dg)], snd dg))
                        (lp_ths lp) (Ok ([], g));
      let sorted := match d with
                    | Increasing => isort nltb (fst r)
                    | Decreasing => isort (fun a b => nltb b a) (fst r)
                    end in
      Ok (Some sorted, snd r)
    else Ok (None, g).

  Definition merge_map (w add : smap num) : res (smap num) :=
    fold_left (fun acc kv => do m <- acc; if mhas (fst kv) m then Err ECollision else Ok (mset (fst kv) (snd kv) m)) add (Ok w).

  Definition levels_merge (d : direction) (fn : string) (lp : lparams) (id : string) (vals : option (list num)) : res lparams :=
    if negb (known_level_source d fn) then Err EInvalid else
    if String.eqb fn lv_thresholds then
      match vals with
      | Some vs =>
          if negb (Nat.eqb (List.length vs) (List.length (lp_ths lp))) then Err EIndex else
          do ths <- mapM (fun tv => merge_map (fst tv) [(id, snd tv)]) (zip (lp_ths lp) vs);
          Ok {| lp_coef := lp_coef lp; lp_max := lp_max lp; lp_min := lp_min lp; lp_ths := ths |}
      | None => Err EType
      end
    else Ok lp.

  (** ** OnCriteriaRemoved *)
  Definition on_criteria_removed (left : list crit) (p : mparams) : res mparams :=
    match p with
    | PWs wc => do r <- mapM (fun c => find_wc (c_id c) wc) left; Ok (PWs r)
    | POwa wc => do r <- mapM (fun c => find_wc (c_id c) wc) left; Ok (POwa r)
    | PChoquet w _ =>
        do nw <- fold_left (fun acc s => do m <- acc; do v <- union_weight s w; Ok (mset (criterion_key s) v m))
                           (power_set (map c_id left)) (Ok []);
        Ok (PChoquet nw left)
    | PElectre ecs f =>
        do r <- fold_left (fun acc c => do m <- acc; do ec <- of_option (mget (c_id c) ecs) EMissing; Ok (mset (c_id c) ec m))
                          left (Ok []);
        Ok (PElectre r f)
    | PMajority w cur seed rnd dr => do w' <- preserve_only w left; Ok (PMajority w' cur seed rnd dr)
    | PAspect fn lp seed w rnd =>
        do lp' <- levels_removed Increasing fn lp left;
        do w' <- preserve_only w left;
        Ok (PAspect fn lp' seed w' rnd)
    | PSatisf fn lp seed cur rnd =>
        do lp' <- levels_removed Decreasing fn lp left; Ok (PSatisf fn lp' seed cur rnd)
    end.

  (** ** OnCriterionAdded: what a new criterion contributes to the parameters *)
  Inductive addition :=
  | AWeight (c : crit) (w : num)                    (* weighted sum, owa, majority *)
  | AChoquet (w : smap num) (c : crit)              (* capacities of every set containing the new criterion *)
  | AElectre (id : string) (ec : ecrit)
  | AAspect (id : string) (w : num) (ths : option (list num))
  | ASatisf (id : string) (ths : option (list num))
  | AUnknown.   (* observed additions whose JSON form hides the content (Choquet); never produced by the model *)

  Definition weight_of (id : string) (w : smap num) : num := match mget id w with Some x => x | None => nzero end.

  Definition on_criterion_added (c ref : crit) (p : mparams) (g : rng) : res (addition * rng) :=
    match p with
    | PWs wc => do r <- find_wc (c_id ref) wc; do dg <- draw g; Ok (AWeight c (nmul (fst dg) (snd r)), snd dg)
    | POwa wc => do r <- find_wc (c_id ref) wc; do dg <- draw g; Ok (AWeight c (nmul (fst dg) (snd r)), snd dg)
    | PMajority w _ _ _ _ => do dg <- draw g; Ok (AWeight c (nmul (fst dg) (weight_of (c_id ref) w)), snd dg)
    | PChoquet w cs =>
        if mem_str (c_id c) (map c_id cs) then Err ECollision else
        (* power set of the old criteria plus the new one, in Go's index order; only keys that are
           not yet present get a value: the singleton gets one draw, a union gets the capacity of
           the set without the new criterion *)
        do r <- fold_left (fun acc s =>
                             do mg <- acc;
                             let key := criterion_key s in
                             if mhas key w then Ok mg else
                             let without := filter (fun x => negb (String.eqb x (c_id c))) s in
                             match without with
                             | [] => do dg <- draw (snd mg); Ok (mset (c_id c) (fst dg) (fst mg), snd dg)
                             | _ => do v <- union_weight without w; Ok (mset key v (fst mg), snd mg)
                             end)
                          (power_set (map c_id cs ++ [c_id c])) (Ok ([], g));
        Ok (AChoquet (fst r) c, snd r)
    | PElectre ecs _ =>
        let refc := match mget (c_id ref) ecs with
                    | Some x => x
                    | None => {| ec_k := nzero; ec_q := {| lf_a := nzero; lf_b := nzero |};
                                 ec_p := {| lf_a := nzero; lf_b := nzero |}; ec_v := {| lf_a := nzero; lf_b := nzero |} |}
                    end in
        do dg <- draw g;
        Ok (AElectre (c_id c) {| ec_k := nmul (fst dg) (ec_k refc); ec_q := ec_q refc; ec_p := ec_p refc; ec_v := ec_v refc |}, snd dg)
    | PAspect fn lp _ w _ =>
        do dg <- draw g;
        do tg <- levels_added Increasing fn lp ref (snd dg);
        Ok (AAspect (c_id c) (nmul (fst dg) (weight_of (c_id ref) w)) (fst tg), snd tg)
    | PSatisf fn lp _ _ _ =>
        do tg <- levels_added Decreasing fn lp ref g;
        Ok (ASatisf (c_id c) (fst tg), snd tg)
    end.

  (** ** Merge *)
  Definition merge (p : mparams) (a : addition) : res mparams :=
    match p, a with
    | PWs wc, AWeight c w => Ok (PWs (wc ++ [(c, w)]))
    | POwa wc, AWeight c w =>
        if existsb (fun x => String.eqb (c_id (fst x)) (c_id c)) wc then Err ECollision
        (* the addition travels as a plain weights map: only the id of the new criterion survives *)
        else Ok (POwa (isort wc_lt (wc ++ [({| c_id := c_id c; c_type := TGain; c_range := None |}, w)])))
    | PMajority w cur seed rnd dr, AWeight c x => do w' <- merge_map w [(c_id c, x)]; Ok (PMajority w' cur seed rnd dr)
    | PChoquet w cs, AChoquet nw c => do w' <- merge_map w nw; Ok (PChoquet w' (cs ++ [c]))
    | PElectre ecs f, AElectre id ec => if mhas id ecs then Err ECollision else Ok (PElectre (mset id ec ecs) f)
    | PAspect fn lp seed w rnd, AAspect id x ths =>
        do lp' <- levels_merge Increasing fn lp id ths;
        do w' <- merge_map w [(id, x)];
        Ok (PAspect fn lp' seed w' rnd)
    | PSatisf fn lp seed cur rnd, ASatisf id ths =>
        do lp' <- levels_merge Decreasing fn lp id ths; Ok (PSatisf fn lp' seed cur rnd)
    | _, _ => Err EType
    end.
End Listeners.
