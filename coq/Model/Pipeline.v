(** * DecisionMaker.MakeDecision (lib/model/decision-maker.go, bias.go) *)
From Coq Require Import ZArith Bool List String Ascii.
From RDM Require Import Base.Num Base.Util Model.Data Model.Rank Model.Utility Model.Levels Model.Heuristics Model.Electre Model.Listeners Model.Biases Model.Anchoring.
Import ListNotations.
Local Open Scope string_scope.

Section Pipeline.
  Context {N : Num}.

  (** method registry (main.go [funcs]); the identifiers are re-derived from the source in Gen/Wiring.v *)
  Definition m_ws := "weightedSum".
  Definition m_owa := "owa".
  Definition m_electre := "electreIII".
  Definition m_choquet := "choquetIntegral".
  Definition m_aspect := "aspectEliminationHeuristic".
  Definition m_majority := "majorityHeuristic".
  Definition m_satisfaction := "satisfactionHeuristic".
  Definition method_names := [m_ws; m_owa; m_electre; m_choquet; m_aspect; m_majority; m_satisfaction].

  Definition is_space (c : ascii) : bool :=
    let n := nat_of_ascii c in
    Nat.eqb n 32 || Nat.eqb n 9 || Nat.eqb n 10 || Nat.eqb n 11 || Nat.eqb n 12 || Nat.eqb n 13.
  Fixpoint is_blank (s : string) : bool :=
    match s with EmptyString => true | String c r => is_space c && is_blank r end.

  (* Criteria.Validate *)
  Fixpoint validate_criteria (cs : list crit) (seen : list string) : res unit :=
    match cs with
    | [] => Ok tt
    | c :: r =>
        if mem_str (c_id c) seen then Err EInvalid else
        match c_range c with
        | Some (mn, mx) => if nleb mx mn then Err EInvalid else validate_criteria r (c_id c :: seen)
        | None => validate_criteria r (c_id c :: seen)
        end
    end.

  (* validateAlternatives *)
  Definition validate_alternatives (known : list alt) (cs : list crit) : res unit :=
    if forallb (fun a => forallb (fun c => mhas (c_id c) (a_vals a)) cs) known then Ok tt else Err EMissing.

  Fixpoint fetch_alt (l : list alt) (id : string) : res alt :=
    match l with
    | [] => Err EMissing
    | a :: r => if String.eqb (a_id a) id then Ok a else fetch_alt r id
    end.

  Definition not_considered (req : request) : list alt :=
    filter (fun a => negb (mem_str (a_id a) (r_chose req))) (r_known req).
  Definition considered (req : request) : res (list alt) :=
    mapM (fetch_alt (r_known req)) (r_chose req).

  (** ParseParams of the selected method *)
  Definition parse_params (req : request) : res mparams :=
    let m := r_method req in
    if String.eqb m m_ws then ws_parse (r_crits req) (r_mp req)
    else if String.eqb m m_owa then owa_parse (r_crits req) (r_mp req)
    else if String.eqb m m_choquet then choquet_parse (r_crits req) (r_mp req)
    else if String.eqb m m_electre then electre_parse (r_crits req) (r_mp req)
    else if String.eqb m m_majority then majority_parse (r_mp req)
    else if String.eqb m m_aspect then aspect_parse (r_mp req)
    else if String.eqb m m_satisfaction then satisfaction_parse (r_mp req)
    else Err EType.

  Definition evaluate (m : string) (e : env) (s : state) : res (list entry) :=
    if String.eqb m m_ws || String.eqb m m_owa || String.eqb m m_choquet then utility_evaluate s
    else if String.eqb m m_electre then electre_evaluate s
    else if String.eqb m m_majority then majority_evaluate e s
    else if String.eqb m m_aspect then aspect_evaluate e s
    else if String.eqb m m_satisfaction then satisfaction_evaluate e s
    else Err EType.

  Definition prepare (req : request) : res state :=
    if is_blank (r_method req) then Err EInvalid else
    do _ <- validate_criteria (r_crits req) [];
    do _ <- validate_alternatives (r_known req) (r_crits req);
    if negb (mem_str (r_method req) method_names) then Err EInvalid else
    do consd <- considered req;
    do p <- parse_params req;
    Ok {| st_notcons := not_considered req; st_cons := consd; st_crits := r_crits req; st_params := p |}.

  (** Response of the model *)
  Record echo := { ec_name : string; ec_prob : num; ec_fired : bool; ec_report : report }.
  Record response := { resp_result : list entry; resp_biases : list echo }.

  (* processBiases: one draw per enabled bias, fired iff applyProbability > draw *)
  Fixpoint process_biases (e : env) (bs : list biasreq) (cur : state) (g : rng) : res (state * list echo) :=
    match bs with
    | [] => Ok (cur, [])
    | b :: rest =>
        do dg <- draw g;
        if nltb (fst dg) (b_prob b) then
          do sr <- apply_bias e (b_name b) cur (b_props b);
          do r <- process_biases e rest (fst sr) (snd dg);
          (* a bias that returns no props (mixing with fewer than two criteria) is echoed with props null *)
          Ok (fst r, {| ec_name := b_name b; ec_prob := b_prob b;
                        ec_fired := match snd sr with RNone => false | _ => true end; ec_report := snd sr |} :: snd r)
        else
          do r <- process_biases e rest cur (snd dg);
          Ok (fst r, {| ec_name := b_name b; ec_prob := b_prob b; ec_fired := false; ec_report := RNone |} :: snd r)
    end.

  Definition enabled_biases (req : request) : list biasreq := filter (fun b => negb (b_disabled b)) (r_biases req).

  (* the state the method is evaluated on, and the bias echoes *)
  Definition biased_state (e : env) (req : request) : res (state * list echo) :=
    do st <- prepare req;
    let bs := enabled_biases req in
    (* ChooseBiases: every enabled bias must be registered *)
    if negb (forallb (fun b => mem_str (b_name b) bias_names) bs) then Err EInvalid else
    match bs with
    | [] => Ok (st, [])
    | _ => process_biases e bs st (new_rng e (r_seed req))
    end.

  Definition decide (e : env) (req : request) : res response :=
    do sb <- biased_state e req;
    do r <- evaluate (r_method req) e (fst sb);
    Ok {| resp_result := r; resp_biases := snd sb |}.
End Pipeline.
