(** * model.AlternativeResults.Ranking / positionInRanking (lib/model/alternative.go) *)
From Coq Require Import ZArith Bool List String.
From RDM Require Import Base.Num Base.Util Model.Data.
Import ListNotations.

Section Rank.
  Context {N : Num}.

  Definition scored := (alt * num)%type.

  (* AlternativeResults.Less: equal values by ascending id, otherwise higher value first *)
  Definition rank_lt (x y : scored) : bool :=
    if neqb (snd x) (snd y) then String.ltb (a_id (fst x)) (a_id (fst y))
    else nltb (snd y) (snd x).

  (* positionInRanking: the loop over the sorted list with its two flags *)
  Fixpoint pos_links (aid : string) (av : num) (l : list scored) (next : option num) : list string :=
    match l with
    | [] => []
    | (r, rv) :: t =>
        if neqb rv av && negb (String.eqb (a_id r) aid) then a_id r :: pos_links aid av t next
        else if nltb rv av then
          let nx := match next with None => rv | Some n => n end in
          if nltb rv nx then [] else a_id r :: pos_links aid av t (Some nx)
        else pos_links aid av t next
    end.

  Definition rounded (l : list scored) : list scored := map (fun x => (fst x, nround8 (snd x))) l.

  Definition ranking (l : list scored) : list entry :=
    let sorted := isort rank_lt (rounded l) in
    map (fun x => {| e_alt := fst x; e_eval := EValue (snd x);
                     e_links := pos_links (a_id (fst x)) (snd x) sorted None |}) sorted.

  (* model.Rank: evaluate every considered alternative, then rank *)
  Definition rank_with (f : alt -> res num) (cons : list alt) : res (list entry) :=
    do vs <- mapM (fun a => do v <- f a; Ok (a, v)) cons;
    Ok (ranking vs).
End Rank.
