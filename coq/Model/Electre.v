(** * ELECTRE III (lib/logic/preference-func/electreIII): credibility matrix and the two
    distillations, written over the credibility function on the *original* indices (the
    sub-matrices Go builds with Slice/Without are the restrictions of sigma to index sets). *)
From Coq Require Import ZArith Bool List String.
From RDM Require Import Base.Num Base.Util Model.Data.
Import ListNotations.
Local Open Scope string_scope.
Local Open Scope list_scope.

Section Electre.
  Context {N : Num}.

  (** ** parsing *)
  Definition require_b_at_least (f : linfun) (current : num) : res num :=
    if neqb (lf_a f) nzero && negb (neqb (lf_b f) nzero) && nleb (lf_b f) current then Err EInvalid
    else Ok (if nltb nzero (lf_b f) then lf_b f else current).

  Definition validate_ecrit (ec : ecrit) : res unit :=
    if nleb (ec_k ec) nzero then Err EInvalid else
    do w1 <- require_b_at_least (ec_q ec) nzero;
    do w2 <- require_b_at_least (ec_p ec) w1;
    do _ <- require_b_at_least (ec_v ec) w2;
    Ok tt.

  Definition default_dist : linfun := {| lf_a := c_dist_a; lf_b := c_dist_b |}.

  Definition electre_parse (cs : list crit) (rp : rawparams) : res mparams :=
    do ecs <- of_option (rp_electre rp) EMissing;
    do _ <- mapM (fun c => do ec <- of_option (mget (c_id c) ecs) EMissing; validate_ecrit ec) cs;
    (* a custom distillation function must not be negative on [0,1] (linear: at 0 and at 1) *)
    match rp_dist rp with
    | Some d => if nltb (lf_b d) nzero || nltb (nadd (lf_a d) (lf_b d)) nzero then Err EInvalid else Ok (PElectre ecs d)
    | None => Ok (PElectre ecs default_dist)
    end.

  (** ** per-criterion concordance / discordance: calculateElectreResult *)
  Definition electre_pair (c1 c2 : num) (c : crit) (ths : ecrit) : num * num :=
    if nleb c2 c1 then (none, nzero) else   (* not worse => fully concordant; the pinned tree had [>] (defect D3) *)
    let orig := sgn c c1 in
    let d := nsub c2 c1 in
    let '(q, qok) := lf_eval (ec_q ths) orig in
    if qok && nleb d q then (none, nzero) else
    let '(p, pok) := lf_eval (ec_p ths) orig in
    if pok && nleb d p then (nsub none (ndiv (nsub d q) (nsub p q)), nzero) else
    let '(v, vok) := lf_eval (ec_v ths) orig in
    if vok && nleb d v then (nzero, ndiv (nsub d p) (nsub v p)) else
    if vok && nltb v d then (nzero, none) else (nzero, nzero).

  (* electreIIICredibility: (C, credibility) *)
  Definition credibility (a1 a2 : alt) (cs : list crit) (ecs : smap ecrit) : res num :=
    do rs <- mapM (fun c =>
                     do v1 <- crit_value a1 c;
                     do v2 <- crit_value a2 c;
                     do ths <- of_option (mget (c_id c) ecs) EMissing;
                     Ok (ec_k ths, electre_pair v1 v2 c ths)) cs;
    let wsum := fold_left (fun acc r => nadd acc (fst r)) rs nzero in
    let tot := fold_left (fun acc r => nadd acc (nmul (fst r) (fst (snd r)))) rs nzero in
    let C := ndiv tot wsum in
    Ok (fold_left (fun cred r => let D := snd (snd r) in
                                 if nltb C D then nmul cred (ndiv (nsub none D) (nsub none C)) else cred)
                  rs C).

  (* credibility matrix with the diagonal already removed (0) *)
  Definition cred_matrix (alts : list alt) (cs : list crit) (ecs : smap ecrit) : res (list (list num)) :=
    mapM (fun ia => mapM (fun jb => if Nat.eqb (fst ia) (fst jb) then Ok nzero
                                    else credibility (snd ia) (snd jb) cs ecs)
                         (zip (seq 0 (List.length alts)) alts))
         (zip (seq 0 (List.length alts)) alts).

  (** ** distillation on index sets *)
  Definition sig (m : list (list num)) (i j : nat) : num :=
    match nth_opt i m with
    | Some row => match nth_opt j row with Some x => x | None => nzero end
    | None => nzero
    end.

  Definition entries (m : list (list num)) (D : list nat) : list num :=
    flat_map (fun i => map (fun j => sig m i j) D) D.

  (* Matrix.Max on the restriction (the diagonal zeros take part) *)
  Definition max_cred (m : list (list num)) (D : list nat) : num :=
    fold_left (fun best x => if nltb best x then x else best) (entries m D) nzero.

  Definition dist_value (f : linfun) (x : num) : num := fst (lf_eval f x).

  (* getDistillateMatrix: the next cut level *)
  Definition min_cred (m : list (list num)) (f : linfun) (lambda : num) (D : list nat) : num :=
    let thr := nsub lambda (dist_value f lambda) in
    fold_left (fun best x => if nltb x thr && nltb best x then x else best) (entries m D) nzero.

  (* a outranks b at this cut level *)
  Definition outranks (m : list (list num)) (f : linfun) (mc : num) (i j : nat) : bool :=
    let v := sig m i j in
    negb (nleb v mc) && nltb (nadd (sig m j i) (dist_value f v)) v && nltb nzero v.

  Definition count (p : nat -> bool) (D : list nat) : Z := Z.of_nat (List.length (filter p D)).
  Definition quality (m : list (list num)) (f : linfun) (mc : num) (D : list nat) (i : nat) : Z :=
    (count (fun j => outranks m f mc i j) D - count (fun j => outranks m f mc j i) D)%Z.

  (* findBestMatch: all indices holding the best quality; [asc] = greater is better *)
  Definition best_value (asc : bool) (qs : list Z) : Z :=
    match qs with
    | [] => 0%Z
    | q :: r => fold_left (fun b v => if asc then (if (b <? v)%Z then v else b) else (if (v <? b)%Z then v else b)) r q
    end.
  Definition best_set (m : list (list num)) (f : linfun) (mc : num) (asc : bool) (D : list nat) : list nat :=
    let qs := map (quality m f mc D) D in
    let bv := best_value asc qs in
    map fst (filter (fun iq => Z.eqb (snd iq) bv) (zip D qs)).

  (* the class taken out of D at cut level lambda (outer step and its inner distillations) *)
  Fixpoint next_class (fuel : nat) (m : list (list num)) (f : linfun) (asc : bool) (lambda : num) (D : list nat)
    : res (list nat) :=
    match fuel with
    | O => Err EOutOfFuel
    | S fu =>
        if neqb lambda nzero then Ok D else
        let mc := min_cred m f lambda D in
        let B := best_set m f mc asc D in
        if Nat.ltb 1 (List.length B) && nltb nzero mc then next_class fu m f asc mc B else Ok B
    end.

  Definition class_fuel : nat := Z.to_nat 5000.

  Fixpoint distill (fuel : nat) (m : list (list num)) (f : linfun) (asc : bool) (D : list nat) (pos : Z)
    : res (list (nat * Z)) :=
    match fuel with
    | O => Err EOutOfFuel
    | S fu =>
        match D with
        | [] => Ok []
        | _ =>
            do C <- next_class class_fuel m f asc (max_cred m D) D;
            let D' := filter (fun i => negb (existsb (Nat.eqb i) C)) D in
            let here := map (fun i => (i, pos)) C in
            if Nat.eqb (List.length D') (List.length D) then Err EOutOfFuel   (* empty class: cannot happen *)
            else do rest <- distill fu m f asc D' (pos + 1)%Z; Ok (here ++ rest)
        end
    end.

  Definition positions (n : nat) (assign : list (nat * Z)) : list Z :=
    map (fun i => match find (fun p => Nat.eqb (fst p) i) assign with Some p => snd p | None => 0%Z end) (seq 0 n).

  (* RankAscending / RankDescending *)
  Definition rank_ascending (m : list (list num)) (f : linfun) : res (list Z) :=
    let n := List.length m in
    if Nat.eqb n 0 then Err EIndex else
    do a <- distill (S n) m f true (seq 0 n) 1%Z; Ok (positions n a).
  Definition rank_descending (m : list (list num)) (f : linfun) : res (list Z) :=
    let n := List.length m in
    if Nat.eqb n 0 then Err EIndex else
    do a <- distill (S n) m f false (seq 0 n) 1%Z;
    let ps := positions n a in
    let mx := fold_left Z.max ps 0%Z in
    Ok (map (fun p => (mx + 1 - p)%Z) ps).

  (* EvaluateRanking *)
  Definition evaluate_ranking (asc desc : list Z) (alts : list alt) : list entry :=
    let rows := zip (seq 0 (List.length alts)) (zip alts (zip asc desc)) in
    map (fun r =>
           let '(ia, (a, (a1, d1))) := r in
           {| e_alt := a; e_eval := EElectre a1 d1;
              e_links := map (fun r2 => a_id (fst (snd r2)))
                             (filter (fun r2 => let '(ib, (_, (a2, d2))) := r2 in
                                                negb (Nat.eqb ia ib) && (a1 <=? a2)%Z && (d1 <=? d2)%Z) rows) |})
        rows.

  Definition electre_evaluate (s : state) : res (list entry) :=
    match st_params s with
    | PElectre ecs f =>
        do m <- cred_matrix (st_cons s) (st_crits s) ecs;
        do asc <- rank_ascending m f;
        do desc <- rank_descending m f;
        Ok (evaluate_ranking asc desc (st_cons s))
    | _ => Err EType
    end.
End Electre.
