(** * The six biases (lib/logic/biases, lib/model/criteria-ordering, criteria-splitting,
    criteria-bounding, reference-criterion, normalization.go).
    Every bias works on the *current* state; see DESIGN.md §7 for the places where the pinned tree
    read the initial state instead (repaired by fix: commits). *)
From Coq Require Import ZArith Bool List String.
From RDM Require Import Base.Num Base.Util Model.Data Model.Rank Model.Utility Model.Levels Model.Heuristics
     Model.Electre Model.Listeners.
Import ListNotations.
Local Open Scope string_scope.
Local Open Scope list_scope.

Section Biases.
  Context {N : Num}.

  (** ** names *)
  Definition b_anchoring := "anchoring".
  Definition b_concealment := "criteriaConcealment".
  Definition b_mixing := "criteriaMixing".
  Definition b_omission := "criteriaOmission".
  Definition b_fatigue := "fatigue".
  Definition b_reversal := "preferenceReversal".
  Definition bias_names := [b_anchoring; b_concealment; b_mixing; b_omission; b_fatigue; b_reversal].

  (** ** criteria ordering *)
  Definition o_weakest := "weakest".
  Definition o_strongest := "strongest".
  Definition o_random := "random".
  Definition o_weakest_prob := "weakestByProbability".
  Definition o_strongest_prob := "strongestByProbability".

  (* WeakestByProbabilityCriteriaOrderingResolver.OrderCriteria *)
  Fixpoint pick_weighted (l : list wcrit) (cur rw : num) (i : nat) : option nat :=
    match l with
    | [] => None
    | c :: r => let cur' := nadd cur (snd c) in
                if nleb rw cur' then Some i else pick_weighted r cur' rw (S i)
    end.

  Fixpoint wbp_loop (fuel : nat) (n pos : nat) (sorted : list wcrit) (total : num) (g : rng) (acc : list crit)
    : res (list crit) :=
    match fuel with
    | O => Ok acc
    | S f =>
        do dg <- draw g;
        let rw := nmul (fst dg) total in
        match pick_weighted sorted nzero rw 0 with
        | Some i =>
            match nth_opt i sorted with
            | Some c => wbp_loop f n (S pos) (remove_nth i sorted) (nsub total (snd c)) (snd dg) (acc ++ [fst c])
            | None => Err EIndex
            end
        | None =>
            let li := (n - pos - 1)%nat in
            match nth_opt li sorted with
            | Some c => wbp_loop f n (S pos) (removelast sorted) (nsub total (snd c)) (snd dg) (acc ++ [fst c])
            | None => Err EIndex
            end
        end
    end.

  Definition weakest_by_probability (e : env) (s : state) (seed : Z) : res (list crit) :=
    do sorted <- rank_criteria s;
    match sorted with
    | [] => Ok []
    | first :: _ =>
        let minw := snd first in
        let dif := if nleb minw none then nsub none minw else nzero in
        let minw' := if nleb minw none then none else minw in
        let mapped := map (fun c => (fst c, ndiv minw' (nadd (snd c) dif))) sorted in
        let total := fold_left (fun t c => nadd t (snd c)) mapped nzero in
        wbp_loop (List.length sorted) (List.length sorted) 0 mapped total (new_rng e seed) []
    end.

  Definition order_criteria (e : env) (s : state) (p : bprops) : res (list crit) :=
    let o := bp_ordering p in
    if String.eqb o "" || String.eqb o o_weakest then do r <- rank_criteria s; Ok (map fst r)
    else if String.eqb o o_strongest then do r <- rank_criteria s; Ok (rev (map fst r))
    else if String.eqb o o_random then do r <- shuffle (st_crits s) (new_rng e (bp_seed p)); Ok (fst r)
    else if String.eqb o o_weakest_prob then weakest_by_probability e s (bp_seed p)
    else if String.eqb o o_strongest_prob then do r <- weakest_by_probability e s (bp_seed p); Ok (rev r)
    else Err EInvalid.

  (** ** criteria splitting *)
  Definition is_probability (x : num) : bool := nleb nzero x && nleb x none.

  Definition split_pivot (n : nat) (p : bprops) : Z :=
    let pv := nfloorZ (nmul (nofZ (Z.of_nat n)) (bp_ratio p)) in
    if (pv <? bp_min p)%Z then bp_min p else if (bp_max p <? pv)%Z then bp_max p else pv.

  Definition split_criteria (sorted : list crit) (p : bprops) : res (list crit * list crit) :=
    if negb (is_probability (bp_ratio p)) then Err EInvalid else
    if (bp_max p <? bp_min p)%Z then Err EInvalid else
    let pv := split_pivot (List.length sorted) p in
    if (pv <? 0)%Z || (Z.of_nat (List.length sorted) <? pv)%Z then Err EIndex else
    Ok (firstn (Z.to_nat pv) sorted, skipn (Z.to_nat pv) sorted).

  (** ** bounding *)
  Definition scale_equally (r : num * num) (scale : num) : num * num :=
    let dif := ndiv (range_diff r) c_two in
    (nsub (nadd (fst r) dif) (nmul dif scale), nadd (nsub (snd r) dif) (nmul dif scale)).

  (* CriteriaBounding.WithRange(range).BoundValue *)
  Definition bound_value (p : bprops) (r : num * num) (v : num) : num :=
    let v1 := if bp_nonneg p && nltb v nzero then nzero else v in
    if nltb nzero (bp_scaling p) then
      let sr := if neqb (bp_scaling p) none then r else scale_equally r (bp_scaling p) in
      let v2 := if nltb v1 (fst sr) then fst sr else v1 in
      if nltb (snd sr) v2 then snd sr else v2
    else v1.

  Definition valid_bounding (p : bprops) : bool := negb (neqb (bp_scaling p) nzero).

  (** ** reference criterion *)
  Definition rc_importance := "importanceRatio".
  Definition rc_uniform := "randomUniform".
  Definition rc_weighted := "randomWeighted".

  (* FindCriterionInRange *)
  Fixpoint find_in_range (l : list wcrit) (cur expected : num) : option crit :=
    match l with
    | [] => None
    | c :: r => let cur' := nadd cur (snd c) in
                if nleb expected cur' then Some (fst c) else
                match r with [] => Some (fst c) | _ => find_in_range r cur' expected end
    end.

  Definition reference_criterion (e : env) (ranked : list wcrit) (p : bprops) : res crit :=
    let t := bp_ref_type p in
    if String.eqb t "" || String.eqb t rc_importance then
      let total := fold_left (fun acc c => nadd acc (snd c)) ranked nzero in
      of_option (find_in_range ranked nzero (nmul (bp_ref_importance p) total)) EIndex
    else if String.eqb t rc_uniform then
      do dg <- draw (new_rng e (bp_ref_seed p));
      let i := nfloorZ (nmul (fst dg) (nofZ (Z.of_nat (List.length ranked)))) in
      do c <- of_option (nth_opt (Z.to_nat i) ranked) EIndex; Ok (fst c)
    else if String.eqb t rc_weighted then
      let minv := fold_left (fun m c => if nltb (snd c) m then snd c else m) ranked c_maxfloat in
      let mapped := map (fun c => (fst c, ndiv minv (snd c))) ranked in
      let total := fold_left (fun acc c => nadd acc (snd c)) mapped nzero in
      do dg <- draw (new_rng e (bp_ref_seed p));
      of_option (find_in_range mapped nzero (nmul (fst dg) total)) EIndex
    else Err EInvalid.

  (** ** helpers on alternatives *)
  Definition update_alts (old new : list alt) : res (list alt) := mapM (fun a => fetch_alt' new (a_id a)) old.
  Definition with_value (a : alt) (id : string) (v : num) : res alt :=
    if mhas id (a_vals a) then Err ECollision else Ok {| a_id := a_id a; a_vals := mset id v (a_vals a) |}.
  Definition alt_lt (a b : alt) : bool := String.ltb (a_id a) (a_id b).
  Definition add_criterion (cs : list crit) (c : crit) : res (list crit) :=
    if mem_str (c_id c) (map c_id cs) then Err ECollision else Ok (cs ++ [c]).
  (* Criteria.NotUsedName *)
  (* first guess: the number of ids sharing the prefix; then count on while the candidate is taken.
     The loop of the code ends by a pigeonhole argument; [S (length cs)] steps of fuel are enough
     (theorem [not_used_name_fresh] in Proofs/AdditionFacts.v). *)
  Definition name_candidate (name : string) (n : nat) : string :=
    if Nat.eqb n 0 then name else name ++ nat_to_string n.
  Fixpoint first_free_name (fuel : nat) (ids : list string) (name : string) (n : nat) : string :=
    match fuel with
    | O => name_candidate name n
    | S f => if mem_str (name_candidate name n) ids then first_free_name f ids name (S n)
             else name_candidate name n
    end.
  Definition not_used_name (cs : list crit) (name : string) : string :=
    let n := List.length (filter (fun c => has_prefix name (c_id c)) cs) in
    first_free_name (S (List.length cs)) (map c_id cs) name n.

  (** ** reports *)
  Record component := { cp_id : string; cp_type : ctype; cp_values : smap num }.
  Inductive applier_report :=
  | ARInline (diffs : list alt)
  | ARNew (ref : crit) (added : list (crit * smap num * addition)).
  Inductive report :=
  | RNone
  | ROmission (omitted : list crit)
  | RReversal (items : list (crit * (num * num) * smap num))
  | RFatigue (f : num) (cons notcons : list alt)
  | RConcealment (c : crit) (values : smap num) (add : addition)
  | RMixing (c1 c2 cn : component) (add : addition)
  | RAnchoring (refs : list alt) (scaling : smap (num * (num * num))) (diffs : list (alt * list (string * smap num)))
               (ar : applier_report).

  (** ** criteria omission *)
  Definition with_criteria_only (a : alt) (cs : list crit) : res alt :=
    do vals <- fold_left (fun acc c => do m <- acc; do v <- raw_value a c; Ok (mset (c_id c) v m)) cs (Ok []);
    Ok {| a_id := a_id a; a_vals := vals |}.

  Definition apply_omission (e : env) (cur : state) (p : bprops) : res (state * report) :=
    if negb (is_probability (bp_ratio p)) || (bp_max p <? bp_min p)%Z then Err EInvalid else
    do sorted <- order_criteria e cur p;
    do lr <- split_criteria sorted p;
    let '(lft, rgt) := lr in
    do params <- on_criteria_removed rgt (st_params cur);
    do consd <- mapM (fun a => with_criteria_only a rgt) (st_cons cur);
    do nconsd <- mapM (fun a => with_criteria_only a rgt) (st_notcons cur);
    Ok ({| st_notcons := nconsd; st_cons := consd; st_crits := rgt; st_params := params |}, ROmission lft).

  (** ** preference reversal *)
  Definition apply_reversal (e : env) (cur : state) (p : bprops) : res (state * report) :=
    if negb (is_probability (bp_ratio p)) || (bp_max p <? bp_min p)%Z then Err EInvalid else
    do sorted <- order_criteria e cur p;
    do lr <- split_criteria sorted p;
    let all := all_alts cur in
    do items <- mapM (fun c => do r <- values_range all c; Ok (c, r)) (fst lr);
    do new_all <- mapM (fun a =>
                          do vals <- fold_left (fun acc cr =>
                                                  do m <- acc;
                                                  do v <- of_option (mget (c_id (fst cr)) m) EMissing;
                                                  Ok (mset (c_id (fst cr)) (nadd (nsub (snd (snd cr)) v) (fst (snd cr))) m))
                                               items (Ok (a_vals a));
                          Ok {| a_id := a_id a; a_vals := vals |}) all;
    do consd <- update_alts (st_cons cur) new_all;
    do nconsd <- update_alts (st_notcons cur) new_all;
    let rep := map (fun cr =>
                      (fst cr, snd cr,
                       fold_left (fun m a => match mget (c_id (fst cr)) (a_vals a) with
                                             | Some v => mset (a_id a) v m | None => m end) new_all [])) items in
    Ok ({| st_notcons := nconsd; st_cons := consd; st_crits := st_crits cur; st_params := st_params cur |},
        RReversal rep).

  (** ** fatigue *)
  Definition f_const := "const".
  Definition f_exp := "expFromZero".
  (* ExpFromZeroFunction.Evaluate: multiplier*exp(alpha*value) - multiplier *)
  Definition exp_from_zero (e : env) (alpha mult x : num) : res num :=
    do ex <- exp_oracle e (nmul alpha x); Ok (nsub (nmul mult ex) mult).

  Definition fatigue_ratio (e : env) (p : bprops) : res num :=
    if String.eqb (bp_fat_function p) f_const then Ok (bp_fat_value p)
    else if String.eqb (bp_fat_function p) f_exp then
      exp_from_zero e (bp_fat_alpha p) (bp_fat_mult p) (nofZ (bp_fat_query p))
    else Err EInvalid.

  Fixpoint blur_values (cs : list (crit * (num * num))) (a : alt) (p : bprops) (f : num) (gv gs : rng) (acc : smap num)
    : res (smap num * rng * rng) :=
    match cs with
    | [] => Ok (acc, gv, gs)
    | (c, r) :: rest =>
        do v <- raw_value a c;
        do dv <- draw gv;
        do ds <- draw gs;
        let eps := nmul (nmul v (fst dv)) f in
        let sign := if nleb c_half (fst ds) then nopp none else none in
        let blurred := nadd v (nmul eps sign) in
        blur_values rest a p f (snd dv) (snd ds) (mset (c_id c) (bound_value p r blurred) acc)
    end.

  Fixpoint blur_alts (cs : list (crit * (num * num))) (l : list alt) (p : bprops) (f : num) (gv gs : rng) (acc : list alt)
    : res (list alt * rng * rng) :=
    match l with
    | [] => Ok (acc, gv, gs)
    | a :: rest =>
        do r <- blur_values cs a p f gv gs [];
        let '(vals, gv', gs') := r in
        blur_alts cs rest p f gv' gs' (acc ++ [{| a_id := a_id a; a_vals := vals |}])
    end.

  Definition apply_fatigue (e : env) (cur : state) (p : bprops) : res (state * report) :=
    do f <- fatigue_ratio e p;
    if negb (valid_bounding p) then Err EInvalid else
    do crs <- mapM (fun c => do r <- values_range (all_alts cur) c; Ok (c, r)) (st_crits cur);
    do r1 <- blur_alts crs (st_cons cur) p f (new_rng e (bp_seed p)) (new_rng e (bp_seed p)) [];
    let '(consd, gv, gs) := r1 in
    do r2 <- blur_alts crs (st_notcons cur) p f gv gs [];
    let '(nconsd, _, _) := r2 in
    Ok ({| st_notcons := nconsd; st_cons := consd; st_crits := st_crits cur; st_params := st_params cur |},
        RFatigue f consd nconsd).

  (** ** criteria concealment *)
  Definition base_concealed := "__concealedCriterion__".

  Definition apply_concealment (e : env) (cur : state) (p : bprops) : res (state * report) :=
    if neqb (bp_new_scaling p) nzero then Err EInvalid else
    if negb (valid_bounding p) then Err EInvalid else
    let g := new_rng e (bp_seed p) in
    do ranked <- rank_criteria cur;
    do ref <- reference_criterion e ranked p;
    do rr <- values_range (all_alts cur) ref;
    let rng_ := scale_equally rr (bp_new_scaling p) in
    let newc := {| c_id := not_used_name (st_crits cur) base_concealed; c_type := TGain; c_range := Some rng_ |} in
    let dif := nsub (snd rng_) (fst rng_) in
    let sorted := isort alt_lt (all_alts cur) in
    do r <- fold_left (fun acc a =>
                         do st <- acc;
                         let '(alts, vals, g1) := st in
                         do dg <- draw g1;
                         let v := bound_value p rng_ (nadd (nmul (fst dg) dif) (fst rng_)) in
                         do a' <- with_value a (c_id newc) v;
                         Ok (alts ++ [a'], mset (a_id a) v vals, snd dg))
                      sorted (Ok ([], [], g));
    let '(new_all, values, g2) := r in
    do consd <- update_alts (st_cons cur) new_all;
    do nconsd <- update_alts (st_notcons cur) new_all;
    do ag <- on_criterion_added newc ref (st_params cur) g2;
    do params <- merge (st_params cur) (fst ag);
    do crits <- add_criterion (st_crits cur) newc;
    Ok ({| st_notcons := nconsd; st_cons := consd; st_crits := crits; st_params := params |},
        RConcealment newc values (fst ag)).

  (** ** criteria mixing *)
  Definition ground_zero_range (r : num * num) : num * num :=
    (nzero, nmax (nmax (nabs (fst r)) (nabs (snd r))) (range_diff r)).
  Definition scale_ratio (target cur : num * num) : num :=
    if neqb (range_diff cur) nzero then nzero else ndiv (range_diff target) (range_diff cur).

  (* RescaleCriterion *)
  Definition rescale_criterion (c : crit) (alts : list alt) (target : num * num) : res (smap num) :=
    do cr <- values_range alts c;
    let sc := scale_ratio target cr in
    fold_left (fun acc a => do m <- acc;
                            do v <- raw_value a c;
                            Ok (mset (a_id a)
                                     (if is_cost c then nadd (nmul (nsub (snd cr) v) sc) (fst target)
                                      else nadd (nmul (nsub v (fst cr)) sc) (fst target)) m))
              alts (Ok []).

  Definition apply_mixing (e : env) (cur : state) (p : bprops) : res (state * report) :=
    if Nat.ltb (List.length (st_crits cur)) 2 then Ok (cur, RNone) else
    if negb (is_probability (bp_mix_ratio p)) then Err EInvalid else
    let g := new_rng e (bp_seed p) in
    let n := List.length (st_crits cur) in
    do d1 <- draw g;
    do d2 <- draw (snd d1);
    let i1 := ntruncZ (nmul (fst d1) (nofZ (Z.of_nat n))) in
    let off := (ntruncZ (nmul (fst d2) (nofZ (Z.of_nat n - 2))) + 1)%Z in
    do c1 <- of_option (nth_opt (Z.to_nat i1) (st_crits cur)) EIndex;
    do c2 <- of_option (nth_opt (Z.to_nat ((i1 + off) mod Z.of_nat n)) (st_crits cur)) EIndex;
    let all := all_alts cur in
    do ranked <- rank_criteria cur;
    do ref <- reference_criterion e ranked p;
    do rr <- values_range all ref;
    let target := ground_zero_range rr in
    do v1 <- rescale_criterion c1 all target;
    do v2 <- rescale_criterion c2 all target;
    do mixed <- fold_left (fun acc kv => do m <- acc;
                                         do y <- of_option (mget (fst kv) v2) EMissing;
                                         Ok (mset (fst kv) (nadd (nmul (snd kv) (bp_mix_ratio p))
                                                                 (nmul y (nsub none (bp_mix_ratio p)))) m))
                          v1 (Ok []);
    let newc := {| c_id := not_used_name (st_crits cur) ("__" ++ c_id c1 ++ "+" ++ c_id c2 ++ "__"); c_type := TGain; c_range := Some target |} in
    do ag <- on_criterion_added newc ref (st_params cur) (snd d2);
    do params <- merge (st_params cur) (fst ag);
    do new_all <- mapM (fun a => do v <- of_option (mget (a_id a) mixed) EMissing; with_value a (c_id newc) v) all;
    do consd <- update_alts (st_cons cur) new_all;
    do nconsd <- update_alts (st_notcons cur) new_all;
    do crits <- add_criterion (st_crits cur) newc;
    Ok ({| st_notcons := nconsd; st_cons := consd; st_crits := crits; st_params := params |},
        RMixing {| cp_id := c_id c1; cp_type := c_type c1; cp_values := v1 |}
                {| cp_id := c_id c2; cp_type := c_type c2; cp_values := v2 |}
                {| cp_id := c_id newc; cp_type := TGain; cp_values := mixed |} (fst ag)).
End Biases.
