(** * Aspiration-level sources (lib/logic/limited-rationality/satisfaction-levels) and
    CriteriaValuesRange (lib/model/alternative.go) *)
From Coq Require Import ZArith Bool List String.
From RDM Require Import Base.Num Base.Util Model.Data.
Import ListNotations.
Local Open Scope string_scope.

Section Levels.
  Context {N : Num}.

  (* CriteriaValuesRange: the declared range, else min/max over the given alternatives ((0,0) if none) *)
  Fixpoint observed_range_from (l : list alt) (c : crit) (mn mx : num) : res (num * num) :=
    match l with
    | [] => Ok (mn, mx)
    | a :: r => do v <- raw_value a c;
                let mn' := if nltb v mn then v else mn in   (* if valRange.Min > value *)
                let mx' := if nltb mx v then v else mx in   (* if valRange.Max < value *)
                observed_range_from r c mn' mx'
    end.
  Definition values_range (alts : list alt) (c : crit) : res (num * num) :=
    match c_range c with
    | Some r => Ok r
    | None => match alts with
              | [] => Ok (nzero, nzero)
              | a :: r => do v <- raw_value a c; observed_range_from r c v v
              end
    end.
  Definition range_diff (r : num * num) : num := nsub (snd r) (fst r).

  (** names wired in httpClient/main.go (re-derived in Gen/Wiring.v) *)
  Definition lv_thresholds := "thresholds".
  Definition lv_mul := "idealMultipliedCoefficient".
  Definition lv_additive := "idealAdditiveCoefficient".
  Definition lv_subtractive := "idealSubtractiveCoefficient".

  Inductive direction := Increasing | Decreasing.
  Inductive series := SMul | SAdd.     (* multiplicative / additive(subtractive) update *)

  (* the four updateCoefficient closures *)
  Definition update_value (d : direction) (s : series) (cur coef : num) : num :=
    match d, s with
    | Increasing, SMul => nmin (nsub (nmul (nadd none cur) (nadd none coef)) none) none
    | Increasing, SAdd => nmin (nadd cur coef) none
    | Decreasing, SMul => nmul cur coef
    | Decreasing, SAdd => nmax (nsub cur coef) nzero
    end.

  Definition validate_coef (d : direction) (lp : lparams) : bool :=
    let c := lp_coef lp in
    if nleb c nzero || nleb none c then false else
    match d with
    | Increasing =>
        negb (nltb (lp_min lp) nzero || nltb none (lp_min lp)) && negb (nltb (lp_max lp) nzero || nltb none (lp_max lp))
    | Decreasing =>
        negb (nleb (lp_min lp) nzero || nltb none (lp_min lp)) && negb (nltb none (lp_max lp) || nleb (lp_max lp) nzero)
    end.

  Definition has_next (d : direction) (lp : lparams) (cur : num) : bool :=
    match d with Increasing => nltb cur (lp_max lp) | Decreasing => nltb (lp_min lp) cur end.
  Definition initial_value (d : direction) (lp : lparams) : num :=
    match d with Increasing => lp_min lp | Decreasing => lp_max lp end.

  (* IdealCoefficientSatisfactionLevels.Next: the thresholds at ratio [cur] *)
  Definition level_at (crs : list (crit * (num * num))) (cur : num) : smap num :=
    fold_left (fun m cr =>
                 let '(c, r) := cr in
                 let delta := nmul (range_diff r) cur in
                 mset (c_id c) (if is_cost c then nsub (snd r) delta else nadd (fst r) delta) m)
              crs [].

  (** a level source after Initialize *)
  Inductive lsource :=
  | LIdeal (d : direction) (s : series) (lp : lparams) (crs : list (crit * (num * num))) (cur : num)
  | LThs (rest : list (smap num)).

  Definition lv_next (l : lsource) : option (smap num * lsource) :=
    match l with
    | LIdeal d s lp crs cur =>
        if has_next d lp cur then Some (level_at crs cur, LIdeal d s lp crs (update_value d s cur (lp_coef lp)))
        else None
    | LThs [] => None
    | LThs (t :: r) => Some (t, LThs r)
    end.

  (* Find + Initialize. [d] is the family wired to the heuristic (increasing: aspect elimination,
     decreasing: satisfaction) *)
  Definition lv_init (d : direction) (fn : string) (lp : lparams) (s : state) : res lsource :=
    if String.eqb fn "" then Err EInvalid else
    let ideal (sr : series) :=
      if negb (validate_coef d lp) then Err EInvalid else
      do crs <- mapM (fun c => do r <- values_range (all_alts s) c; Ok (c, r)) (st_crits s);
      Ok (LIdeal d sr lp crs (initial_value d lp)) in
    if String.eqb fn lv_mul then ideal SMul
    else if String.eqb fn (match d with Increasing => lv_additive | Decreasing => lv_subtractive end) then ideal SAdd
    else if String.eqb fn lv_thresholds then
      if forallb (fun t => forallb (fun c => mhas (c_id c) t) (st_crits s)) (lp_ths lp) then Ok (LThs (lp_ths lp))
      else Err EMissing
    else Err EInvalid.

  (* the whole series, for specifications and tests (fuel-bounded) *)
  Fixpoint lv_all (fuel : nat) (l : lsource) : res (list (smap num)) :=
    match fuel with
    | O => Err EOutOfFuel
    | S f => match lv_next l with
             | None => Ok []
             | Some (t, l') => do r <- lv_all f l'; Ok (t :: r)
             end
    end.
  (* the first n levels (fewer if the series ends earlier) *)
  Fixpoint lv_prefix (n : nat) (l : lsource) : list (smap num) :=
    match n with
    | O => []
    | S m => match lv_next l with None => [] | Some (t, l') => t :: lv_prefix m l' end
    end.
End Levels.
