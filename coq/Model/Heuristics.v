(** * Heuristics: search order, majority, aspect elimination, satisfaction
    (lib/logic/limited-rationality). Lists are immutable: where the Go code relies on slice
    aliasing the model has the intended list semantics (see DESIGN.md §3.3, §7 D1 D4). *)
From Coq Require Import ZArith Bool List String.
From RDM Require Import Base.Num Base.Util Model.Data Model.Rank Model.Utility Model.Levels.
Import ListNotations.
Local Open Scope string_scope.
Local Open Scope list_scope.

Section Heuristics.
  Context {N : Num}.

  (** ** ShuffleAlternatives / shuffleCriteria: for i = n-1 .. 1: j = int(g()*i); swap i j *)
  Fixpoint shuffle_from {A} (i : nat) (l : list A) (g : rng) : res (list A * rng) :=
    match i with
    | O => Ok (l, g)
    | S i' =>
        do dg <- draw g;
        let j := Z.to_nat (ntruncZ (nmul (fst dg) (nofZ (Z.of_nat i)))) in
        match nth_opt i l, nth_opt j l with
        | Some xi, Some xj => shuffle_from i' (replace_nth j xi (replace_nth i xj l)) (snd dg)
        | _, _ => Err EIndex
        end
    end.
  Definition shuffle {A} (l : list A) (g : rng) : res (list A * rng) :=
    shuffle_from (List.length l - 1) l g.

  Definition order_alternatives (rnd : bool) (l : list alt) (g : rng) : res (list alt * rng) :=
    if rnd then shuffle l g else Ok (l, g).

  Fixpoint remove_alt (l : list alt) (id : string) : list alt :=
    match l with
    | [] => []
    | a :: r => if String.eqb (a_id a) id then r else a :: remove_alt r id
    end.

  Fixpoint fetch_alt' (l : list alt) (id : string) : res alt :=
    match l with
    | [] => Err EMissing
    | a :: r => if String.eqb (a_id a) id then Ok a else fetch_alt' r id
    end.

  (* GetAlternativesSearchOrder *)
  Definition search_order (s : state) (cur : string) (rnd : bool) (g : rng) : res (alt * list alt * rng) :=
    if negb (String.eqb cur "") then
      do choice <- fetch_alt' (all_alts s) cur;
      do og <- order_alternatives rnd (remove_alt (st_cons s) (a_id choice)) g;
      Ok (choice, fst og, snd og)
    else
      do og <- order_alternatives rnd (st_cons s) g;
      match fst og with
      | [] => Err EIndex
      | x :: r => Ok (x, r, snd og)
      end.

  (* PrepareSequentialRanking: every entry is linked to the next one only *)
  Fixpoint sequential_ranking (l : list (alt * evaluation)) : list entry :=
    match l with
    | [] => []
    | (a, ev) :: r =>
        {| e_alt := a; e_eval := ev;
           e_links := match r with [] => [] | (b, _) :: _ => [a_id b] end |} :: sequential_ranking r
    end.

  (** ** Majority *)
  Definition draw_allow := "allow".
  Definition draw_current := "current".
  Definition draw_newer := "newer".
  Definition draw_random := "random".

  (* compare: the weight of a criterion goes to the side whose signed value is larger by more than eps *)
  Definition compare_alts (cw : list wcrit) (a1 a2 : alt) : res (num * num) :=
    fold_left (fun acc c =>
                 do sc <- acc;
                 do v1 <- crit_value a1 (fst c);
                 do v2 <- crit_value a2 (fst c);
                 if floats_are_equal v1 v2 c_eps6 then Ok sc
                 else if nltb v2 v1 then Ok (nadd (fst sc) (snd c), snd sc)
                 else Ok (fst sc, nadd (snd sc) (snd c)))
              cw (Ok (nzero, nzero)).

  Definition mres := (alt * evaluation)%type.
  Record mstate := { ms_worse : list (list mres); ms_same : list mres; ms_current : alt; ms_eval : num }.

  Inductive resolution := RAllow | RCurrent | RNewer.

  Definition resolve (r : resolution) (s1 s2 : num) (st : mstate) (another : alt) : mstate :=
    let cur := ms_current st in
    match r with
    | RAllow =>
        {| ms_worse := ms_worse st;
           ms_same := ms_same st ++ [(another, EMajority s2 (a_id cur) s1)];
           ms_current := cur; ms_eval := s1 |}
    | RCurrent =>
        {| ms_worse := ms_worse st ++ [[(another, EMajority s2 (a_id cur) s1)]];
           ms_same := ms_same st; ms_current := cur; ms_eval := s1 |}
    | RNewer =>
        {| ms_worse := ms_worse st ++ [ms_same st ++ [(cur, EMajority s1 (a_id another) s2)]];
           ms_same := []; ms_current := another; ms_eval := s1 |}
    end.

  (* takeBetter *)
  Definition take_better (policy : string) (s1 s2 : num) (st : mstate) (another : alt) (g : rng)
    : res (mstate * rng) :=
    if floats_are_equal s1 s2 c_eps6 then
      if String.eqb policy draw_allow then Ok (resolve RAllow s1 s2 st another, g)
      else if String.eqb policy draw_current then Ok (resolve RCurrent s1 s2 st another, g)
      else if String.eqb policy draw_newer then Ok (resolve RNewer s1 s2 st another, g)
      else (* random *)
        do dg <- draw g;
        if nltb (fst dg) c_half then Ok (resolve RCurrent s1 s2 st another, snd dg)
        else Ok (resolve RNewer s1 s2 st another, snd dg)
    else if nltb s2 s1 then Ok (resolve RCurrent s1 s2 st another, g)
    else
      let st' := resolve RNewer s1 s2 st another in
      Ok ({| ms_worse := ms_worse st'; ms_same := ms_same st'; ms_current := ms_current st'; ms_eval := s2 |}, g).

  (* prepareRanking: links = ids of the previous group, then the other members of the own group *)
  Fixpoint group_entries (prev : list string) (before after : list mres) : list entry :=
    match after with
    | [] => []
    | (a, ev) :: r =>
        {| e_alt := a; e_eval := ev;
           e_links := prev ++ map (fun x => a_id (fst x)) before ++ map (fun x => a_id (fst x)) r |}
          :: group_entries prev (before ++ [(a, ev)]) r
    end.
  Fixpoint prepare_groups (prev : list string) (groups : list (list mres)) : list entry :=
    match groups with
    | [] => []
    | gr :: r => group_entries prev [] gr ++ prepare_groups (map (fun x => a_id (fst x)) gr) r
    end.
  Definition prepare_ranking (groups : list (list mres)) : list entry := rev (prepare_groups [] groups).

  Definition valid_policy (p : string) : bool :=
    String.eqb p draw_allow || String.eqb p draw_current || String.eqb p draw_newer || String.eqb p draw_random.

  Definition majority_evaluate (e : env) (s : state) : res (list entry) :=
    match st_params s with
    | PMajority w cur seed rnd drawp =>
        do cw <- zip_with_weights (st_crits s) w;
        let g := new_rng e seed in
        do so <- search_order s cur rnd g;
        let '(current, considered, g1) := so in
        let policy := if String.eqb drawp "" then draw_allow else drawp in
        if negb (valid_policy policy) then Err EInvalid else
        do fin <- fold_left (fun acc another =>
                               do sg <- acc;
                               do sc <- compare_alts cw (ms_current (fst sg)) another;
                               take_better policy (fst sc) (snd sc) (fst sg) another (snd sg))
                            considered
                            (Ok ({| ms_worse := []; ms_same := []; ms_current := current; ms_eval := nzero |}, g1));
        let st := fst fin in
        let same := ms_same st ++ [(ms_current st, EMajority (ms_eval st) "" nzero)] in
        Ok (prepare_ranking (ms_worse st ++ [same]))
    | _ => Err EType
    end.

  (** ** Aspect elimination *)
  (* sortCriteria: weight descending; ties are broken by generator draws inside an unstable sort,
     exact correspondence is claimed for pairwise distinct weights only *)
  Definition wc_gt (x y : wcrit) : bool := nltb (snd y) (snd x).

  Definition is_below (a : alt) (t : smap num) (c : crit) : res bool :=
    do v <- crit_value a c;
    let th := match mget (c_id c) t with Some x => x | None => nzero end in
    Ok (nltb v (sgn c th)).

  (* one criterion of one level: walk the list as it was when the criterion started *)
  Fixpoint aspect_walk (todo : list alt) (temp : list alt) (t : smap num) (c : crit) (idx : Z)
           (elim : list mres) : res (list alt * list mres * bool) :=
    match todo with
    | [] => Ok (temp, elim, false)
    | a :: r =>
        do b <- is_below a t c;
        let temp' := if b then remove_alt temp (a_id a) else temp in
        let th := match mget (c_id c) t with Some x => x | None => nzero end in
        let elim' := if b then elim ++ [(a, EAspect [(c_id c, th)] idx)] else elim in
        if Nat.leb (List.length temp') 1 then Ok (temp', elim', true)
        else aspect_walk r temp' t c idx elim'
    end.

  Fixpoint aspect_criteria (cs : list wcrit) (left : list alt) (t : smap num) (idx : Z) (elim : list mres)
    : res (list alt * list mres * bool) :=
    match cs with
    | [] => Ok (left, elim, false)
    | c :: r =>
        do w <- aspect_walk left left t (fst c) idx elim;
        let '(left', elim', stop) := w in
        if stop then Ok (left', elim', true) else aspect_criteria r left' t idx elim'
    end.

  Fixpoint aspect_levels (fuel : nat) (src : lsource) (cs : list wcrit) (left : list alt) (idx : Z) (elim : list mres)
    : res (list alt * list mres * Z) :=
    match fuel with
    | O => Err EOutOfFuel
    | S f =>
        match lv_next src with
        | None => Ok (left, elim, idx)
        | Some (t, src') =>
            let idx' := (idx + 1)%Z in
            do w <- aspect_criteria cs left t idx' elim;
            let '(left', elim', stop) := w in
            if stop then Ok (left', elim', idx') else aspect_levels f src' cs left' idx' elim'
        end
    end.

  Definition level_fuel : nat := Z.to_nat 200000.

  Definition aspect_evaluate (e : env) (s : state) : res (list entry) :=
    match st_params s with
    | PAspect fn lp seed w rnd =>
        do src <- lv_init Increasing fn lp s;
        let g := new_rng e seed in
        do og <- order_alternatives rnd (st_cons s) g;
        do cw <- zip_with_weights (st_crits s) w;
        let cs := isort wc_gt cw in
        let alts := fst og in
        do r <- (if Nat.leb (List.length alts) 1 then Ok (alts, [], (-1)%Z)
                 else aspect_levels level_fuel src cs alts (-1)%Z []);
        let '(lft, elim, idx) := r in
        let survivors := map (fun a => (a, EAspect [] (idx + 1)%Z)) lft in
        Ok (sequential_ranking (survivors ++ rev elim))
    | _ => Err EType
    end.

  (** ** Satisfaction *)
  Definition good_enough (a : alt) (ths : list wcrit) : res bool :=
    fold_left (fun acc c => do b <- acc;
                            do v <- crit_value a (fst c);
                            Ok (b && negb (nltb v (sgn (fst c) (snd c)))))
              ths (Ok true).

  Fixpoint satisf_walk (todo temp : list alt) (ths : list wcrit) (t : smap num) (idx : Z) (acc : list mres)
    : res (list alt * list mres) :=
    match todo with
    | [] => Ok (temp, acc)
    | a :: r =>
        do b <- good_enough a ths;
        if b then satisf_walk r (remove_alt temp (a_id a)) ths t idx (acc ++ [(a, ESatisf t idx)])
        else satisf_walk r temp ths t idx acc
    end.

  Fixpoint satisf_levels (fuel : nat) (src : lsource) (cs : list crit) (left : list alt) (idx : Z) (acc : list mres)
    : res (list alt * list mres * Z) :=
    match fuel with
    | O => Err EOutOfFuel
    | S f =>
        match lv_next src with
        | None => Ok (left, acc, idx)
        | Some (t, src') =>
            let idx' := (idx + 1)%Z in
            do ths <- zip_with_weights cs t;
            do w <- satisf_walk left left ths t idx' acc;
            match fst w with
            | [] => Ok ([], snd w, idx')
            | _ => satisf_levels f src' cs (fst w) idx' (snd w)
            end
        end
    end.

  (* weightsSupplier: the worst value of each criterion's range over all known alternatives *)
  Definition lowest_thresholds (s : state) : res (smap num) :=
    fold_left (fun acc c => do m <- acc;
                            do r <- values_range (all_alts s) c;
                            Ok (mset (c_id c) (if is_cost c then snd r else fst r) m))
              (st_crits s) (Ok []).

  Definition satisfaction_evaluate (e : env) (s : state) : res (list entry) :=
    match st_params s with
    | PSatisf fn lp seed cur rnd =>
        do src <- lv_init Decreasing fn lp s;
        let g := new_rng e seed in
        do so <- search_order s cur rnd g;
        let '(current, considered, _) := so in
        do r <- satisf_levels level_fuel src (st_crits s) (current :: considered) (-1)%Z [];
        let '(lft, acc, idx) := r in
        match lft with
        | [] => Ok (sequential_ranking acc)
        | _ => do low <- lowest_thresholds s;
               Ok (sequential_ranking (acc ++ map (fun a => (a, ESatisf low (idx + 1)%Z)) lft))
        end
    | _ => Err EType
    end.

  (** ParseParams of the heuristics is a plain decode *)
  Definition majority_parse (rp : rawparams) : res mparams :=
    Ok (PMajority (match rp_weights rp with Some w => w | None => [] end) (rp_current rp) (rp_seed rp)
                  (rp_random_order rp) (rp_draw rp)).
  Definition aspect_parse (rp : rawparams) : res mparams :=
    Ok (PAspect (rp_function rp) (rp_lparams rp) (rp_seed rp)
                (match rp_weights rp with Some w => w | None => [] end) (rp_random_order rp)).
  Definition satisfaction_parse (rp : rawparams) : res mparams :=
    Ok (PSatisf (rp_function rp) (rp_lparams rp) (rp_seed rp) (rp_current rp) (rp_random_order rp)).
End Heuristics.
