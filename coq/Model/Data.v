(** * Data of the model: the decoded request, working state, response. *)
From Coq Require Import ZArith Bool List String.
From RDM Require Import Base.Num Base.Util.
Import ListNotations.
Local Open Scope string_scope.

Section Data.
  Context {N : Num}.

  (** ** Alternatives and criteria *)
  Record alt := { a_id : string; a_vals : smap num }.

  Inductive ctype := TGain | TCost | TOther.   (* "gain" | "cost" | anything else (treated as gain by Multiplier) *)
  Definition ctype_eqb (a b : ctype) : bool :=
    match a, b with TGain, TGain | TCost, TCost | TOther, TOther => true | _, _ => false end.

  Record crit := { c_id : string; c_type : ctype; c_range : option (num * num) (* (min, max) *) }.

  (* Criterion.Multiplier *)
  Definition is_cost (c : crit) : bool := match c_type c with TCost => true | _ => false end.
  (* v * float64(Multiplier()): multiplication by 1 / -1 is exact, so this is v or -v *)
  Definition sgn (c : crit) (v : num) : num := if is_cost c then nopp v else v.

  (* AlternativeWithCriteria.CriterionRawValue / CriterionValue *)
  Definition raw_value (a : alt) (c : crit) : res num := of_option (mget (c_id c) (a_vals a)) EMissing.
  Definition crit_value (a : alt) (c : crit) : res num := do v <- raw_value a c; Ok (sgn c v).

  (** ** Linear functions (utils.LinearFunctionParameters) *)
  Record linfun := { lf_a : num; lf_b : num }.
  (* Evaluate: (value, ok) *)
  Definition lf_eval (f : linfun) (x : num) : num * bool :=
    if neqb (lf_a f) nzero && neqb (lf_b f) nzero then (nzero, false)
    else (nadd (nmul (lf_a f) x) (lf_b f), true).

  Record ecrit := { ec_k : num; ec_q : linfun; ec_p : linfun; ec_v : linfun }.

  (** ** Aspiration-level parameters as decoded by mapstructure (absent fields are zero / empty) *)
  Record lparams := { lp_coef : num; lp_max : num; lp_min : num; lp_ths : list (smap num) }.

  (** ** Raw method parameters of the request (every key any method reads; absent = None / default) *)
  Record rawparams := {
    rp_weights : option (smap num);           (* "weights" *)
    rp_electre : option (smap ecrit);         (* "electreCriteria" *)
    rp_dist : option linfun;                  (* "electreDistillation" *)
    rp_current : string;                      (* "currentChoice" *)
    rp_seed : Z;                              (* "randomSeed" *)
    rp_random_order : bool;                   (* "randomAlternativesOrdering" *)
    rp_draw : string;                         (* "drawResolution" *)
    rp_function : string;                     (* "function" *)
    rp_lparams : lparams;                     (* "params" *)
  }.

  (** ** Parsed method parameters (the [MethodParameters] of DecisionMakingParams) *)
  Definition wcrit := (crit * num)%type.
  Inductive mparams :=
  | PWs (wc : list wcrit)
  | POwa (wc : list wcrit)
  | PChoquet (w : smap num) (cs : list crit)
  | PElectre (ec : smap ecrit) (dist : linfun)
  | PMajority (w : smap num) (cur : string) (seed : Z) (rnd : bool) (draw : string)
  | PAspect (fn : string) (lp : lparams) (seed : Z) (w : smap num) (rnd : bool)
  | PSatisf (fn : string) (lp : lparams) (seed : Z) (cur : string) (rnd : bool).

  (** ** DecisionMakingParams *)
  Record state := {
    st_notcons : list alt;
    st_cons : list alt;
    st_crits : list crit;
    st_params : mparams;
  }.
  (* AllAlternatives: considered first, then the others *)
  Definition all_alts (s : state) : list alt := st_cons s ++ st_notcons s.

  (** ** Bias properties: every field any bias decodes from its props (defaults applied by the
      decoder are written into the case by the driver and are part of the correspondence).
      For anchoring the bounding, reference-criterion and seed fields are those of applier.params. *)
  Record anchor_alt := { aa_id : string; aa_coef : num }.
  Record fparams := { fp_name : string; fp_a : num; fp_b : num; fp_alpha : num; fp_mult : num }.
  Record bprops := {
    bp_ordering : string;             (* ordering *)
    bp_ratio : num; bp_min : Z; bp_max : Z;      (* CriteriaSplitCondition *)
    bp_seed : Z;                      (* randomSeed *)
    bp_scaling : num; bp_nonneg : bool;          (* CriteriaBounding *)
    bp_ref_type : string; bp_ref_importance : num; bp_ref_seed : Z;   (* reference criterion *)
    bp_new_scaling : num;             (* newCriterionScaling *)
    bp_mix_ratio : num;               (* mixingRatio *)
    bp_fat_function : string; bp_fat_value : num; bp_fat_alpha : num; bp_fat_mult : num; bp_fat_query : Z;
    bp_anch_alts : list anchor_alt;   (* anchoringAlternatives *)
    bp_anch_loss : fparams; bp_anch_gain : fparams;
    bp_anch_ref : string;             (* referencePoints function *)
    bp_anch_applier : string;         (* applier function *)
    bp_anch_not_considered : bool;    (* applier params: applyOnNotConsidered *)
  }.
  Record biasreq := { b_name : string; b_disabled : bool; b_prob : num; b_props : bprops }.

  (** ** Request (the decoded DecisionMaker) *)
  Record request := {
    r_method : string;
    r_biases : list biasreq;
    r_seed : Z;                       (* biasApplyRandomSeed *)
    r_known : list alt;
    r_chose : list string;
    r_crits : list crit;
    r_mp : rawparams;
  }.

  (** ** Response *)
  Inductive evaluation :=
  | EValue (v : num)
  | EElectre (asc desc : Z)
  | EMajority (v : num) (cw : string) (cv : num)
  | EAspect (th : smap num) (idx : Z)
  | ESatisf (th : smap num) (idx : Z).
  Record entry := { e_alt : alt; e_eval : evaluation; e_links : list string }.

  (** ** Environment: oracles shipped with a case (random stream prefixes per seed, exp table) *)
  Record env := {
    env_streams : list (Z * list num);
    env_exp : list (num * num);
  }.
  Definition rng := list num.
  Fixpoint lookupZ {A} (k : Z) (l : list (Z * A)) : option A :=
    match l with [] => None | (k', v) :: r => if Z.eqb k k' then Some v else lookupZ k r end.
  (* SeededValueGenerator: the stream of a seed *)
  Definition new_rng (e : env) (seed : Z) : rng :=
    match lookupZ seed (env_streams e) with Some l => l | None => [] end.
  Definition draw (g : rng) : res (num * rng) :=
    match g with [] => Err EOutOfRandom | x :: r => Ok (x, r) end.
  Fixpoint lookup_num (k : num) (l : list (num * num)) : option num :=
    match l with [] => None | (k', v) :: r => if neqb k k' then Some v else lookup_num k r end.
  Definition exp_oracle (e : env) (x : num) : res num := of_option (lookup_num x (env_exp e)) EOutOfOracle.

  (** ** Equality tests used to compare observed with computed data *)
  Definition smap_same (a b : smap num) : bool :=
    list_eqb (fun x y => String.eqb (fst x) (fst y) && nsame (snd x) (snd y)) a b.
  Definition alt_same (a b : alt) : bool := String.eqb (a_id a) (a_id b) && smap_same (a_vals a) (a_vals b).
  Definition range_same (a b : option (num * num)) : bool :=
    option_eqb (fun x y => nsame (fst x) (fst y) && nsame (snd x) (snd y)) a b.
  Definition crit_same (a b : crit) : bool :=
    String.eqb (c_id a) (c_id b) && ctype_eqb (c_type a) (c_type b) && range_same (c_range a) (c_range b).
  Definition eval_same (a b : evaluation) : bool :=
    match a, b with
    | EValue x, EValue y => nsame x y
    | EElectre a1 d1, EElectre a2 d2 => Z.eqb a1 a2 && Z.eqb d1 d2
    | EMajority v1 c1 w1, EMajority v2 c2 w2 => nsame v1 v2 && String.eqb c1 c2 && nsame w1 w2
    | EAspect t1 i1, EAspect t2 i2 => smap_same t1 t2 && Z.eqb i1 i2
    | ESatisf t1 i1, ESatisf t2 i2 => smap_same t1 t2 && Z.eqb i1 i2
    | _, _ => false
    end.
  Definition entry_same (a b : entry) : bool :=
    alt_same (e_alt a) (e_alt b) && eval_same (e_eval a) (e_eval b) && list_eqb String.eqb (e_links a) (e_links b).
End Data.
