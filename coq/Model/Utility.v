(** * The three utility methods: weightedSum, owa, choquetIntegral (lib/logic/preference-func) *)
From Coq Require Import ZArith Bool List String Ascii.
From RDM Require Import Base.Num Base.Util Model.Data Model.Rank.
Import ListNotations.
Local Open Scope string_scope.

Section Utility.
  Context {N : Num}.

  (** ** shared: ExtractWeights, ZipWithWeights *)
  Definition extract_weights (rp : rawparams) : res (smap num) := of_option (rp_weights rp) EMissing.

  Definition zip_with_weights (cs : list crit) (w : smap num) : res (list wcrit) :=
    mapM (fun c => do v <- of_option (mget (c_id c) w) EMissing; Ok (c, v)) cs.

  Definition wc_lt (x y : wcrit) : bool := nltb (snd x) (snd y).

  (** ** weightedSum *)
  Definition ws_parse (cs : list crit) (rp : rawparams) : res mparams :=
    do w <- extract_weights rp; do wc <- zip_with_weights cs w; Ok (PWs wc).

  (* WeightedSum: total += alternative.CriterionValue(criterion) -- the weight is not used *)
  Definition ws_value (wc : list wcrit) (a : alt) : res num :=
    do vs <- mapM (fun x => crit_value a (fst x)) wc; Ok (nsum_left vs).

  (** ** owa *)
  Definition owa_parse (cs : list crit) (rp : rawparams) : res mparams :=
    do w <- extract_weights rp;
    if negb (Nat.eqb (List.length w) (List.length cs)) then Err EInvalid else
    do wc <- zip_with_weights cs w;
    Ok (POwa (isort wc_lt wc)).

  Definition dot_left (vs ws : list num) : num :=
    fold_left (fun acc p => nadd acc (nmul (fst p) (snd p))) (zip vs ws) nzero.

  Definition owa_value (wc : list wcrit) (a : alt) : res num :=
    let sw := isort wc_lt wc in
    if negb (Nat.eqb (List.length (a_vals a)) (List.length sw)) then Err EInvalid else
    let sv := isort nltb (mvals (a_vals a)) in
    Ok (dot_left sv (map snd sw)).

  (** ** choquetIntegral *)
  Definition comma : ascii := ","%char.
  Definition str_sort (l : list string) : list string := isort String.ltb l.
  (* criterionKey: sort, join with "," *)
  Definition criterion_key (l : list string) : string := join_with "," (str_sort l).
  Definition contained_criteria (k : string) : list string := split_on comma k.

  (* remapWeights: normalise every key; two keys with the same normal form are an error *)
  Fixpoint remap_weights (w : list (string * num)) (acc : smap num) : res (smap num) :=
    match w with
    | [] => Ok acc
    | (k, v) :: r =>
        let k' := criterion_key (contained_criteria k) in
        if mhas k' acc then Err EInvalid else remap_weights r (mset k' v acc)
    end.

  (* PowerSet: non-empty subsets, subset [index] holds element j iff bit j of index is set *)
  (* in Go's index order: bit 0 = first element varies fastest *)
  Fixpoint power_set_all (l : list string) : list (list string) :=
    match l with
    | [] => [[]]
    | x :: r => flat_map (fun t => [t; x :: t]) (power_set_all r)
    end.
  Definition power_set (l : list string) : list (list string) :=
    filter (fun s => match s with [] => false | _ => true end) (power_set_all l).

  Definition union_weight (names : list string) (w : smap num) : res num :=
    of_option (mget (criterion_key names) w) EMissing.

  Definition all_gain (cs : list crit) : bool :=
    forallb (fun c => match c_type c with TGain => true | _ => false end) cs.

  Fixpoint prepare_weights (w : list (string * num)) (names : list string) (acc : smap num) : res (smap num) :=
    match w with
    | [] => Ok acc
    | (k, v) :: r =>
        let parts := contained_criteria k in
        if negb (forallb (fun p => mem_str p names) parts) then Err EInvalid else
        if nltb v nzero || nltb none v then Err EInvalid else
        prepare_weights r names (mset (criterion_key parts) v acc)
    end.

  Definition choquet_parse_weights (cs : list crit) (w : smap num) : res (smap num) :=
    if negb (all_gain cs) then Err EInvalid else
    do nw <- remap_weights w [];
    do _ <- mapM (fun s => union_weight s nw) (power_set (map c_id cs));
    prepare_weights nw (map c_id cs) [].

  Definition choquet_parse (cs : list crit) (rp : rawparams) : res mparams :=
    do w <- extract_weights rp;
    do pw <- choquet_parse_weights cs w;
    Ok (PChoquet pw cs).

  Definition cw_lt (x y : string * num) : bool := nltb (snd x) (snd y).

  (* index of the first element after position 0 that is not within 1e-5 of [cur] *)
  Fixpoint group_len (cur : num) (l : list (string * num)) : nat :=
    match l with
    | [] => O
    | (_, v) :: r => if floats_are_equal cur v c_eps5 then S (group_len cur r) else O
    end.

  (* computeTotalWeight; returns the value and the components (criteria of the group on, value added) *)
  Fixpoint choquet_total (fuel : nat) (sorted : list (string * num)) (w : smap num) (prev : num)
           (acc : num) (comps : list (list string * num)) : res (num * list (list string * num)) :=
    match fuel with
    | O => Err EOutOfFuel
    | S f =>
        match sorted with
        | [] => Ok (acc, rev comps)
        | (c, v) :: rest =>
            let names := map fst sorted in
            let j := group_len v rest in
            do mu <- union_weight names w;
            let added := nmul mu (nsub v prev) in
            choquet_total f (skipn j rest) w v (nadd acc added) ((names, added) :: comps)
        end
    end.

  Definition choquet_components (w : smap num) (a : alt) : res (num * list (list string * num)) :=
    let sorted := isort cw_lt (a_vals a) in
    choquet_total (S (List.length sorted)) sorted w nzero nzero [].

  Definition choquet_value (w : smap num) (a : alt) : res num :=
    do r <- choquet_components w a; Ok (fst r).

  (** ** Evaluate for the three methods *)
  Definition utility_evaluate (s : state) : res (list entry) :=
    match st_params s with
    | PWs wc => rank_with (ws_value wc) (st_cons s)
    | POwa wc => rank_with (owa_value wc) (st_cons s)
    | PChoquet w _ => rank_with (choquet_value w) (st_cons s)
    | _ => Err EType
    end.
End Utility.
