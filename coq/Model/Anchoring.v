(** * Anchoring (lib/logic/biases/anchoring) and the bias pipeline step *)
From Coq Require Import ZArith Bool List String.
From RDM Require Import Base.Num Base.Util Model.Data Model.Rank Model.Utility Model.Levels Model.Heuristics
     Model.Electre Model.Listeners Model.Biases.
Import ListNotations.
Local Open Scope string_scope.
Local Open Scope list_scope.

Section Anchoring.
  Context {N : Num}.

  Definition fn_linear := "linear".
  Definition fn_exp := "expFromZero".
  Definition rp_ideal := "ideal".
  Definition rp_nadir := "nadir".
  Definition ap_inline := "inline".
  Definition ap_new := "newCriterion".

  Definition known_fun (f : fparams) : bool := String.eqb (fp_name f) fn_linear || String.eqb (fp_name f) fn_exp.
  Definition eval_fun (e : env) (f : fparams) (x : num) : res num :=
    if String.eqb (fp_name f) fn_linear then Ok (fst (lf_eval {| lf_a := fp_a f; lf_b := fp_b f |} x))
    else if String.eqb (fp_name f) fn_exp then exp_from_zero e (fp_alpha f) (fp_mult f) x
    else Err EInvalid.

  (* isBetter(criterion, a = held, b = candidate): the candidate is better *)
  Definition is_better (c : crit) (av ac bv bc : num) : bool :=
    if is_cost c then
      let x := nmul av bc in let y := nmul bv ac in
      if neqb x y then nleb bv av else nltb y x
    else
      let x := nmul av ac in let y := nmul bv bc in
      if neqb x y then nleb av bv else nltb x y.
  Definition can_new_be_better (ac bc : num) : bool :=
    if neqb bc nzero && neqb ac nzero then true
    else if neqb ac nzero then true
    else if neqb bc nzero then false else true.

  Definition ref_predicate (nadir : bool) (c : crit) (av ac bv bc : num) : bool :=
    can_new_be_better ac bc && (if nadir then negb (is_better c av ac bv bc) else is_better c av ac bv bc).

  (* findBest: the reference point of the anchoring alternatives *)
  Definition reference_point (nadir : bool) (cs : list crit) (alts : list (alt * num)) : res (smap num) :=
    match alts with
    | [] => Err EInvalid
    | (a0, k0) :: rest =>
        let init : smap (num * num) := map (fun kv => (fst kv, (snd kv, k0))) (a_vals a0) in
        do best <- fold_left (fun acc ak =>
                                fold_left (fun acc2 c =>
                                             do m <- acc2;
                                             do v <- raw_value (fst ak) c;
                                             do old <- of_option (mget (c_id c) m) EMissing;
                                             if ref_predicate nadir c (fst old) (snd old) v (snd ak)
                                             then Ok (mset (c_id c) (v, snd ak) m) else Ok m)
                                          cs acc)
                             rest (Ok init);
        Ok (map (fun kv => (fst kv, fst (snd kv))) best)
    end.

  (* per criterion: (scale, range) *)
  Definition criteria_scaling (cs : list crit) (all : list alt) : res (list (crit * (num * (num * num)))) :=
    mapM (fun c => do r <- values_range all c; Ok (c, (scale_ratio (nzero, none) r, r))) cs.

  (* calculateReferencePointDiffs *)
  Definition ref_diffs (e : env) (sc : list (crit * (num * (num * num)))) (a r : alt) (loss gain : fparams)
    : res (smap num) :=
    fold_left (fun acc cs =>
                 do m <- acc;
                 let c := fst cs in
                 do va <- crit_value a c;
                 do vr <- crit_value r c;
                 let scaled := nmul (nsub va vr) (fst (snd cs)) in
                 do v <- (if nltb nzero scaled then eval_fun e gain scaled
                          else do l <- eval_fun e loss (nopp scaled); Ok (nopp l));
                 Ok (mset (c_id c) v m))
              sc (Ok []).

  (* arithmeticAverage over the reference points *)
  Definition average (points : list (string * smap num)) : res (smap num) :=
    match points with
    | [] => Err EIndex
    | p0 :: rest =>
        do sum <- fold_left (fun acc p =>
                               fold_left (fun acc2 kv => do m <- acc2;
                                                         do old <- of_option (mget (fst kv) m) EMissing;
                                                         Ok (mset (fst kv) (nadd old (snd kv)) m))
                                         (snd p) acc)
                            rest (Ok (snd p0));
        let n := nofZ (Z.of_nat (List.length points)) in
        if nltb none n then Ok (map (fun kv => (fst kv, ndiv (snd kv) n)) sum) else Ok sum
    end.

  Definition apply_inline (cur : state) (p : bprops) (sc : list (crit * (num * (num * num))))
             (diffs : list (alt * list (string * smap num))) : res (state * applier_report) :=
    do r <- mapM (fun ad =>
                    let a := fst ad in
                    do avg <- average (snd ad);
                    do nd <- fold_left (fun acc cs =>
                                          do st <- acc;
                                          let c := fst cs in
                                          do d <- of_option (mget (c_id c) (fst st)) EMissing;
                                          do v <- of_option (mget (c_id c) (a_vals a)) EMissing;
                                          let nv := bound_value p (snd (snd cs)) (nadd v (nmul (range_diff (snd (snd cs))) d)) in
                                          Ok (mset (c_id c) nv (fst st), mset (c_id c) (nsub nv v) (snd st)))
                                       sc (Ok (avg, []));
                    Ok ({| a_id := a_id a; a_vals := fst nd |}, {| a_id := a_id a; a_vals := snd nd |})) diffs;
    let new_alts := map fst r in
    let applied := map snd r in
    do consd <- update_alts (st_cons cur) new_alts;
    do nconsd <- (if bp_anch_not_considered p then update_alts (st_notcons cur) new_alts else Ok (st_notcons cur));
    do rep <- (if bp_anch_not_considered p then Ok applied else update_alts (st_cons cur) applied);
    Ok ({| st_notcons := nconsd; st_cons := consd; st_crits := st_crits cur; st_params := st_params cur |}, ARInline rep).

  (* normalizeCriteriaByTotalValue *)
  Definition normalize_weights (ranked : list wcrit) : list wcrit :=
    match ranked with
    | [] => []
    | first :: _ =>
        let dif := if nltb (snd first) c_001 then nsub c_001 (snd first) else nzero in
        let shifted := map (fun c => (fst c, nadd (snd c) dif)) ranked in
        let total := fold_left (fun t c => nadd t (snd c)) shifted nzero in
        map (fun c => (fst c, ndiv (snd c) total)) shifted
    end.

  Definition anchoring_criterion_prefix := "__anchoring_criterion_".

  Definition apply_new_criterion (e : env) (cur : state) (p : bprops) (sc : list (crit * (num * (num * num))))
             (diffs : list (alt * list (string * smap num))) : res (state * applier_report) :=
    do ranked <- rank_criteria cur;
    do ref <- reference_criterion e ranked p;
    let weights := normalize_weights ranked in
    do rsc <- of_option (find (fun cs => String.eqb (c_id (fst cs)) (c_id ref)) sc) EMissing;
    let rr := snd (snd rsc) in
    let half := ndiv (range_diff rr) c_two in
    (* the criteria are created while the first alternative is processed: one per reference point *)
    let refs := match diffs with [] => [] | d0 :: _ => map fst (snd d0) end in
    do created <- fold_left (fun acc ir =>
                               do st <- acc;
                               let '(crits, params, added) := st in
                               let g := new_rng e (bp_seed p + Z.of_nat (fst ir))%Z in
                               let newc := {| c_id := not_used_name crits (anchoring_criterion_prefix ++ snd ir);
                                              c_type := c_type ref; c_range := c_range ref |} in
                               do crits' <- add_criterion crits newc;
                               do ag <- on_criterion_added newc ref params g;
                               do params' <- merge params (fst ag);
                               Ok (crits', params', added ++ [(newc, fst ag)]))
                            (zip (seq 0 (List.length refs)) refs) (Ok (st_crits cur, st_params cur, []));
    let '(crits, params, added) := created in
    do new_alts <- mapM (fun ad =>
                           fold_left (fun acc rc =>
                                        do a <- acc;
                                        let '(rdiff, (newc, _)) := rc in
                                        do cv <- fold_left (fun accv c => do s <- accv;
                                                                          do v <- of_option (mget (c_id (fst c)) (snd rdiff)) EMissing;
                                                                          Ok (nadd s (nmul v (snd c))))
                                                           weights (Ok nzero);
                                        let nv := bound_value p rr (nadd (nadd (fst rr) half) (nmul half cv)) in
                                        with_value a (c_id newc) nv)
                                     (zip (snd ad) added) (Ok (fst ad))) diffs;
    do consd <- update_alts (st_cons cur) new_alts;
    do nconsd <- update_alts (st_notcons cur) new_alts;
    let rep := map (fun ca => (fst ca,
                               fold_left (fun m a => match mget (c_id (fst ca)) (a_vals a) with
                                                     | Some v => mset (a_id a) v m | None => m end) new_alts [],
                               snd ca)) added in
    Ok ({| st_notcons := nconsd; st_cons := consd; st_crits := crits; st_params := params |}, ARNew ref rep).

  Definition apply_anchoring (e : env) (cur : state) (p : bprops) : res (state * report) :=
    match bp_anch_alts p with
    | [] => Err EInvalid
    | _ =>
        if negb (known_fun (bp_anch_loss p)) || negb (known_fun (bp_anch_gain p)) then Err EInvalid else
        if negb (String.eqb (bp_anch_applier p) ap_inline || String.eqb (bp_anch_applier p) ap_new) then Err EInvalid else
        let all := all_alts cur in
        do anch <- mapM (fun aa => do a <- fetch_alt' all (aa_id aa); Ok (a, aa_coef aa)) (bp_anch_alts p);
        if negb (String.eqb (bp_anch_ref p) rp_ideal || String.eqb (bp_anch_ref p) rp_nadir) then Err EInvalid else
        let nadir := String.eqb (bp_anch_ref p) rp_nadir in
        do rpv <- reference_point nadir (st_crits cur) anch;
        let refs := [{| a_id := bp_anch_ref p; a_vals := rpv |}] in
        if negb (valid_bounding p) then Err EInvalid else
        do sc <- criteria_scaling (st_crits cur) all;
        do diffs <- mapM (fun a => do ds <- mapM (fun r => do d <- ref_diffs e sc a r (bp_anch_loss p) (bp_anch_gain p);
                                                           Ok (a_id r, d)) refs;
                                   Ok (a, ds)) all;
        do r <- (if String.eqb (bp_anch_applier p) ap_inline then apply_inline cur p sc diffs
                 else apply_new_criterion e cur p sc diffs);
        Ok (fst r, RAnchoring refs (fold_left (fun m cs => mset (c_id (fst cs)) (snd cs) m) sc []) diffs (snd r))
    end.

  (** ** one bias *)
  Definition apply_bias (e : env) (name : string) (cur : state) (p : bprops) : res (state * report) :=
    if String.eqb name b_omission then apply_omission e cur p
    else if String.eqb name b_reversal then apply_reversal e cur p
    else if String.eqb name b_fatigue then apply_fatigue e cur p
    else if String.eqb name b_concealment then apply_concealment e cur p
    else if String.eqb name b_mixing then apply_mixing e cur p
    else if String.eqb name b_anchoring then apply_anchoring e cur p
    else Err EInvalid.
End Anchoring.
