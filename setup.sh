#!/bin/bash
# Run once in /verif after a fresh restore, offline: builds the Coq development (full .vo) and the
# harness binary from files on disk only.
set -e
cd "$(dirname "$0")"
mkdir -p .work/bin evidence replays coq/Run
# the three translators first: the inventories under coq/Gen are regenerated from /repo before anything is compiled
(cd tools/gotools && GOFLAGS=-mod=mod GOPROXY=off GOSUMDB=off GOTOOLCHAIN=local go build -o ../../.work/bin/mapranges ./mapranges)
(cd tools/gotools && GOFLAGS=-mod=mod GOPROXY=off GOSUMDB=off GOTOOLCHAIN=local go build -o ../../.work/bin/effects ./effects)
(cd tools/gotools && GOFLAGS=-mod=mod GOPROXY=off GOSUMDB=off GOTOOLCHAIN=local go build -o ../../.work/bin/consts ./consts)
python3 tools/gen_mapranges.py
python3 tools/gen_consts.py
python3 tools/gen_effects.py
cd coq
VFILES=$(for d in Base Gen Model Spec Proofs Properties Check; do [ -d $d ] && find $d -name '*.v'; done | sort)
coq_makefile -f _CoqProject $VFILES -o Makefile > /dev/null
echo "$VFILES" | tr ' ' '\n' | sed '/^$/d' > .files.tmp; python3 - <<'PY'
import os
l=[x.strip() for x in open('.files.tmp') if x.strip()]
open('.files','w').write('\n'.join(sorted(l)))
os.remove('.files.tmp')
PY
timeout 3000 make -j8
cd ..
./harness/build.sh "$(pwd)/.work/bin"
CGO_ENABLED=1 ./harness/build.sh "$(pwd)/.work/bin-race" -race || echo "race build unavailable"
echo setup done
