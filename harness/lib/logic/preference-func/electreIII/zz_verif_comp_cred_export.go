//go:build verif

// Added to package electreIII at build time by the verification overlay (never committed to the repository):
// exposes the credibility matrix the method derives from the state it is evaluated on.
package electreIII

import (
	"github.com/Azbesciak/RealDecisionMaker/lib/model"
)

func VerifCredibilityMatrix(dmp *model.DecisionMakingParams) (rows [][]float64, ok bool) {
	params, isElectre := dmp.MethodParameters.(electreIIIParams)
	if !isElectre {
		return nil, false
	}
	alts := dmp.ConsideredAlternatives
	m := evaluateCredibilityMatrix(&alts, &dmp.Criteria, params.Criteria)
	n := m.Values.Size
	rows = make([][]float64, n)
	for i := 0; i < n; i++ {
		rows[i] = append([]float64{}, m.Values.Data[i*n:(i+1)*n]...)
	}
	return rows, true
}
