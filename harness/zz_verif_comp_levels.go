//go:build verif

// Component entry point: the aspiration-level sources exactly as wired in main.go.
package main

import (
	"encoding/json"
	"fmt"
	"reflect"

	"github.com/Azbesciak/RealDecisionMaker/lib/logic/limited-rationality/satisfaction-levels"
	"github.com/Azbesciak/RealDecisionMaker/lib/model"
)

// registered through a package-level variable: those are initialised before any init()
var _ = registerComp("levels", levelsOp)

func levelsOp(args json.RawMessage) (out interface{}) {
	{
		var a struct {
			Family        string                          `json:"family"`
			Function      string                          `json:"function"`
			Params        interface{}                     `json:"params"`
			Criteria      model.Criteria                  `json:"criteria"`
			Considered    []model.AlternativeWithCriteria `json:"considered"`
			NotConsidered []model.AlternativeWithCriteria `json:"notConsidered"`
			Max           int                             `json:"max"`
		}
		if err := json.Unmarshal(args, &a); err != nil {
			return map[string]interface{}{"ok": false, "err": err.Error(), "kind": "bind"}
		}
		defer func() {
			if e := recover(); e != nil {
				out = map[string]interface{}{"ok": false, "err": fmt.Sprint(e), "kind": "panic"}
			}
		}()
		sources := increasingSatisfactionLevels
		if a.Family == "decreasing" {
			sources = decreasingSatisfactionLevels
		}
		dmp := &model.DecisionMakingParams{ConsideredAlternatives: a.Considered, NotConsideredAlternatives: a.NotConsidered, Criteria: a.Criteria}
		before := dump(dmp)
		generate := func() ([]model.Weights, bool) {
			lv := satisfaction_levels.Find(a.Function, a.Params, sources)
			lv.Initialize(dmp)
			levels := make([]model.Weights, 0)
			for lv.HasNext() {
				if len(levels) >= a.Max {
					return levels, true
				}
				levels = append(levels, lv.Next())
			}
			return levels, false
		}
		levels, truncated := generate()
		if truncated {
			return map[string]interface{}{"ok": true, "levels": dump(levels), "truncated": true}
		}
		// the same data a second time: the series is a function of the data, and generating it leaves the data alone
		again, _ := generate()
		return map[string]interface{}{"ok": true, "levels": dump(levels), "truncated": false,
			"again": dump(again), "dataUnchanged": reflect.DeepEqual(before, dump(dmp))}
	}
}
