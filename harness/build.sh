#!/bin/bash
# Builds the real httpClient from the working tree of $VERIF_REPO (default /repo) with the verif
# overlay; nothing is written under the repository. Usage: build.sh [outdir] [extra go flags...]
set -e
REPO=${VERIF_REPO:-/repo}
HERE=$(cd "$(dirname "$0")" && pwd)
OUT=${1:-$HERE/../.work/bin}; shift || true
mkdir -p "$OUT" "$OUT/gen"
OUT=$(cd "$OUT" && pwd)
export GOFLAGS=-mod=mod GOPROXY=off GOSUMDB=off GOTOOLCHAIN=local GOARCH=amd64 GOAMD64=v1 CGO_ENABLED=${CGO_ENABLED:-0}
# alternate go.mod: same requirements, lib replaced by the working tree
sed -e 's#^module .*#module github.com/Azbesciak/RealDecisionMaker/httpClient#' "$REPO/httpClient/go.mod" > "$OUT/gen/httpClient.mod"
echo "replace github.com/Azbesciak/RealDecisionMaker/lib => $REPO/lib" >> "$OUT/gen/httpClient.mod"
cat "$REPO/httpClient/go.sum" "$REPO/lib/go.sum" 2>/dev/null | sort -u > "$OUT/gen/httpClient.sum"
# overlay: add zz_verif*.go to package main
python3 - "$REPO" "$HERE" "$OUT/gen/overlay.json" <<'PY'
import json,sys,glob,os
repo,here,out=sys.argv[1:4]
skip=set(filter(None,os.environ.get('VERIF_SKIP_OVERLAY','').split(',')))
rep={}
for f in sorted(glob.glob(here+'/zz_verif*.go')):
    if os.path.basename(f) in skip: continue
    rep[repo+'/httpClient/'+os.path.basename(f)]=f
# files added to packages of lib (exports of unexported helpers for the component overlays)
for f in sorted(glob.glob(here+'/lib/**/zz_verif*.go', recursive=True)):
    if os.path.basename(f) in skip: continue
    rep[repo+'/lib/'+os.path.relpath(f, here+'/lib')]=f
json.dump({'Replace':rep},open(out,'w'))
PY
cd "$REPO/httpClient"
go build -tags verif -modfile="$OUT/gen/httpClient.mod" -overlay="$OUT/gen/overlay.json" "$@" -o "$OUT/rdm" .
