//go:build verif

// Component hook: in trace mode the ELECTRE III credibility matrix of the state the method is evaluated on is
// reported next to the response (field "cred"), computed by the package's own evaluateCredibilityMatrix.
package main

import (
	"fmt"

	"github.com/Azbesciak/RealDecisionMaker/lib/logic/preference-func/electreIII"
	"github.com/Azbesciak/RealDecisionMaker/lib/model"
)

var _ = setEvalHook(func(dmp *model.DecisionMakingParams) (out interface{}) {
	defer func() {
		if e := recover(); e != nil {
			out = map[string]interface{}{"panic": fmt.Sprint(e)}
		}
	}()
	rows, ok := electreIII.VerifCredibilityMatrix(dmp)
	if !ok {
		return nil
	}
	return dump(rows) // NaN / Inf as strings
})
