//go:build verif

// Verification harness, added to package main of httpClient through `go build -overlay`
// (nothing is written under /repo). With VERIF_MODE=pipe the binary reads JSON lines on stdin and
// answers on stdout, using the *real* registries `funcs`, `biasListeners`, `biases` declared in
// main.go; without it the unmodified server starts (main() is untouched).
package main

import (
	"bufio"
	"bytes"
	"encoding/json"
	"fmt"
	"math"
	"os"
	"reflect"
	"runtime/debug"
	"sort"
	"strings"
	"sync"

	"github.com/Azbesciak/RealDecisionMaker/lib/model"
	"github.com/Azbesciak/RealDecisionMaker/lib/utils"
)

func init() {
	if os.Getenv("VERIF_MODE") == "pipe" {
		debug.SetMaxStack(256 << 20)
		runPipe()
		os.Exit(0)
	}
}

type pipeMsg struct {
	Op    string            `json:"op"`
	Req   json.RawMessage   `json:"req"`
	Reqs  []json.RawMessage `json:"reqs"`
	Seed  int64             `json:"seed"`
	N     int               `json:"n"`
	X     float64           `json:"x"`
	Xs    []float64         `json:"xs"`
	Items []rankItem        `json:"items"`
	Args  json.RawMessage   `json:"args"`
	Mode  string            `json:"mode"`
	K     int               `json:"k"`
}

type rankItem struct {
	Id    string  `json:"id"`
	Value float64 `json:"value"`
}

type compHandler func(args json.RawMessage) interface{}

// component-level entry points are registered by the optional overlay files zz_verif_comp_*.go
var compOps = map[string]compHandler{}

func registerComp(name string, h compHandler) bool {
	compOps[name] = h
	return true
}

func runPipe() {
	in := bufio.NewReaderSize(os.Stdin, 1<<20)
	out := bufio.NewWriterSize(os.Stdout, 1<<20)
	defer out.Flush()
	dec := json.NewDecoder(in)
	for {
		var m pipeMsg
		if err := dec.Decode(&m); err != nil {
			return
		}
		res := handle(&m)
		b, err := json.Marshal(res)
		if err != nil {
			b, _ = json.Marshal(map[string]interface{}{"ok": false, "err": "marshal: " + err.Error(), "kind": "marshal"})
		}
		out.Write(b)
		out.WriteByte('\n')
		out.Flush()
	}
}

func handle(m *pipeMsg) (res interface{}) {
	defer func() {
		if e := recover(); e != nil {
			res = map[string]interface{}{"ok": false, "err": fmt.Sprint(e), "kind": "harness-panic"}
		}
	}()
	switch m.Op {
	case "ping":
		return map[string]interface{}{"ok": true}
	case "decide":
		return decideOnce(m.Req, false)
	case "trace":
		return decideOnce(m.Req, true)
	case "hist":
		return runHistory(m)
	case "conc":
		return runConcurrent(m)
	case "rng":
		g := utils.RandomBasedSeedValueGenerator(m.Seed)
		vals := make([]float64, m.N)
		for i := range vals {
			vals[i] = g()
		}
		return map[string]interface{}{"ok": true, "vals": vals}
	case "exp":
		vals := make([]float64, len(m.Xs))
		for i, x := range m.Xs {
			vals[i] = math.Exp(x)
		}
		return map[string]interface{}{"ok": true, "vals": dumpValue(reflect.ValueOf(vals))}
	case "prim":
		return primOps(m.Xs)
	case "ranking":
		results := make(model.AlternativeResults, len(m.Items))
		for i, it := range m.Items {
			a := model.AlternativeWithCriteria{Id: it.Id, Criteria: model.Weights{}}
			results[i] = *model.ValueAlternativeResult(&a, it.Value)
		}
		r := results.Ranking()
		return map[string]interface{}{"ok": true, "result": r}
	case "registries":
		fn := make([]string, 0)
		for _, f := range funcs.Functions {
			fn = append(fn, f.Identifier())
		}
		ls := make([]string, 0)
		for _, l := range biasListeners.Listeners {
			ls = append(ls, l.Identifier())
		}
		bs := make([]string, 0)
		for k := range biases {
			bs = append(bs, k)
		}
		sort.Strings(bs)
		return map[string]interface{}{"ok": true, "functions": fn, "listeners": ls, "biases": bs}
	default:
		if h, ok := compOps[m.Op]; ok {
			return map[string]interface{}{"ok": true, "result": h(m.Args)}
		}
		return map[string]interface{}{"ok": false, "err": "unknown op " + m.Op, "kind": "harness"}
	}
}

func primOps(xs []float64) interface{} {
	type row struct {
		X      interface{} `json:"x"`
		Trunc  int64       `json:"trunc"`
		Floor  interface{} `json:"floor"`
		Round8 interface{} `json:"round8"`
		Abs    interface{} `json:"abs"`
	}
	rows := make([]row, len(xs))
	for i, x := range xs {
		rows[i] = row{
			X:      fl(x),
			Trunc:  int64(x),
			Floor:  fl(math.Floor(x)),
			Round8: fl(math.Round(x*1e8) / 1e8),
			Abs:    fl(math.Abs(x)),
		}
	}
	return map[string]interface{}{"ok": true, "rows": rows}
}

// fl encodes a float so that JSON can carry it (NaN/Inf as strings, -0 kept by Go's encoder)
func fl(x float64) interface{} {
	if math.IsNaN(x) {
		return "NaN"
	}
	if math.IsInf(x, 1) {
		return "+Inf"
	}
	if math.IsInf(x, -1) {
		return "-Inf"
	}
	return x
}

// ---------------------------------------------------------------------------------------------
// decide / trace

type stageSnap struct {
	Name       string      `json:"name"`
	OrigBefore interface{} `json:"origBefore"`
	CurBefore  interface{} `json:"curBefore"`
	CurAfter   interface{} `json:"curAfter"`
	Props      interface{} `json:"props"`
	// the same Go values dumped again after the whole decision was made
	CurAfterFinal interface{} `json:"curAfterFinal"`
	PropsFinal    interface{} `json:"propsFinal"`
	held          *model.DecisionMakingParams
	heldProps     interface{}
}

type tracingBias struct {
	inner model.Bias
	rec   *[]*stageSnap
	mu    *sync.Mutex
}

func (t *tracingBias) Identifier() string { return t.inner.Identifier() }

func (t *tracingBias) Apply(original, current *model.DecisionMakingParams, props *model.BiasProps, listener *model.BiasListener) *model.BiasedResult {
	s := &stageSnap{Name: t.inner.Identifier(), OrigBefore: dump(original), CurBefore: dump(current)}
	t.mu.Lock()
	*t.rec = append(*t.rec, s)
	t.mu.Unlock()
	res := t.inner.Apply(original, current, props, listener)
	s.CurAfter = dump(res.DMP)
	s.Props = jsonTree(res.Props)
	s.held = res.DMP
	s.heldProps = res.Props
	return res
}

func jsonTree(v interface{}) interface{} {
	b, err := json.Marshal(v)
	if err != nil {
		if _, ok := err.(*json.UnsupportedValueError); ok {
			// NaN / Inf somewhere: the same tree encoding/json would build, the numbers JSON cannot carry as strings,
			// and the encoder's message beside it (the service itself cannot answer with this report)
			return map[string]interface{}{"__marshalError": err.Error(), "__tolerant": tolerantTree(reflect.ValueOf(v), 0)}
		}
		return map[string]interface{}{"__marshalError": err.Error()}
	}
	var t interface{}
	d := json.NewDecoder(bytes.NewReader(b))
	d.UseNumber()
	if err := d.Decode(&t); err != nil {
		return map[string]interface{}{"__decodeError": err.Error()}
	}
	return t
}

func decideOnce(raw json.RawMessage, trace bool) (res map[string]interface{}) {
	var dm model.DecisionMaker
	if err := json.Unmarshal(raw, &dm); err != nil {
		return map[string]interface{}{"ok": false, "err": err.Error(), "kind": "bind"}
	}
	return decideValue(&dm, trace)
}

type tracingFunc struct {
	inner model.PreferenceFunction
	got   *[]interface{}
	extra *interface{}
}

func (t *tracingFunc) Identifier() string                            { return t.inner.Identifier() }
func (t *tracingFunc) MethodParameters() interface{}                 { return t.inner.MethodParameters() }
func (t *tracingFunc) ParseParams(dm *model.DecisionMaker) interface{} { return t.inner.ParseParams(dm) }
func (t *tracingFunc) Evaluate(dmp *model.DecisionMakingParams) *model.AlternativesRanking {
	*t.got = append(*t.got, dump(dmp))
	if evalHook != nil && t.extra != nil {
		*t.extra = evalHook(dmp)
	}
	return t.inner.Evaluate(dmp)
}

// optional component hook (set by a zz_verif_comp_*.go file through a package-level variable initialiser)
var evalHook func(dmp *model.DecisionMakingParams) interface{}

func setEvalHook(f func(dmp *model.DecisionMakingParams) interface{}) bool {
	evalHook = f
	return true
}

func decideValue(dm *model.DecisionMaker, trace bool) (res map[string]interface{}) {
	var stages []*stageSnap
	var evalInputs []interface{}
	var evalExtra interface{}
	bm := &biases
	fs := funcs
	if trace {
		wrapped := make([]model.PreferenceFunction, len(funcs.Functions))
		for i, f := range funcs.Functions {
			wrapped[i] = &tracingFunc{inner: f, got: &evalInputs, extra: &evalExtra}
		}
		fs = model.PreferenceFunctions{Functions: wrapped}
	}
	if trace {
		mu := &sync.Mutex{}
		traced := make(model.BiasMap, len(biases))
		for k, b := range biases {
			traced[k] = &tracingBias{inner: b, rec: &stages, mu: mu}
		}
		bm = &traced
	}
	var reqBefore interface{}
	if trace {
		reqBefore = dump(dm)
	}
	defer func() {
		if e := recover(); e != nil {
			msg := fmt.Sprint(e)
			res = map[string]interface{}{"ok": false, "err": msg, "kind": "panic"}
			if trace {
				res["stages"] = finishStages(stages)
				res["requestUnchanged"] = reflect.DeepEqual(reqBefore, dump(dm))
				if len(evalInputs) > 0 {
					res["evalInput"] = evalInputs[0]
				}
			}
		}
	}()
	decision := dm.MakeDecision(fs, biasListeners, bm, utils.RandomBasedSeedValueGenerator)
	b, err := json.Marshal(decision)
	if err != nil {
		// the decision cannot be carried by JSON (NaN / Inf): the service answers 400; the traced stages are still reported
		res = map[string]interface{}{"ok": false, "err": "marshal: " + err.Error(), "kind": "marshal"}
		if trace {
			res["stages"] = finishStages(stages)
			res["requestUnchanged"] = reflect.DeepEqual(reqBefore, dump(dm))
			if len(evalInputs) > 0 {
				res["evalInput"] = evalInputs[0]
			}
		}
		return res
	}
	res = map[string]interface{}{"ok": true, "resp": json.RawMessage(b)}
	if trace {
		res["stages"] = finishStages(stages)
		res["requestUnchanged"] = reflect.DeepEqual(reqBefore, dump(dm))
		res["resultDump"] = dump(decision.Result)
		if len(evalInputs) > 0 {
			res["evalInput"] = evalInputs[0]
		}
		if evalExtra != nil {
			res["cred"] = evalExtra
		}
	}
	return res
}

func finishStages(stages []*stageSnap) []*stageSnap {
	for _, s := range stages {
		if s.held != nil {
			s.CurAfterFinal = dump(s.held)
			s.PropsFinal = jsonTree(s.heldProps)
		}
	}
	return stages
}

// ---------------------------------------------------------------------------------------------
// histories: a sequence of calls in one process; mode "fresh" decodes every request anew, mode
// "shared" decodes each distinct request once and re-uses the same *DecisionMaker value (and
// therefore the same slices and maps) for every repetition.

func runHistory(m *pipeMsg) interface{} {
	type callRes struct {
		Res              map[string]interface{} `json:"res"`
		RequestUnchanged bool                   `json:"requestUnchanged"`
		EarlierIntact    bool                   `json:"earlierIntact"`
	}
	cache := map[string]*model.DecisionMaker{}
	var kept []*model.DecisionMakerChoice
	var keptDumps []interface{}
	out := make([]callRes, 0, len(m.Reqs))
	for _, raw := range m.Reqs {
		var dm *model.DecisionMaker
		key := string(raw)
		if m.Mode == "shared" {
			if c, ok := cache[key]; ok {
				dm = c
			}
		}
		if dm == nil {
			dm = &model.DecisionMaker{}
			if err := json.Unmarshal(raw, dm); err != nil {
				out = append(out, callRes{Res: map[string]interface{}{"ok": false, "err": err.Error(), "kind": "bind"}, RequestUnchanged: true, EarlierIntact: true})
				continue
			}
			if m.Mode == "shared" {
				cache[key] = dm
			}
		}
		before := dump(dm)
		var choice *model.DecisionMakerChoice
		r := func() (res map[string]interface{}) {
			defer func() {
				if e := recover(); e != nil {
					res = map[string]interface{}{"ok": false, "err": fmt.Sprint(e), "kind": "panic"}
				}
			}()
			choice = dm.MakeDecision(funcs, biasListeners, &biases, utils.RandomBasedSeedValueGenerator)
			b, err := json.Marshal(choice)
			if err != nil {
				return map[string]interface{}{"ok": false, "err": "marshal: " + err.Error(), "kind": "marshal"}
			}
			return map[string]interface{}{"ok": true, "resp": json.RawMessage(b)}
		}()
		intact := true
		for i, k := range kept {
			if !reflect.DeepEqual(keptDumps[i], dump(k)) {
				intact = false
			}
		}
		out = append(out, callRes{Res: r, RequestUnchanged: reflect.DeepEqual(before, dump(dm)), EarlierIntact: intact})
		if choice != nil {
			kept = append(kept, choice)
			keptDumps = append(keptDumps, dump(choice))
		}
	}
	return map[string]interface{}{"ok": true, "calls": out}
}

// concurrent: all requests started together on their own goroutines against the shared registries
func runConcurrent(m *pipeMsg) interface{} {
	n := len(m.Reqs)
	results := make([]map[string]interface{}, n)
	var wg sync.WaitGroup
	start := make(chan struct{})
	for i := 0; i < n; i++ {
		wg.Add(1)
		go func(i int) {
			defer wg.Done()
			<-start
			results[i] = decideOnce(m.Reqs[i], false)
		}(i)
	}
	close(start)
	wg.Wait()
	return map[string]interface{}{"ok": true, "results": results}
}

// ---------------------------------------------------------------------------------------------
// reflective deep dump (a copy; reads unexported fields; never calls methods of dumped values)

func dump(v interface{}) interface{} {
	return dumpValue(reflect.ValueOf(v))
}

func dumpValue(v reflect.Value) interface{} {
	return dumpRec(v, 0)
}

func dumpRec(v reflect.Value, depth int) interface{} {
	if depth > 40 {
		return "<depth>"
	}
	if !v.IsValid() {
		return nil
	}
	switch v.Kind() {
	case reflect.Ptr, reflect.Interface:
		if v.IsNil() {
			return nil
		}
		return dumpRec(v.Elem(), depth+1)
	case reflect.Struct:
		m := make(map[string]interface{}, v.NumField())
		t := v.Type()
		for i := 0; i < v.NumField(); i++ {
			m[t.Field(i).Name] = dumpRec(v.Field(i), depth+1)
		}
		return m
	case reflect.Slice:
		if v.IsNil() {
			return []interface{}{}
		}
		fallthrough
	case reflect.Array:
		l := make([]interface{}, v.Len())
		for i := 0; i < v.Len(); i++ {
			l[i] = dumpRec(v.Index(i), depth+1)
		}
		return l
	case reflect.Map:
		m := make(map[string]interface{}, v.Len())
		iter := v.MapRange()
		for iter.Next() {
			m[fmt.Sprint(dumpRec(iter.Key(), depth+1))] = dumpRec(iter.Value(), depth+1)
		}
		return m
	case reflect.Float32, reflect.Float64:
		return fl(v.Float())
	case reflect.Int, reflect.Int8, reflect.Int16, reflect.Int32, reflect.Int64:
		return v.Int()
	case reflect.Uint, reflect.Uint8, reflect.Uint16, reflect.Uint32, reflect.Uint64:
		return v.Uint()
	case reflect.String:
		return v.String()
	case reflect.Bool:
		return v.Bool()
	case reflect.Func:
		return "<func>"
	default:
		return "<" + v.Kind().String() + ">"
	}
}

// tolerantTree mirrors encoding/json for the shapes the library reports (struct fields by json tag, embedded structs
// flattened, omitempty, "-", string-keyed maps, slices, pointers, interfaces) and writes NaN / Inf as strings.
func tolerantTree(v reflect.Value, depth int) interface{} {
	if depth > 40 || !v.IsValid() {
		return nil
	}
	switch v.Kind() {
	case reflect.Ptr, reflect.Interface:
		if v.IsNil() {
			return nil
		}
		return tolerantTree(v.Elem(), depth+1)
	case reflect.Struct:
		m := map[string]interface{}{}
		tolerantFields(v, m, depth)
		return m
	case reflect.Slice:
		if v.IsNil() {
			return nil
		}
		fallthrough
	case reflect.Array:
		l := make([]interface{}, v.Len())
		for i := 0; i < v.Len(); i++ {
			l[i] = tolerantTree(v.Index(i), depth+1)
		}
		return l
	case reflect.Map:
		if v.IsNil() {
			return nil
		}
		m := make(map[string]interface{}, v.Len())
		iter := v.MapRange()
		for iter.Next() {
			m[fmt.Sprint(iter.Key().Interface())] = tolerantTree(iter.Value(), depth+1)
		}
		return m
	case reflect.Float32, reflect.Float64:
		return fl(v.Float())
	case reflect.Int, reflect.Int8, reflect.Int16, reflect.Int32, reflect.Int64:
		return v.Int()
	case reflect.Uint, reflect.Uint8, reflect.Uint16, reflect.Uint32, reflect.Uint64:
		return v.Uint()
	case reflect.String:
		return v.String()
	case reflect.Bool:
		return v.Bool()
	default:
		return nil
	}
}

func tolerantFields(v reflect.Value, m map[string]interface{}, depth int) {
	t := v.Type()
	for i := 0; i < v.NumField(); i++ {
		f := t.Field(i)
		tag := f.Tag.Get("json")
		if tag == "-" {
			continue
		}
		name, opts := tag, ""
		if k := strings.Index(tag, ","); k >= 0 {
			name, opts = tag[:k], tag[k:]
		}
		if f.Anonymous && name == "" {
			fv := v.Field(i)
			for fv.Kind() == reflect.Ptr && !fv.IsNil() {
				fv = fv.Elem()
			}
			if fv.Kind() == reflect.Struct {
				tolerantFields(fv, m, depth+1)
				continue
			}
		}
		if f.PkgPath != "" { // unexported
			continue
		}
		if name == "" {
			name = f.Name
		}
		fv := v.Field(i)
		if strings.Contains(opts, "omitempty") && isEmptyValue(fv) {
			continue
		}
		m[name] = tolerantTree(fv, depth+1)
	}
}

func isEmptyValue(v reflect.Value) bool {
	switch v.Kind() {
	case reflect.Array, reflect.Map, reflect.Slice, reflect.String:
		return v.Len() == 0
	case reflect.Bool:
		return !v.Bool()
	case reflect.Int, reflect.Int8, reflect.Int16, reflect.Int32, reflect.Int64:
		return v.Int() == 0
	case reflect.Uint, reflect.Uint8, reflect.Uint16, reflect.Uint32, reflect.Uint64:
		return v.Uint() == 0
	case reflect.Float32, reflect.Float64:
		return v.Float() == 0
	case reflect.Interface, reflect.Ptr:
		return v.IsNil()
	}
	return false
}
