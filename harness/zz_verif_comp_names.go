//go:build verif

// Component entry point: the name generator used by the criterion-adding biases (exported Criteria.NotUsedName).
package main

import (
	"encoding/json"
	"fmt"

	"github.com/Azbesciak/RealDecisionMaker/lib/model"
)

var _ = registerComp("not_used_name", notUsedNameOp)

func notUsedNameOp(args json.RawMessage) (out interface{}) {
	var a struct {
		Ids  []string `json:"ids"`
		Name string   `json:"name"`
	}
	if err := json.Unmarshal(args, &a); err != nil {
		return map[string]interface{}{"ok": false, "err": err.Error(), "kind": "bind"}
	}
	defer func() {
		if e := recover(); e != nil {
			out = map[string]interface{}{"ok": false, "err": fmt.Sprint(e), "kind": "panic"}
		}
	}()
	cs := make(model.Criteria, len(a.Ids))
	for i, id := range a.Ids {
		cs[i] = model.Criterion{Id: id, Type: model.Gain}
	}
	return map[string]interface{}{"ok": true, "name": cs.NotUsedName(a.Name)}
}
