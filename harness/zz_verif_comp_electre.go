//go:build verif

// Component entry point: the two ELECTRE III distillations on a raw credibility matrix.
package main

import (
	"encoding/json"
	"fmt"

	"github.com/Azbesciak/RealDecisionMaker/lib/logic/preference-func/electreIII"
	"github.com/Azbesciak/RealDecisionMaker/lib/model"
	"github.com/Azbesciak/RealDecisionMaker/lib/utils"
)

var _ = registerComp("electre_rank", electreRankOp)

func electreRankOp(args json.RawMessage) (out interface{}) {
	var a struct {
		Matrix [][]float64 `json:"matrix"`
		A      float64     `json:"a"`
		B      float64     `json:"b"`
	}
	if err := json.Unmarshal(args, &a); err != nil {
		return map[string]interface{}{"ok": false, "err": err.Error(), "kind": "bind"}
	}
	defer func() {
		if e := recover(); e != nil {
			out = map[string]interface{}{"ok": false, "err": fmt.Sprint(e), "kind": "panic"}
		}
	}()
	ids := make(model.Alternatives, len(a.Matrix))
	for i := range ids {
		ids[i] = fmt.Sprintf("a%d", i)
	}
	m := &electreIII.AlternativesMatrix{Alternatives: &ids, Values: electreIII.NewMatrix(&a.Matrix)}
	f := &utils.LinearFunctionParameters{A: a.A, B: a.B}
	asc := electreIII.RankAscending(m, f)
	desc := electreIII.RankDescending(m, f)
	return map[string]interface{}{"ok": true, "asc": *asc, "desc": *desc}
}
